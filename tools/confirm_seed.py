#!/usr/bin/env python3
"""Confirm a candidate seeded change: (1) suite green with the patch, (2) demo red with it, (3) demo green without it;
then run the named checks against the patched tree.  usage: confirm_seed.py <dir with patch.diff demo.rs> <out id> <prop> [more props]
Works in a scratch git worktree of /repo under /tmp (removed afterwards); never modifies /repo."""
import json, os, shutil, subprocess, sys, time

def sh(cmd, cwd, env=None, timeout=3000):
    r = subprocess.run(cmd, cwd=cwd, env=env, stdout=subprocess.PIPE, stderr=subprocess.STDOUT, text=True, timeout=timeout)
    return r.returncode, r.stdout

def main():
    src, out_id, props = sys.argv[1], sys.argv[2], sys.argv[3:]
    wt = '/tmp/cf-%d' % os.getpid()
    tgt = '/tmp/cf-target'
    env = dict(os.environ, CARGO_TARGET_DIR=tgt, CARGO_NET_OFFLINE='true')
    sh(['git', '-C', '/repo', 'worktree', 'add', '--detach', wt, 'HEAD', '-q'], '/')
    res = {}
    try:
        shutil.copy('/repo/Cargo.lock', wt + '/Cargo.lock')
        demo_dst = os.path.join(wt, 'tests', 'zz_demo.rs')
        in_bin = 'fst-bin' in open(os.path.join(src, 'patch.diff')).read()
        # (3) demo on the clean tree
        shutil.copy(os.path.join(src, 'demo.rs'), demo_dst)
        rc, o = sh(['cargo', 'test', '--offline', '--test', 'zz_demo'], wt, env)
        res['demo_clean_passes'] = rc == 0
        res['demo_clean_tail'] = o[-600:] if rc != 0 else ''
        os.remove(demo_dst)
        # apply
        rc, o = sh(['git', 'apply', os.path.abspath(os.path.join(src, 'patch.diff'))], wt)
        res['applies'] = rc == 0
        if rc != 0:
            res['apply_err'] = o[-400:]
        else:
            rc, o = sh(['cargo', 'test', '--offline', '--workspace', '--no-fail-fast'], wt, env)
            lines = [l for l in o.splitlines() if l.startswith('test result')]
            res['suite_green_with_patch'] = rc == 0
            res['suite'] = lines
            shutil.copy(os.path.join(src, 'demo.rs'), demo_dst)
            rc, o = sh(['cargo', 'test', '--offline', '--test', 'zz_demo'], wt, env)
            res['demo_fails_with_patch'] = rc != 0
            res['demo_patched_tail'] = [l for l in o.splitlines() if 'panicked' in l or 'assert' in l][:3]
            os.remove(demo_dst)
            # checks
            cenv = dict(os.environ, VERIF_REPO=wt, VERIF_EVIDENCE_DIR='/tmp/cf-ev')
            res['checks'] = {}
            for pid in props:
                r = subprocess.run(['/verif/check', pid], env=cenv, stdout=subprocess.PIPE, stderr=subprocess.STDOUT, text=True)
                res['checks'][pid] = {'rc': r.returncode, 'reports': [l.strip()[:300] for l in r.stdout.splitlines() if l.startswith('  [')][:6]}
    finally:
        sh(['git', '-C', '/repo', 'worktree', 'remove', '--force', wt], '/')
        shutil.rmtree(wt, ignore_errors=True)
    print(json.dumps(res, indent=1))
    valid = res.get('demo_clean_passes') and res.get('suite_green_with_patch') and res.get('demo_fails_with_patch')
    if valid and out_id != '-':
        dst = '/verif/seeded/' + out_id
        os.makedirs(dst, exist_ok=True)
        for f in ('patch.diff', 'demo.rs'):
            shutil.copy(os.path.join(src, f), os.path.join(dst, f))
        if os.path.exists(os.path.join(src, 'NOTES.md')):
            shutil.copy(os.path.join(src, 'NOTES.md'), os.path.join(dst, 'NOTES.md'))
        meta = {'property': props[0] if props else None, 'confirmed': {k: res[k] for k in ('demo_clean_passes', 'suite_green_with_patch', 'demo_fails_with_patch')},
                'suite': res.get('suite'), 'ran': ['cargo test --offline --workspace (patched: green)', 'cargo test --offline --test zz_demo (patched: fails; clean: passes)'],
                'checks_at_confirmation': res.get('checks'), 'confirmed_at': time.strftime('%Y-%m-%d %H:%M:%S')}
        json.dump(meta, open(os.path.join(dst, 'meta.json'), 'w'), indent=1)
    print('VALID' if valid else 'INVALID', out_id)

main()
