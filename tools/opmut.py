#!/usr/bin/env python3
"""Developer aid: mutation sweep of the checker.  Small operator / constant mutations are applied one at a time to scratch copies of
/repo (non-test code of the library); every claimed check is run on each.  Classification per mutant:
  caught      some check exits 1 (definite violation)
  undecided   no check exits 1 but some check prints UNDECIDED (the mutation pushed the code out of a recognised shape)
  silent      nothing reported (equivalent mutant, outside every property, or a hole)
  nobuild     the mutated tree does not compile
The `undecided` and `silent` lists are the interesting output: each is either an equivalent mutant or a hole in the rules.
usage: opmut.py [--set 2] [--out NAME.json] [file ...]   (default: the core library files);  writes /verif/seeded/OPMUT.json
--set 2 selects the second operator set (negation removal, boolean literals, + <-> -, deletion of simple call statements)."""
import json, os, re, shutil, subprocess, sys, tempfile
from concurrent.futures import ThreadPoolExecutor
V = os.path.dirname(os.path.dirname(os.path.abspath(__file__)))
claimed = [c['property_id'] for c in json.load(open(os.path.join(V, 'MANIFEST.json')))['checks']]
ARGS = sys.argv[1:]
SET = 1
OUT = 'OPMUT.json'
if '--set' in ARGS:
    i = ARGS.index('--set'); SET = int(ARGS[i + 1]); del ARGS[i:i + 2]
if '--out' in ARGS:
    i = ARGS.index('--out'); OUT = ARGS[i + 1]; del ARGS[i:i + 2]
ONLY = None
if '--only' in ARGS:
    i = ARGS.index('--only'); ONLY = ARGS[i + 1].split(','); del ARGS[i:i + 2]
DEL_ALL = '--del-all' in ARGS
if DEL_ALL:
    ARGS.remove('--del-all')
FILES = ARGS or ['src/raw/node.rs', 'src/raw/mod.rs', 'src/raw/build.rs', 'src/raw/ops.rs', 'src/raw/registry.rs', 'src/bytes.rs',
                         'src/raw/counting_writer.rs', 'src/raw/crc32.rs', 'src/automaton/mod.rs']
SWAPS = [(' == ', ' != '), (' != ', ' == '), (' < ', ' <= '), (' <= ', ' < '), (' > ', ' >= '), (' >= ', ' > '), (' && ', ' || '), (' || ', ' && '),
         (' + 1', ' + 2'), (' - 1', ' - 2'), (' + 1', ''), (' - 1', '')]
if SET == 2:
    SWAPS = [('if !', 'if '), ('while !', 'while '), ('(!', '('), ('true', 'false'), ('false', 'true'), (' + ', ' - '), (' - ', ' + '), ('Some(0)', 'Some(1)'), ('..=', '..'),
             ('.is_none()', '.is_some()'), ('.is_some()', '.is_none()'), (' | ', ' & '), (' & ', ' | '), (' << ', ' >> '), (' >> ', ' << ')]
DELETE = re.compile(r'^\s*(self\.)?[a-z_\.\[\]0-9]+\.(clear|pop|push|truncate|insert|extend|extend_from_slice|flush|swap|promote|refill|reserve|unwrap|write_all)\(.*\)(\.unwrap\(\))?\??;\s*$')


def mutants():
    out = []
    for rel in FILES:
        src = open(os.path.join('/repo', rel)).read()
        mcut = re.search(r'#\[cfg\(test\)\]\s*\n\s*(pub )?mod \w+ \{', src)
        body = src if not mcut else src[:mcut.start()]
        lines = body.split('\n')
        for ln, line in enumerate(lines):
            st = line.strip()
            if st.startswith('//') or st.startswith('#') or 'assert' in st or 'debug_assert' in st:
                continue
            code = line.split('//')[0]
            for a, b in SWAPS:
                start = 0
                while True:
                    i = code.find(a, start)
                    if i < 0:
                        break
                    start = i + len(a)
                    if code[:i].count('"') % 2 == 1:
                        continue
                    out.append({'file': rel, 'line': ln + 1, 'col': i, 'old': a, 'new': b, 'text': st[:100]})
            if DEL_ALL and st.endswith(';') and not st.startswith(('let ', 'use ', 'return', 'pub ', 'type ', 'const ', 'static ', 'mod ', '}')) and st.count('(') == st.count(')') and st.count('{') == st.count('}') \
                    and not DELETE.match(code):
                out.append({'file': rel, 'line': ln + 1, 'col': len(line) - len(line.lstrip()), 'old': line.strip(), 'new': '', 'text': st[:100]})
            if SET == 2 and DELETE.match(code) and '=' not in code.split('(')[0]:
                out.append({'file': rel, 'line': ln + 1, 'col': len(line) - len(line.lstrip()), 'old': line.strip(), 'new': '', 'text': st[:100]})
    return out


def run_one(m):
    tmp = tempfile.mkdtemp(prefix='fstop-')
    dst = os.path.join(tmp, 'repo')
    try:
        shutil.copytree('/repo', dst, ignore=shutil.ignore_patterns('target', '.git', 'data', 'fst-regex', 'fst-levenshtein'))
        p = os.path.join(dst, m['file'])
        lines = open(p).read().split('\n')
        l = lines[m['line'] - 1]
        lines[m['line'] - 1] = l[:m['col']] + m['new'] + l[m['col'] + len(m['old']):]
        open(p, 'w').write('\n'.join(lines))
        env = dict(os.environ, VERIF_REPO=dst, VERIF_EVIDENCE_DIR=os.path.join(tmp, 'ev'))
        caught, und = [], []
        for pid in (ONLY or claimed):
            r = subprocess.run([os.path.join(V, 'check'), pid], env=env, stdout=subprocess.PIPE, stderr=subprocess.STDOUT, text=True)
            if r.returncode == 2:
                return dict(m, result='nobuild')
            if r.returncode == 1:
                caught.append(pid)
            elif 'UNDECIDED' in r.stdout:
                und.append(pid + ':' + ';'.join(sorted({l.split('|')[2].split(' @')[0] for l in r.stdout.splitlines() if l.startswith('UNDECIDED') and l.count('|') >= 2}))[:120])
        return dict(m, result='caught' if caught else ('undecided' if und else 'silent'), by=caught, undecided=und)
    finally:
        shutil.rmtree(tmp, ignore_errors=True)


if __name__ == '__main__':
    ms = mutants()
    print(len(ms), 'mutants')
    with ThreadPoolExecutor(max_workers=6) as ex:
        res = list(ex.map(run_one, ms))
    json.dump(res, open(os.path.join(V, 'seeded', OUT), 'w'), indent=0)
    from collections import Counter
    print(Counter(r['result'] for r in res))
    for r in res:
        if r['result'] in ('undecided', 'silent'):
            print('%-9s %s:%d %r->%r  %s  %s' % (r['result'], r['file'], r['line'], r['old'], r['new'], r['text'][:70], r.get('undecided') or ''))
