#!/usr/bin/env python3
"""False-alarm test: apply behaviour-preserving refactorings (dir of r*.diff) to scratch copies and run every check.
Every alarm printed here is a FALSE alarm to be fixed in the rules."""
import json, os, shutil, subprocess, sys, tempfile, glob
from concurrent.futures import ThreadPoolExecutor
V = os.path.dirname(os.path.dirname(os.path.abspath(__file__)))
claimed = [c['property_id'] for c in json.load(open(os.path.join(V, 'MANIFEST.json')))['checks']]
UND = {}
def run_one(patch):
    tmp = tempfile.mkdtemp(prefix='fstrf-')
    dst = os.path.join(tmp, 'repo')
    out = []
    try:
        shutil.copytree('/repo', dst, ignore=shutil.ignore_patterns('target', '.git', 'data', 'fst-regex', 'fst-levenshtein'))
        r = subprocess.run(['patch', '-p1', '-s', '-i', patch], cwd=dst, stdout=subprocess.PIPE, stderr=subprocess.STDOUT, text=True)
        if r.returncode != 0:
            return patch, ['PATCH FAILED ' + r.stdout[-200:]]
        env = dict(os.environ, VERIF_REPO=dst, VERIF_EVIDENCE_DIR=os.path.join(tmp, 'ev'))
        for pid in claimed:
            r = subprocess.run([os.path.join(V, 'check'), pid], env=env, stdout=subprocess.PIPE, stderr=subprocess.STDOUT, text=True)
            if r.returncode != 0:
                ls = ['%s rc=%d %s' % (pid, r.returncode, l.strip()[:260]) for l in r.stdout.splitlines() if l.startswith('  [') or l.startswith('ERROR')][:6]
                out += ls or ['%s rc=%d CRASH %s' % (pid, r.returncode, r.stdout.strip().splitlines()[-1][:200] if r.stdout.strip() else '')]
            und = [l for l in r.stdout.splitlines() if l.startswith('UNDECIDED')]
            if und:
                UND.setdefault(patch, []).append('%s undecided=%d' % (pid, len(und)))
    finally:
        shutil.rmtree(tmp, ignore_errors=True)
    return patch, out
patches = sorted(os.path.abspath(p) for d in sys.argv[1:] for p in (glob.glob(os.path.join(d, '*.diff')) if os.path.isdir(d) else [d]))
with ThreadPoolExecutor(max_workers=6) as ex:
    for patch, out in ex.map(run_one, patches):
        print('==', patch, ('SILENT' if not out else 'ALARMS %d' % len(out)) + (('  [' + ', '.join(UND[patch]) + ']') if UND.get(patch) else ''))
        for l in out:
            print('    ', l)
