#!/usr/bin/env python3
"""Developer aid, companion of opmut.py: runs the repository's own test suite (cargo test --workspace --offline) on every mutant that
opmut.py classified silent/undecided, to separate "would be caught by the tests anyway" from "survives the tests" (the latter are the
ones a static check is needed for).  Scratch copies under /tmp, removed afterwards.  Updates seeded/OPMUT.json in place ('tests')."""
import json, os, shutil, subprocess, sys, tempfile
from concurrent.futures import ThreadPoolExecutor
V = os.path.dirname(os.path.dirname(os.path.abspath(__file__)))
P = os.path.join(V, 'seeded', ([a for a in sys.argv[1:] if a.endswith('.json')] or ['OPMUT.json'])[0])
res = json.load(open(P))


def run(m):
    tmp = tempfile.mkdtemp(prefix='fstot-')
    dst = os.path.join(tmp, 'repo')
    try:
        shutil.copytree('/repo', dst, ignore=shutil.ignore_patterns('target', '.git'))
        p = os.path.join(dst, m['file'])
        lines = open(p).read().split('\n')
        l = lines[m['line'] - 1]
        lines[m['line'] - 1] = l[:m['col']] + m['new'] + l[m['col'] + len(m['old']):]
        open(p, 'w').write('\n'.join(lines))
        env = dict(os.environ, CARGO_TARGET_DIR=os.path.join(tmp, 'target'), CARGO_NET_OFFLINE='true')
        try:
            r = subprocess.run(['cargo', 'test', '--workspace', '--no-fail-fast', '--offline', '-q'], cwd=dst, env=env, stdout=subprocess.PIPE, stderr=subprocess.STDOUT, text=True, timeout=1500)
            m['tests'] = 'pass' if r.returncode == 0 else 'fail'
        except subprocess.TimeoutExpired:
            m['tests'] = 'timeout'
        return m
    finally:
        shutil.rmtree(tmp, ignore_errors=True)


todo = [m for m in res if m['result'] in ('silent', 'undecided') and ('tests' not in m or '--force' in sys.argv)]
with ThreadPoolExecutor(max_workers=4) as ex:
    list(ex.map(run, todo))
json.dump(res, open(P, 'w'), indent=0)
for m in res:
    if m['result'] in ('silent', 'undecided'):
        print('%-9s tests=%-7s %s:%d %r->%r  %s' % (m['result'], m.get('tests'), m['file'], m['line'], m['old'], m['new'], m['text'][:70]))
