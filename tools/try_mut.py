#!/usr/bin/env python3
"""Developer aid: run checks against a mutated scratch copy of /repo (never touches /repo).
usage: try_mut.py [--patch file.diff | --edit path 'old' 'new' [--edit ...]] [--build-test] -- C07 C11 ...
"""
import os, shutil, subprocess, sys, tempfile

def main():
    args = sys.argv[1:]
    edits, patch, props, bt = [], None, [], False
    i = 0
    while i < len(args):
        if args[i] == '--edit':
            edits.append((args[i+1], args[i+2], args[i+3])); i += 4
        elif args[i] == '--patch':
            patch = args[i+1]; i += 2
        elif args[i] == '--build-test':
            bt = True; i += 1
        elif args[i] == '--':
            props = args[i+1:]; break
        else:
            props.append(args[i]); i += 1
    tmp = tempfile.mkdtemp(prefix='fstmut-')
    dst = os.path.join(tmp, 'repo')
    try:
        shutil.copytree('/repo', dst, ignore=shutil.ignore_patterns('target', '.git', 'data', 'fst-regex', 'fst-levenshtein') if not bt else shutil.ignore_patterns('target', '.git'))
        if patch:
            subprocess.check_call(['patch', '-p1', '-s', '-i', os.path.abspath(patch)], cwd=dst)
        for path, old, new in edits:
            p = os.path.join(dst, path)
            s = open(p).read()
            if s.count(old) < 1:
                print('EDIT ANCHOR NOT FOUND in', path, ':', old); sys.exit(3)
            s = s.replace(old, new, 1)
            open(p, 'w').write(s)
        if bt:
            r = subprocess.run(['cargo', 'test', '--offline', '--workspace'], cwd=dst, stdout=subprocess.PIPE, stderr=subprocess.STDOUT, text=True,
                               env=dict(os.environ, CARGO_TARGET_DIR=os.path.join(tmp, 'tgt')))
            lines = [l for l in r.stdout.splitlines() if l.startswith('test result') or 'FAILED' in l or l.startswith('error')]
            print('TESTS rc=%d' % r.returncode, ' | '.join(lines[:8]))
        env = dict(os.environ, VERIF_REPO=dst, VERIF_EVIDENCE_DIR=os.path.join(tmp, 'ev'))
        rc_all = 0
        for pid in props:
            r = subprocess.run([os.path.join(os.path.dirname(os.path.dirname(os.path.abspath(__file__))), 'check'), pid], env=env, stdout=subprocess.PIPE, stderr=subprocess.STDOUT, text=True)
            out = [l for l in r.stdout.splitlines() if not l.startswith('VIOLATION') and 'conda' not in l]
            print('--- %s rc=%d' % (pid, r.returncode))
            for l in out:
                if l.startswith('  [') or l.startswith('ERROR') or l.startswith('KNOWN') or l.startswith(pid):
                    print(l[:400])
            rc_all = max(rc_all, r.returncode)
        sys.exit(rc_all)
    finally:
        shutil.rmtree(tmp, ignore_errors=True)

main()
