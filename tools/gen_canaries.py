#!/usr/bin/env python3
"""Writes /verif/canaries/Cxx.json: scripted single-instance mutations used by the thorough tier's self-test.
Each canary compiles; its purpose is to show that the rule still fires and names the instance."""
import json, os
V = os.path.dirname(os.path.dirname(os.path.abspath(__file__)))
E = lambda path, old, new: {'path': path, 'old': old, 'new': new}
C = {}
def add(pid, name, rule, edits=None, patch=None):
    C.setdefault(pid, []).append({'name': name, 'expect_rule': rule, **({'edits': edits} if edits else {}), **({'patch': patch} if patch else {})})

# seeded changes double as canaries
for d in sorted(os.listdir(os.path.join(V, 'seeded'))):
    if os.path.exists(os.path.join(V, 'seeded', d, 'patch.diff')):
        pid = d.split('-')[0]
        add(pid, 'seeded:' + d, None, patch='seeded/%s/patch.diff' % d)
for f, pid, rule in (('unfix-6c8947c', 'C07', 'R07.1'), ('unfix-6c8947c', 'C08', 'R07.1'), ('unfix-f67017f', 'C16', 'R16.1'), ('unfix-de84fb2', 'C10', 'R10.4'),
                     ('unfix-4c11eab', 'C19', 'R19.2'), ('unfix-52a0b21', 'C19', 'R19.3'), ('unfix-21e0b3d', 'C06', 'R06.5')):
    add(pid, 'regress:' + f, rule, patch='regress/%s.diff' % f)

add('C20', 'open-guard-15', 'R20.2', [E('src/raw/mod.rs', 'if bytes.len() < 32 {', 'if bytes.len() < 15 {')])
add('C20', 'crc-loop-guard-15', 'R20.3', [E('src/raw/crc32.rs', 'while buf.len() >= 16 {', 'while buf.len() >= 15 {')])
add('C20', 'verify-without-checksum', 'R20.3', [E('src/raw/mod.rs', 'None => return Err(Error::ChecksumMissing.into()),', 'None => 0,')])
add('C07', 'count-whole-buffer', 'R07.1', [E('src/raw/counting_writer.rs', 'self.cnt += n as u64;', 'self.cnt += buf.len() as u64;')])
add('C07', 'short-write-in-encoder', 'R07.2', [E('src/raw/node.rs', "        wtr.write_all(&[state.0])?;\n        Ok(())\n    }\n\n    #[inline]\n    fn new() -> StateOneTransNext {", "        wtr.write(&[state.0])?;\n        Ok(())\n    }\n\n    #[inline]\n    fn new() -> StateOneTransNext {")])
add('C07', 'counter-starts-at-1', 'R07.5', [E('src/raw/counting_writer.rs', 'CountingWriter { wtr, cnt: 0, summer: CheckSummer::new() }', 'CountingWriter { wtr, cnt: 1, summer: CheckSummer::new() }')])
add('C07', 'fresh-counting-writer-after-header', 'R07.5', [E('src/raw/build.rs', "        Ok(Builder {\n            wtr,", "        let wtr = CountingWriter::new(wtr.into_inner());\n        Ok(Builder {\n            wtr,")])
add('C11', 'flush-result-dropped', 'R11.1', [E('src/raw/build.rs', "        wtr.flush()?;\n        Ok(wtr)", "        let _ = wtr.flush();\n        Ok(wtr)")])
add('C11', 'no-flush', 'R11.3', [E('src/raw/build.rs', "        wtr.flush()?;\n        Ok(wtr)", "        Ok(wtr)")])
add('C11', 'write-error-swallowed', 'R11.1', [E('src/raw/node.rs', "        for t in node.trans.iter().rev() {\n            wtr.write_all(&[t.inp])?;\n        }", "        for t in node.trans.iter().rev() {\n            wtr.write_all(&[t.inp]).ok();\n        }")])
add('C11', 'unwrap-on-header-write', 'R11.2', [E('src/raw/build.rs', '        bytes::io_write_u64_le(ty, &mut wtr)?;', '        bytes::io_write_u64_le(ty, &mut wtr).unwrap();')])
add('C11', 'finish-swallows-io-error', 'R11.1', [E('src/raw/build.rs', "    pub fn finish(self) -> Result<()> {\n        self.into_inner()?;\n        Ok(())", "    pub fn finish(self) -> Result<()> {\n        match self.into_inner() { Ok(_) => Ok(()), Err(crate::Error::Io(_)) => Ok(()), Err(e) => Err(e) }")])
add('C06', 'set-rejects-repeat', 'R06.1', [E('src/raw/build.rs', '            if bs < &**last {', '            if bs <= &**last {')])
add('C06', 'mutate-before-reject', 'R06.3', [E('src/raw/build.rs', "        if let Some(ref mut last) = self.last {\n            if check_dupe && bs == &**last {", "        if let Some(ref mut last) = self.last {\n            if check_dupe && bs == &**last {\n                last.clear();")])
add('C06', 'payloads-swapped', 'R06.2', [E('src/raw/build.rs', "                    previous: last.to_vec(),\n                    got: bs.to_vec(),", "                    previous: bs.to_vec(),\n                    got: last.to_vec(),")])
add('C06', 'add-checks-duplicates', 'R06.5', [E('src/raw/build.rs', '        self.check_last_key(bs.as_ref(), false)?;', '        self.check_last_key(bs.as_ref(), true)?;')])
add('C10', 'version-gate-off-by-one', 'R10.1', [E('src/raw/mod.rs', 'if version == 0 || version > VERSION {', 'if version == 0 || version > VERSION + 1 {')])
add('C10', 'footer-layout-version', 'R10.2', [E('src/raw/mod.rs', '        let (end, checksum) = if version <= 2 {', '        let (end, checksum) = if version <= 1 {')])
add('C10', 'checksum-missing-is-ok', 'R10.5', [E('src/raw/mod.rs', 'None => return Err(Error::ChecksumMissing.into()),', 'None => return Ok(()),')])
add('C05', 'intersection-drops-slot', 'R05.1', [E('src/raw/ops.rs', "            if popped < self.heap.num_slots() {\n                self.heap.refill(slot);\n            } else {", "            if popped < self.heap.num_slots() {\n            } else {")])
add('C05', 'difference-drains-equal-only', 'R05.3', [E('src/raw/ops.rs', 'while let Some(slot) = self.heap.pop_if_le(&self.key) {', 'while let Some(slot) = self.heap.pop_if_equal(&self.key) {')])
add('C05', 'superset-counts-intersection', 'R05.5', [E('src/raw/mod.rs', '        let mut op = self.op().add(stream).union();', '        let mut op = self.op().add(stream).intersection();')])
add('C05', 'symdiff-even', 'R05.2', [E('src/raw/ops.rs', '            if popped % 2 == 0 {', '            if popped % 2 == 1 {')])
add('C08', 'lanes-3-4-swapped', 'R08.3', [E('src/raw/crc32.rs', "            ^ TABLE16[3][buf[12] as usize]\n            ^ TABLE16[4][buf[11] as usize]", "            ^ TABLE16[4][buf[12] as usize]\n            ^ TABLE16[3][buf[11] as usize]")])
add('C08', 'mask-rot16', 'R08.2', [E('src/raw/crc32.rs', 'sum.wrapping_shr(15) | sum.wrapping_shl(17)', 'sum.wrapping_shr(16) | sum.wrapping_shl(16)')])
add('C09', 'pack-size-boundary', 'R09.4', patch='seeded/C01-m1/patch.diff')
add('C09', 'index-default-0', 'R09.5', patch='seeded/C02-m2/patch.diff')
add('C02', 'input-offset', 'R01.1', [E('src/raw/node.rs', "                 - self.trans_index_size(node.version, node.ntrans)\n                 - i\n                 - 1; // the input byte", "                 - self.trans_index_size(node.version, node.ntrans)\n                 - i; // the input byte")])
add('C02', 'scan-position-not-mirrored', 'R02.2', [E('src/raw/node.rs', 'inputs.iter().position(|&b2| b == b2).map(|i| node.ntrans - i - 1)', 'inputs.iter().position(|&b2| b == b2)')])
add('C02', 'index-absent-by-match-255', 'R02.2', [E('src/raw/node.rs', "            let i = node.data[start + b as usize] as usize;\n            if i >= node.ntrans {\n                None\n            } else {\n                Some(i)\n            }", "            match node.data[start + b as usize] {\n                255 => None,\n                i => Some(i as usize),\n            }")])
add('C02', 'contains-ignores-finality', 'R02.1', [E('src/raw/mod.rs', "                Some(i) => self.node(node.transition_addr(i)),\n            }\n        }\n        node.is_final()", "                Some(i) => self.node(node.transition_addr(i)),\n            }\n        }\n        true")])
add('C12', 'mru-swap-forgotten', 'R12.5', [E('src/raw/registry.rs', "            self.cells[1].node.clone_from(node);\n            self.cells.swap(0, 1);", "            self.cells[1].node.clone_from(node);")])
add('C12', 'address-never-recorded', 'R12.1', [E('src/raw/build.rs', "        if let RegistryEntry::NotFound(cell) = entry {\n            cell.insert(self.last_addr);\n        }", "")])
add('C12', 'zero-rows', 'R12.3', [E('src/raw/build.rs', 'registry: Registry::new(10_000, 2),', 'registry: Registry::new(0, 2),')])
add('C13', 'unbounded-registry', 'R13.1', [E('src/raw/build.rs', 'use crate::raw::registry::{Registry, RegistryEntry};', 'use crate::raw::registry_minimal::{Registry, RegistryEntry};')])
add('C14', 'get-copies-key', 'R14.1', [E('src/raw/mod.rs', "        let mut node = self.root();\n        let mut out = Output::zero();\n        for &b in key {\n            node = match node.find_input(b) {\n                None => return None,", "        let key = key.to_vec();\n        let mut node = self.root();\n        let mut out = Output::zero();\n        for &b in &key {\n            node = match node.find_input(b) {\n                None => return None,")])
add('C18', 'complement-can-match-from-can-match', 'R18.1', [E('src/automaton/mod.rs', "        !self.0.will_always_match(&state.0)\n    }", "        !self.0.can_match(&state.0)\n    }")])
add('C18', 'ref-impl-wrong-method', 'R18.3', [E('src/automaton/mod.rs', "    fn can_match(&self, state: &T::State) -> bool {\n        (*self).can_match(state)", "    fn can_match(&self, state: &T::State) -> bool {\n        (*self).is_match(state)")])
add('C01', 'count-on-duplicate-path', 'R01.2', [E('src/raw/build.rs', "            assert!(out.is_zero());\n            return Ok(());\n        }\n        self.len += 1;", "            assert!(out.is_zero());\n            self.len += 1;\n            return Ok(());\n        }\n        self.len += 1;")])
# keep the thorough tier's running time bounded: at most 8 seeded changes per property (evenly spread over the waves), all hand-written ones
for pid, lst in C.items():
    sd = [c for c in lst if c['name'].startswith('seeded:')]
    if len(sd) > 8:
        keep = {sd[round(i * (len(sd) - 1) / 7)]['name'] for i in range(8)}
        C[pid] = [c for c in lst if not c['name'].startswith('seeded:') or c['name'] in keep]
for pid, lst in C.items():
    json.dump(lst, open(os.path.join(V, 'canaries', pid + '.json'), 'w'), indent=1)
print({k: len(v) for k, v in sorted(C.items())})
