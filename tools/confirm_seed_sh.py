#!/usr/bin/env python3
"""Like confirm_seed.py for seeds whose demonstration is demo.sh <path-to-fst-binary> (fst-bin CLI)."""
import json, os, shutil, subprocess, sys, time
def sh(cmd, cwd, env=None):
    r = subprocess.run(cmd, cwd=cwd, env=env, stdout=subprocess.PIPE, stderr=subprocess.STDOUT, text=True)
    return r.returncode, r.stdout
src, out_id, props = sys.argv[1], sys.argv[2], sys.argv[3:]
wt = '/tmp/cf-%d' % os.getpid(); tgt = '/tmp/cf-target'
env = dict(os.environ, CARGO_TARGET_DIR=tgt, CARGO_NET_OFFLINE='true')
sh(['git', '-C', '/repo', 'worktree', 'add', '--detach', wt, 'HEAD', '-q'], '/')
res = {}
try:
    shutil.copy('/repo/Cargo.lock', wt + '/Cargo.lock')
    rc, o = sh(['cargo', 'build', '--offline', '-p', 'fst-bin'], wt, env)
    rc, o = sh(['bash', os.path.join(src, 'demo.sh'), (wt if 'cargo build' in open(os.path.join(src, 'demo.sh')).read() else tgt + '/debug/fst')], wt, env)
    res['demo_clean_passes'] = rc == 0
    rc, o = sh(['git', 'apply', os.path.abspath(os.path.join(src, 'patch.diff'))], wt)
    res['applies'] = rc == 0
    rc, o = sh(['cargo', 'test', '--offline', '--workspace', '--no-fail-fast'], wt, env)
    res['suite_green_with_patch'] = rc == 0
    res['suite'] = [l for l in o.splitlines() if l.startswith('test result')]
    rc, o = sh(['cargo', 'build', '--offline', '-p', 'fst-bin'], wt, env)
    rc, o = sh(['bash', os.path.join(src, 'demo.sh'), (wt if 'cargo build' in open(os.path.join(src, 'demo.sh')).read() else tgt + '/debug/fst')], wt, env)
    res['demo_fails_with_patch'] = rc != 0
    res['demo_tail'] = o.splitlines()[-3:]
    cenv = dict(os.environ, VERIF_REPO=wt, VERIF_EVIDENCE_DIR='/tmp/cf-ev')
    res['checks'] = {}
    for pid in props:
        r = subprocess.run(['/verif/check', pid], env=cenv, stdout=subprocess.PIPE, stderr=subprocess.STDOUT, text=True)
        res['checks'][pid] = {'rc': r.returncode, 'reports': [l.strip()[:300] for l in r.stdout.splitlines() if l.startswith('  [')][:6]}
finally:
    sh(['git', '-C', '/repo', 'worktree', 'remove', '--force', wt], '/')
    shutil.rmtree(wt, ignore_errors=True)
print(json.dumps(res, indent=1))
valid = res.get('demo_clean_passes') and res.get('suite_green_with_patch') and res.get('demo_fails_with_patch')
if valid:
    dst = '/verif/seeded/' + out_id
    os.makedirs(dst, exist_ok=True)
    for f in ('patch.diff', 'demo.sh', 'NOTES.md'):
        if os.path.exists(os.path.join(src, f)):
            shutil.copy(os.path.join(src, f), os.path.join(dst, f))
    json.dump({'property': props[0] if props else None, 'confirmed': {k: res[k] for k in ('demo_clean_passes', 'suite_green_with_patch', 'demo_fails_with_patch')}, 'suite': res.get('suite'),
               'ran': ['cargo test --offline --workspace (patched: green)', 'cargo build -p fst-bin; bash demo.sh target/debug/fst (patched: non-zero; clean: 0)'],
               'checks_at_confirmation': res.get('checks'), 'confirmed_at': time.strftime('%Y-%m-%d %H:%M:%S')}, open(os.path.join(dst, 'meta.json'), 'w'), indent=1)
print('VALID' if valid else 'INVALID', out_id)
