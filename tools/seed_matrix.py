#!/usr/bin/env python3
"""Run every claimed check against every seeded change (and the unfix patches) on scratch copies of /repo.
Writes /verif/seeded/MATRIX.json and prints a markdown table.  Never touches /repo."""
import json, os, shutil, subprocess, sys, tempfile
from concurrent.futures import ThreadPoolExecutor
V = os.path.dirname(os.path.dirname(os.path.abspath(__file__)))
claimed = [c['property_id'] for c in json.load(open(os.path.join(V, 'MANIFEST.json')))['checks']]

def run_one(item):
    name, patch = item
    tmp = tempfile.mkdtemp(prefix='fstmx-')
    dst = os.path.join(tmp, 'repo')
    res = {}
    try:
        shutil.copytree('/repo', dst, ignore=shutil.ignore_patterns('target', '.git', 'data', 'fst-regex', 'fst-levenshtein'))
        r = subprocess.run(['patch', '-p1', '-s', '-i', patch], cwd=dst, stdout=subprocess.PIPE, stderr=subprocess.STDOUT, text=True)
        if r.returncode != 0:
            return name, {'error': 'patch does not apply: ' + r.stdout[-200:]}
        env = dict(os.environ, VERIF_REPO=dst, VERIF_EVIDENCE_DIR=os.path.join(tmp, 'ev'))
        for pid in claimed:
            r = subprocess.run([os.path.join(V, 'check'), pid], env=env, stdout=subprocess.PIPE, stderr=subprocess.STDOUT, text=True)
            rules = sorted({l.split()[1] for l in r.stdout.splitlines() if l.startswith('  [')})
            kinds = sorted({l.split()[0].strip('[]') + ':' + l.split()[1] for l in r.stdout.splitlines() if l.startswith('  [')})
            res[pid] = {'rc': (r.returncode if (r.returncode != 1 or rules) else 3), 'rules': rules, 'kinds': kinds}
    finally:
        shutil.rmtree(tmp, ignore_errors=True)
    return name, res

items = []
for d in sorted(os.listdir(os.path.join(V, 'seeded'))):
    p = os.path.join(V, 'seeded', d, 'patch.diff')
    if os.path.exists(p):
        items.append((d, p))
for f in sorted(os.listdir(os.path.join(V, 'regress'))):
    items.append(('regress/' + f[:-5], os.path.join(V, 'regress', f)))
if len(sys.argv) > 1:
    items = [i for i in items if any(a in i[0] for a in sys.argv[1:])]
with ThreadPoolExecutor(max_workers=6) as ex:
    out = dict(ex.map(run_one, items))
mp = os.path.join(V, 'seeded', 'MATRIX.json')
old = json.load(open(mp)) if os.path.exists(mp) else {}
old.update(out)
json.dump(old, open(mp, 'w'), indent=1, sort_keys=True)
print('| change | own property | caught by (property: rules) |')
print('|---|---|---|')
for name in sorted(out):
    r = out[name]
    if 'error' in r:
        print('| %s | - | %s |' % (name, r['error'])); continue
    own = name.split('-')[0] if not name.startswith('regress') else '-'
    hits = ['%s: %s' % (p, ','.join(v['rules'])) for p, v in sorted(r.items()) if v['rc'] == 1]
    errs = [p for p, v in r.items() if v['rc'] not in (0, 1)]
    definite = own in r and any(k.startswith('violation:') for k in r[own].get('kinds', []))
    print('| %s | %s | %s%s |' % (name, (('caught' + ('' if definite else ' (undecided/anchor only)')) if own in r and r[own]['rc'] == 1 else ('MISSED' if own in r else '-')), '; '.join(hits) or 'nothing', (' ERR:' + ','.join(errs)) if errs else ''))
