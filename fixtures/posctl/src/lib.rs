//! Positive controls: one deliberate instance of every construct a zero-expected rule forbids.
//! Analysed by the same driver on every run; each rule must fire here, otherwise the check fails closed.
#![allow(dead_code, unused)]
use std::collections::hash_map::RandomState;
use std::collections::HashMap;
use std::hash::BuildHasher;
use std::io::{self, Write};

pub struct Holder {
    map: HashMap<Vec<u8>, u64>,
    log: Vec<Vec<u8>>,
    w: Vec<u8>,
}

// R20.1: unsafe block, unsafe fn, unsafe impl
pub fn ctl_unsafe_block(v: &[u8]) -> u8 {
    unsafe { *v.get_unchecked(0) }
}
pub unsafe fn ctl_unsafe_fn() {}
pub struct Raw(*const u8);
unsafe impl Send for Raw {}

// R11.1: a dropped io::Result; R11.2: unwrap on one; turned into success
pub fn ctl_drop_result<W: Write>(w: &mut W) {
    let _ = w.flush();
}
pub fn ctl_unwrap_result<W: Write>(w: &mut W) {
    w.write_all(b"x").unwrap();
}
pub fn ctl_ok_result<W: Write>(w: &mut W) -> io::Result<()> {
    w.write_all(b"x").ok();
    Ok(())
}
pub fn ctl_match_swallow<W: Write>(w: &mut W) -> io::Result<()> {
    match w.write_all(b"x") {
        Ok(()) => Ok(()),
        Err(_) => Ok(()),
    }
}

// R07.2: plain `write` on a generic writer (may be short)
/// a buffering adapter around the sink that is never flushed: its Drop writes the pending bytes and discards the error
pub fn ctl_bufwriter_drop<W: Write>(w: &mut W) -> io::Result<()> {
    let mut b = io::BufWriter::with_capacity(64, w);
    b.write_all(b"abc")
}
pub fn ctl_plain_write<W: Write>(w: &mut W) -> io::Result<()> {
    w.write(b"abc")?;
    Ok(())
}

// R15.2: nondeterminism sources
pub fn ctl_random_state() -> u64 {
    RandomState::new().hash_one(0u8)
}
pub fn ctl_hash_iter(h: &Holder) -> u64 {
    let mut s = 0;
    for (_, v) in h.map.iter() {
        s += *v;
    }
    s
}
pub fn ctl_time() -> std::time::Instant {
    std::time::Instant::now()
}
pub fn ctl_ptr_cast(x: &u8) -> usize {
    x as *const u8 as usize
}
pub static mut CTL_STATIC_MUT: u64 = 0;
pub static CTL_ATOMIC: std::sync::atomic::AtomicUsize = std::sync::atomic::AtomicUsize::new(0);

// R13.1 / R14.2: growth of a long-lived container per call
impl Holder {
    pub fn ctl_grow_map(&mut self, k: &[u8]) {
        self.map.insert(k.to_vec(), 1);
    }
    pub fn ctl_grow_log(&mut self, k: &[u8]) {
        self.log.push(k.to_vec());
    }
    // R14.1: allocation under a lookup
    pub fn ctl_alloc_lookup(&self, k: &[u8]) -> Option<u64> {
        let owned = k.to_vec();
        self.map.get(&owned).cloned()
    }
}

// R20.2 control: a read guarded by too small a length check
pub fn ctl_short_read(bytes: &[u8]) -> Option<u64> {
    if bytes.len() < 4 {
        return None;
    }
    let mut a = [0u8; 8];
    a.copy_from_slice(&bytes[..8]);
    Some(u64::from_le_bytes(a))
}
