"""Independent bitwise generator of the CRC-32C (Castagnoli, reflected 0x82F63B78) tables - oracle for constants."""
POLY = 0x82F63B78


def table():
    t = []
    for i in range(256):
        c = i
        for _ in range(8):
            c = (c >> 1) ^ POLY if c & 1 else c >> 1
        t.append(c)
    return t


def table16():
    t0 = table()
    ts = [t0]
    for k in range(1, 16):
        prev = ts[-1]
        ts.append([(prev[i] >> 8) ^ t0[prev[i] & 0xFF] for i in range(256)])
    return ts


def crc32c(data, prev=0):
    c = prev ^ 0xFFFFFFFF
    t = table()
    for b in data:
        c = t[(c ^ b) & 0xFF] ^ (c >> 8)
    return c ^ 0xFFFFFFFF


def mask(c):
    return (((c >> 15) | (c << 17)) + 0xA282EAD8) & 0xFFFFFFFF


if __name__ == '__main__':
    assert crc32c(b'123456789') == 0xE3069283
    print('ok', hex(table()[1]))
