"""Private field names are not part of any property.  The rules were written against the field names of the pinned tree; this pass
aligns the structs of the analysed tree with a reference inventory (spec/adt_fields.json: struct -> [(field, type)]) and rewrites
the facts so that a struct whose fields were merely RENAMED presents the reference names to the rules.

Alignment per struct: names present on both sides stay; a reference field that disappeared is matched with a new field of the same
type - uniquely, or k-th with k-th when several fields of one type were renamed at once (declaration order is kept by a rename).
Fields that cannot be matched keep their names, so a rule depending on them still fails closed.  The applied aliases are reported
in the evidence."""
import json, os, re

REF = os.path.join(os.path.dirname(os.path.dirname(os.path.dirname(os.path.abspath(__file__)))), 'spec', 'adt_fields.json')


def _norm_ty(t):
    return re.sub(r"'[a-z_]\w*(/#\d+)?", "'_", t)


def inventory(data):
    out = {}
    for a in data.get('adts', []):
        if len(a['variants']) == 1 and a['variants'][0]['fields'] and not a['variants'][0]['fields'][0]['name'].isdigit():
            out[a['path']] = [[f['name'], _norm_ty(f['ty'])] for f in a['variants'][0]['fields']]
    return out


def align(ref, act):
    """ref, act: [[name, ty]] -> {actual name: reference name}"""
    rn = [n for n, _ in ref]
    an = [n for n, _ in act]
    missing = [(n, t) for n, t in ref if n not in an]
    fresh = [(n, t) for n, t in act if n not in rn]
    m = {}
    tys = []
    for _, t in missing:
        if t not in tys:
            tys.append(t)
    for t in tys:
        r = [n for n, tt in missing if tt == t]
        a = [n for n, tt in fresh if tt == t]
        if len(r) == len(a):
            for x, y in zip(a, r):
                m[x] = y
    return m


def apply(data, role):
    """rewrite the facts of one crate in place; returns {struct: {actual: reference}}"""
    try:
        ref = json.load(open(REF)).get(role, {})
    except (OSError, ValueError):
        return {}
    inv = inventory(data)
    alias = {}
    for adt, rf in ref.items():
        if adt in inv:
            m = align(rf, inv[adt])
            if m:
                alias[adt] = m
    if not alias:
        return {}
    for a in data.get('adts', []):
        m = alias.get(a['path'])
        if m:
            for f in a['variants'][0]['fields']:
                if f['name'] in m:
                    f['name'] = m[f['name']]

    def walk(x):
        if isinstance(x, dict):
            if 'field' in x and 'of' in x and 'name' in x:
                m = alias.get(x['of'])
                if m and x['name'] in m:
                    x['name'] = m[x['name']]
            ag = x.get('agg')
            if isinstance(ag, dict) and ag.get('adt') in alias and isinstance(ag.get('fields'), list):
                m = alias[ag['adt']]
                ag['fields'] = [m.get(n, n) for n in ag['fields']]
            for v in x.values():
                walk(v)
        elif isinstance(x, list):
            for v in x:
                walk(v)
    walk(data.get('fns', []))
    return alias


if __name__ == '__main__':
    # developer tool: regenerate the reference inventory from the facts of the pinned tree
    import sys, glob
    sys.path.insert(0, os.path.dirname(os.path.abspath(__file__)))
    import dump
    d = dump.facts_dir('/repo', 'ws')[0]
    out = {}
    for f in sorted(glob.glob(os.path.join(d, '*.json'))):
        b = os.path.basename(f)
        role = 'lib' if b.startswith('fst-Rlib') else 'bin' if b.startswith('fst-Executable') else None
        if role:
            out[role] = inventory(json.load(open(f)))
    json.dump(out, open(REF, 'w'), indent=1, sort_keys=True)
    print('wrote', REF, {k: len(v) for k, v in out.items()})
