"""Private field names are not part of any property.  The rules were written against the field names of the pinned tree; this pass
aligns the structs of the analysed tree with a reference inventory (spec/adt_fields.json: struct -> [(field, type)]) and rewrites
the facts so that a struct whose fields were merely RENAMED presents the reference names to the rules.

Alignment per struct: names present on both sides stay; a reference field that disappeared is matched with a new field of the same
type - uniquely, or k-th with k-th when several fields of one type were renamed at once (declaration order is kept by a rename).
Fields that cannot be matched keep their names, so a rule depending on them still fails closed.  The applied aliases are reported
in the evidence."""
import json, os, re

REF = os.path.join(os.path.dirname(os.path.dirname(os.path.dirname(os.path.abspath(__file__)))), 'spec', 'adt_fields.json')


def _norm_ty(t):
    # compiler-internal ids (DefId numbers, crate disambiguators, the module a type alias lives in) are not part of a type's shape
    t = re.sub(r"DefId\(\d+:\d+ ~ [^)]*?(\w+|'\w+)\)", lambda m: 'DefId(' + m.group(1) + ')', t)
    return re.sub(r"'[a-z_]\w*(/#\d+)?", "'_", t)


def inventory(data):
    out = {}
    for a in data.get('adts', []):
        if len(a['variants']) == 1 and a['variants'][0]['fields']:
            out[a['path']] = [[f['name'], _norm_ty(f['ty'])] for f in a['variants'][0]['fields']]
    return out


def align(ref, act):
    """ref, act: [[name, ty]] -> {actual name: reference name}"""
    rn = [n for n, _ in ref]
    an = [n for n, _ in act]
    missing = [(n, t) for n, t in ref if n not in an]
    fresh = [(n, t) for n, t in act if n not in rn]
    m = {}
    tys = []
    for _, t in missing:
        if t not in tys:
            tys.append(t)
    for t in tys:
        r = [n for n, tt in missing if tt == t]
        a = [n for n, tt in fresh if tt == t]
        if len(r) == len(a):
            for x, y in zip(a, r):
                m[x] = y
    return m


FREF = os.path.join(os.path.dirname(REF), 'fn_sigs.json')
TREF = os.path.join(os.path.dirname(REF), 'adt_shapes.json')


def _self(t, own):
    return re.sub(r'(?<![\w])' + re.escape(own) + r'(?![\w])', 'Self', t)


def adt_shapes(data):
    """{adt path: shape} where shape = variants with field names and types, the type's own path written Self"""
    out = {}
    for a in data.get('adts', []):
        p = a['path']
        if '::_::' in p or '{' in p:
            continue
        out[p] = [[v['name'], [[f['name'], _self(_norm_ty(f['ty']), p)] for f in v['fields']]] for v in a['variants']]
    return out


def _subst_types(shape, m):
    """rewrite type strings of a shape with the aliases found so far (nested references to renamed types then compare equal)"""
    if not m:
        return shape
    def ren(t):
        for a, r in sorted(m.items(), key=lambda x: -len(x[0])):
            t = re.sub(r'(?<![\w])' + re.escape(a) + r'(?![\w])', r, t)
        return t
    return [[vn, [[fn_, ren(ft)] for fn_, ft in fields]] for vn, fields in shape]


def align_types(ref, act):
    """{actual path: reference path} for private types that were renamed and/or moved; matched by shape in tiers of decreasing
    strictness, iterated so that types mentioning other renamed types line up too"""
    m = {}

    def keys(path, shape, own):
        mod = path.rsplit('::', 1)[0]
        nm = path.rsplit('::', 1)[-1]
        sh = [[vn, [[f, _self(t, own)] for f, t in fs]] for vn, fs in shape]
        struct = len(sh) == 1
        named = sh[0][1] if struct else sh
        types_only = sorted(t for vn, fs in sh for f, t in fs) if struct else [[t for f, t in fs] for vn, fs in sh]
        return [
            json.dumps(['t1', mod, struct, named]),                 # same module, same field names and types
            json.dumps(['t2', nm, struct, named]),                  # same name anywhere, same fields
            json.dumps(['t3', mod, struct, types_only]),            # same module, same field TYPES (names / order free)
            json.dumps(['t4', struct, types_only]),                 # anywhere, same field types
        ]
    for rnd in range(4):
        before = len(m)
        for tier in range(4):
            missing = {p: sh for p, sh in ref.items() if p not in act and p not in m.values()}
            fresh = {p: sh for p, sh in act.items() if p not in ref and p not in m}
            groups = {}
            for p, sh in missing.items():
                groups.setdefault(keys(p, sh, p)[tier], [[], []])[0].append(p)
            for p, sh in fresh.items():
                sh2 = _subst_types(sh, m)
                groups.setdefault(keys(p, sh2, p)[tier], [[], []])[1].append(p)
            for k, (rs, as_) in groups.items():
                if len(rs) == 1 and len(as_) == 1 and (tier < 3 or len(json.loads(k)[2]) >= 2):
                    m[as_[0]] = rs[0]
        if len(m) == before:
            break
    return m


def apply_type_aliases(data, role):
    try:
        ref = json.load(open(TREF)).get(role, {})
    except (OSError, ValueError):
        return {}
    m = align_types(ref, adt_shapes(data))
    if not m:
        return {}
    pats = [(re.compile(r'(?<![\w])' + re.escape(a) + r'(?![\w])'), r) for a, r in sorted(m.items(), key=lambda x: -len(x[0]))]
    names = {a.rsplit('::', 1)[1]: r.rsplit('::', 1)[1] for a, r in m.items()}

    # enum variants renamed along with their type: positional alignment of the variant lists
    act_sh = adt_shapes(data)
    vmap = {}
    for a, r in m.items():
        va, vr = act_sh.get(a), ref.get(r)
        if va and vr and len(va) == len(vr) and len(va) > 1:
            for (na, _), (nr, _) in zip(va, vr):
                if na != nr:
                    vmap[(r, na)] = nr
    vnames = {}
    for (r, na), nr in vmap.items():
        vnames.setdefault(na, set()).add(nr)

    def ren(sv):
        for pat, r in pats:
            if pat.pattern and pat.search(sv):
                sv = pat.sub(r, sv)
        return sv

    def walk(x):
        if isinstance(x, dict):
            for k, v in list(x.items()):
                if isinstance(v, str):
                    nv = ren(v)
                    # the single variant of a struct carries the struct's own name
                    if k in ('variant', 'name') and v in names and ('adt' in x or 'fields' in x):
                        nv = names[v]
                    x[k] = nv
                else:
                    walk(v)
        elif isinstance(x, list):
            for i, v in enumerate(x):
                if isinstance(v, str):
                    x[i] = ren(v)
                else:
                    walk(v)
    for k in ('fns', 'adts', 'impls', 'statics', 'consts', 'unsafe'):
        walk(data.get(k, []))
    if vmap:
        def vwalk(x):
            if isinstance(x, dict):
                ad = x.get('adt')
                if isinstance(ad, str) and isinstance(x.get('variant'), str) and (ad, x['variant']) in vmap:
                    x['variant'] = vmap[(ad, x['variant'])]
                if isinstance(x.get('proj'), list):
                    pr = x['proj']
                    for i, e in enumerate(pr):
                        if isinstance(e, dict) and 'downcast' in e:
                            of = pr[i + 1].get('of') if i + 1 < len(pr) and isinstance(pr[i + 1], dict) else None
                            if of is not None and (of, e['downcast']) in vmap:
                                e['downcast'] = vmap[(of, e['downcast'])]
                            elif of is None and e['downcast'] in vnames and len(vnames[e['downcast']]) == 1:
                                e['downcast'] = next(iter(vnames[e['downcast']]))
                if x.get('path') in {r for (r, _) in vmap} and isinstance(x.get('variants'), list):
                    for v in x['variants']:
                        if (x['path'], v.get('name')) in vmap:
                            v['name'] = vmap[(x['path'], v['name'])]
                for v in x.values():
                    vwalk(v)
            elif isinstance(x, list):
                for v in x:
                    vwalk(v)
        for k in ('fns', 'adts'):
            vwalk(data.get(k, []))
    return m



def fn_inventory(data):
    """[{path, parent, sig, line}] of the user-written functions and methods of a crate (closures and expansions excluded)"""
    out = []
    for f in data.get('fns', []):
        if f.get('def_kind') not in ('Fn', 'AssocFn') or f.get('from_expansion') or '{closure' in f['path']:
            continue
        n = f.get('arg_count', 0)
        tys = [_norm_ty(l['ty']) for l in f['locals'][:n + 1]]
        sp = f.get('span') or ''
        try:
            line = int(sp.rsplit(':', 1)[1])
        except (IndexError, ValueError):
            line = 0
        imp = f.get('impl') or {}
        parent = f['path'].rsplit('::', 1)[0]
        out.append({'path': f['path'], 'parent': parent, 'trait': imp.get('trait_path'), 'sig': [tys[1:], tys[0] if tys else ''], 'line': line,
                    'file': sp.rsplit(':', 1)[0]})
    return out


def align_fns(ref, act):
    """{actual path: reference path} for functions that were merely renamed (or moved within their module)"""
    rp = {r['path'] for r in ref}
    ap = {a['path'] for a in act}
    missing = [r for r in ref if r['path'] not in ap and not r.get('trait')]
    fresh = [a for a in act if a['path'] not in rp and not a.get('trait')]
    m = {}

    def tier(keyf, unique_only):
        groups = {}
        for r in missing:
            if r['path'] in m.values():
                continue
            groups.setdefault(json.dumps(keyf(r)), [[], []])[0].append(r)
        for a in fresh:
            if a['path'] in m:
                continue
            groups.setdefault(json.dumps(keyf(a)), [[], []])[1].append(a)
        for k, (rs, as_) in groups.items():
            if not rs or len(rs) != len(as_) or (unique_only and len(rs) != 1):
                continue
            rs.sort(key=lambda x: x['line'])
            as_.sort(key=lambda x: x['line'])
            for r, a in zip(rs, as_):
                m[a['path']] = r['path']
    tier(lambda x: (x['parent'], x['sig']), False)          # renamed in place
    tier(lambda x: (x['file'], x['sig']), True)             # moved between impl blocks / to a free function of the same file
    tier(lambda x: (x['path'].rsplit('::', 1)[-1], x['sig']), True)   # moved to another module / file under the same name
    # methods of LOCAL traits (`<KvBatch as Batchable>::create_fst`): trait and method may both have been renamed
    def local_trait(x):
        t = x.get('trait') or ''
        return t and not t.startswith(('std::', 'core::', 'alloc::'))
    tm = [r for r in ref if r['path'] not in ap and local_trait(r)]
    tf = [a for a in act if a['path'] not in rp and local_trait(a)]

    def self_ty(x):
        q = x['path']
        return q[1:q.index(' as ')] if q.startswith('<') and ' as ' in q else q
    groups = {}
    for r in tm:
        groups.setdefault(json.dumps([self_ty(r), r['sig']]), [[], []])[0].append(r)
    for a in tf:
        groups.setdefault(json.dumps([self_ty(a), a['sig']]), [[], []])[1].append(a)
    for k, (rs, as_) in groups.items():
        if len(rs) == 1 and len(as_) == 1:
            m[as_[0]['path']] = rs[0]['path']
            # the declaration `Trait::method` that call sites name before resolution
            ta, tr = as_[0]['trait'], rs[0]['trait']
            ma, mr = as_[0]['path'].rsplit('::', 1)[1], rs[0]['path'].rsplit('::', 1)[1]
            m[ta + '::' + ma] = tr + '::' + mr
    return m


def apply_fn_aliases(data, role):
    try:
        ref = json.load(open(FREF)).get(role, [])
    except (OSError, ValueError):
        return {}
    m = align_fns(ref, fn_inventory(data))
    if not m:
        return {}
    olds = sorted(m, key=len, reverse=True)

    def ren(s):
        for o in olds:
            if s == o:
                return m[o]
            if s.startswith(o) and s[len(o):len(o) + 3] == '::{':
                return m[o] + s[len(o):]
        return s

    def walk(x):
        if isinstance(x, dict):
            for k, v in list(x.items()):
                if isinstance(v, str):
                    if k in ('path', 'resolved', 'fn', 'closure', 'item'):
                        x[k] = ren(v)
                else:
                    walk(v)
        elif isinstance(x, list):
            for i, v in enumerate(x):
                if isinstance(v, str):
                    pass
                else:
                    walk(v)
    walk(data.get('fns', []))
    return m


def reference_fn_paths(role):
    try:
        return {r['path'] for r in json.load(open(FREF)).get(role, [])}
    except (OSError, ValueError):
        return None


def reference_consts(role):
    try:
        return set(json.load(open(os.path.join(os.path.dirname(REF), 'const_names.json'))).get(role, []))
    except (OSError, ValueError):
        return None


def apply(data, role):
    """rewrite the facts of one crate in place; returns {struct: {actual: reference}}"""
    try:
        ref = json.load(open(REF)).get(role, {})
    except (OSError, ValueError):
        return {}
    inv = inventory(data)
    alias = {}
    for adt, rf in ref.items():
        if adt in inv:
            m = align(rf, inv[adt])
            if m:
                alias[adt] = m
    if not alias:
        return {}
    for a in data.get('adts', []):
        m = alias.get(a['path'])
        if m:
            for f in a['variants'][0]['fields']:
                if f['name'] in m:
                    f['name'] = m[f['name']]

    def walk(x):
        if isinstance(x, dict):
            if 'field' in x and 'of' in x and 'name' in x:
                m = alias.get(x['of'])
                if m and x['name'] in m:
                    x['name'] = m[x['name']]
            ag = x.get('agg')
            if isinstance(ag, dict) and ag.get('adt') in alias and isinstance(ag.get('fields'), list):
                m = alias[ag['adt']]
                ag['fields'] = [m.get(n, n) for n in ag['fields']]
            for v in x.values():
                walk(v)
        elif isinstance(x, list):
            for v in x:
                walk(v)
    walk(data.get('fns', []))
    return alias


if __name__ == '__main__':
    # developer tool: regenerate the reference inventory from the facts of the pinned tree
    import sys, glob
    sys.path.insert(0, os.path.dirname(os.path.abspath(__file__)))
    import dump
    d = dump.facts_dir('/repo', 'ws')[0]
    out = {}
    for f in sorted(glob.glob(os.path.join(d, '*.json'))):
        b = os.path.basename(f)
        role = 'lib' if b.startswith('fst-Rlib') else 'bin' if b.startswith('fst-Executable') else None
        if role:
            out[role] = inventory(json.load(open(f)))
    json.dump(out, open(REF, 'w'), indent=1, sort_keys=True)
    print('wrote', REF, {k: len(v) for k, v in out.items()})
    fo = {}
    for f in sorted(glob.glob(os.path.join(d, '*.json'))):
        b = os.path.basename(f)
        role = 'lib' if b.startswith('fst-Rlib') else 'bin' if b.startswith('fst-Executable') else None
        if role:
            fo[role] = fn_inventory(json.load(open(f)))
    json.dump(fo, open(FREF, 'w'), indent=0, sort_keys=True)
    co = {}
    for f in sorted(glob.glob(os.path.join(d, '*.json'))):
        b = os.path.basename(f)
        role = 'lib' if b.startswith('fst-Rlib') else 'bin' if b.startswith('fst-Executable') else None
        if role:
            co[role] = sorted(c['path'] for c in json.load(open(f)).get('consts', []))
    json.dump(co, open(os.path.join(os.path.dirname(REF), 'const_names.json'), 'w'), indent=0)
    to = {}
    for f in sorted(glob.glob(os.path.join(d, '*.json'))):
        b = os.path.basename(f)
        role = 'lib' if b.startswith('fst-Rlib') else 'bin' if b.startswith('fst-Executable') else None
        if role:
            to[role] = adt_shapes(json.load(open(f)))
    json.dump(to, open(TREF, 'w'), indent=0, sort_keys=True)
    print('wrote', FREF, {k: len(v) for k, v in fo.items()})
