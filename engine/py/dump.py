"""Run the mirdump driver over /repo (or a scratch copy) and cache the facts by content hash."""
import fcntl, hashlib, json, os, shutil, subprocess, sys, time

VERIF = os.path.dirname(os.path.dirname(os.path.dirname(os.path.abspath(__file__))))
DRIVER_DIR = os.path.join(VERIF, 'engine', 'mirdump')
DRIVER = os.path.join(DRIVER_DIR, 'target', 'release', 'mirdump')
CACHE = os.path.join(VERIF, '.cache')
KEEP = 40

SELECTIONS = {
    # whole workspace, library with its optional feature (superset build): build script, lib, fst-bin, bench
    'ws': ['--workspace', '--features', 'levenshtein'],
    # library alone without optional features (the other cfg(feature) variant)
    'lib-nofeat': ['-p', 'fst', '--lib'],
}


def _sha_files(root, files):
    h = hashlib.sha256()
    for f in sorted(files):
        h.update(os.path.relpath(f, root).encode())
        h.update(b'\0')
        try:
            with open(f, 'rb') as fh:
                h.update(fh.read())
        except OSError:
            h.update(b'<unreadable>')
        h.update(b'\0')
    return h.hexdigest()


def source_files(repo):
    out = []
    for dp, dns, fns in os.walk(repo):
        dns[:] = [d for d in dns if d not in ('target', '.git', 'data', 'fst-regex', 'fst-levenshtein')]
        for f in fns:
            if f.endswith('.rs') or f in ('Cargo.toml', 'Cargo.lock'):
                out.append(os.path.join(dp, f))
    return out


def driver_hash():
    files = [os.path.join(DRIVER_DIR, 'src', 'main.rs'), os.path.join(DRIVER_DIR, 'Cargo.toml')]
    return _sha_files(DRIVER_DIR, files)[:16]


def tree_hash(repo):
    return _sha_files(repo, source_files(repo))[:24]


def nightly_sysroot():
    return subprocess.check_output(['rustc', '+nightly', '--print', 'sysroot'], text=True).strip()


def ensure_driver():
    stamp = os.path.join(DRIVER_DIR, 'target', 'release', '.srchash')
    want = driver_hash()
    if os.path.exists(DRIVER) and os.path.exists(stamp) and open(stamp).read().strip() == want:
        return
    env = dict(os.environ, CARGO_NET_OFFLINE='true')
    r = subprocess.run(['cargo', 'build', '--release', '--offline'], cwd=DRIVER_DIR, env=env,
                       stdout=subprocess.PIPE, stderr=subprocess.STDOUT, text=True)
    if r.returncode != 0:
        sys.stderr.write(r.stdout)
        raise SystemExit('mirdump driver failed to build')
    with open(stamp, 'w') as fh:
        fh.write(want)


class Lock:
    def __init__(self, name='lock'):
        self.name = name

    def __enter__(self):
        os.makedirs(CACHE, exist_ok=True)
        self.fh = open(os.path.join(CACHE, self.name), 'w')
        fcntl.flock(self.fh, fcntl.LOCK_EX)
        return self

    def __exit__(self, *a):
        fcntl.flock(self.fh, fcntl.LOCK_UN)
        self.fh.close()


def _prune():
    ents = []
    for e in os.listdir(CACHE):
        p = os.path.join(CACHE, e)
        if os.path.isdir(p) and e.startswith('facts-') and not e.endswith('.part'):
            ents.append((os.path.getmtime(p), p))
    ents.sort(reverse=True)
    for mt, p in ents[KEEP:]:
        if time.time() - mt > 1800:          # never pull a recent dump from under a concurrent check
            shutil.rmtree(p, ignore_errors=True)
    for e in os.listdir(CACHE):
        p = os.path.join(CACHE, e)
        if os.path.isdir(p) and e.startswith('tmp-') and time.time() - os.path.getmtime(p) > 3600:
            shutil.rmtree(p, ignore_errors=True)
        elif e.startswith('lock-') and time.time() - os.path.getmtime(p) > 3600:
            try:
                os.remove(p)
            except OSError:
                pass


def run_driver(src_dir, selection_args, out_dir, extra_env=None):
    """cargo +nightly check with the driver as workspace wrapper; returns (ok, log)"""
    ensure_driver()
    tgt = os.path.join(CACHE, 'tmp-target-%d-%d' % (os.getpid(), int(time.time() * 1000) % 100000))
    os.makedirs(out_dir, exist_ok=True)
    env = dict(os.environ)
    env.update({
        'LD_LIBRARY_PATH': os.path.join(nightly_sysroot(), 'lib') + ':' + env.get('LD_LIBRARY_PATH', ''),
        'RUSTFLAGS': '-Zmir-opt-level=0 -Awarnings',
        'RUSTC_WORKSPACE_WRAPPER': DRIVER,
        'CARGO_TARGET_DIR': tgt,
        'MIRDUMP_OUT': out_dir,
        'CARGO_NET_OFFLINE': 'true',
    })
    env.pop('RUSTC_WRAPPER', None)
    if extra_env:
        env.update(extra_env)
    try:
        r = subprocess.run(['cargo', '+nightly', 'check', '--offline'] + selection_args, cwd=src_dir, env=env,
                           stdout=subprocess.PIPE, stderr=subprocess.STDOUT, text=True)
        return r.returncode == 0, r.stdout
    finally:
        shutil.rmtree(tgt, ignore_errors=True)


def facts_dir(repo='/repo', selection='ws'):
    """returns (dir, meta) with facts of the given tree, dumping if not cached"""
    with Lock():
        _prune()
        ensure_driver()
    th = tree_hash(repo)
    key = 'facts-%s-%s-%s' % (selection, th, driver_hash())
    with Lock('lock-' + key[-40:]):
        d = os.path.join(CACHE, key)
        meta_p = os.path.join(d, 'meta.json')
        if os.path.exists(meta_p):
            m0 = json.load(open(meta_p))
            if m0.get('ok'):
                os.utime(d, None)
                return d, m0
            # a failed dump is never reused: the failure may have been transient (interrupted build)
        if os.path.isdir(d):
            shutil.rmtree(d)
        t0 = time.time()
        tmp = d + '.part'
        shutil.rmtree(tmp, ignore_errors=True)
        ok, log = run_driver(repo, SELECTIONS[selection], tmp)
        if not ok and ('No such file or directory' in log or 'never executed' in log or 'signal' in log):
            shutil.rmtree(tmp, ignore_errors=True)
            ok, log = run_driver(repo, SELECTIONS[selection], tmp)       # one retry for environmental failures
        files = sorted(os.listdir(tmp)) if os.path.isdir(tmp) else []
        meta = {'ok': ok, 'selection': selection, 'tree_hash': th, 'files': files,
                'wall_s': round(time.time() - t0, 2), 'log_tail': log[-4000:] if not ok else ''}
        os.makedirs(tmp, exist_ok=True)
        json.dump(meta, open(os.path.join(tmp, 'meta.json'), 'w'))
        os.rename(tmp, d)
        return d, meta


def fixture_dir(name='posctl'):
    src = os.path.join(VERIF, 'fixtures', name)
    with Lock():
        files = source_files(src)
        key = 'facts-fx-%s-%s-%s' % (name, _sha_files(src, files)[:24], driver_hash())
        d = os.path.join(CACHE, key)
        meta_p = os.path.join(d, 'meta.json')
        if os.path.exists(meta_p):
            m0 = json.load(open(meta_p))
            if m0.get('ok'):
                os.utime(d, None)
                return d, m0
            # a failed dump is never reused: the failure may have been transient (interrupted build)
        tmp = d + '.part'
        shutil.rmtree(tmp, ignore_errors=True)
        t0 = time.time()
        ok, log = run_driver(src, [], tmp)
        files = sorted(os.listdir(tmp)) if os.path.isdir(tmp) else []
        meta = {'ok': ok, 'files': files, 'wall_s': round(time.time() - t0, 2), 'log_tail': log[-4000:] if not ok else ''}
        os.makedirs(tmp, exist_ok=True)
        json.dump(meta, open(os.path.join(tmp, 'meta.json'), 'w'))
        os.rename(tmp, d)
        return d, meta


if __name__ == '__main__':
    d, m = facts_dir(sys.argv[1] if len(sys.argv) > 1 else '/repo', sys.argv[2] if len(sys.argv) > 2 else 'ws')
    print(d, json.dumps({k: v for k, v in m.items() if k != 'log_tail'}))
    if not m['ok']:
        print(m['log_tail'])
