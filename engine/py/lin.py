"""A4/A8: linear forms over expression atoms and a small exact decision procedure (Fourier-Motzkin)."""
from fractions import Fraction
import re

U = {'u8': 8, 'u16': 16, 'u32': 32, 'u64': 64, 'usize': 64, 'u128': 128}
S = {'i8': 8, 'i16': 16, 'i32': 32, 'i64': 64, 'isize': 64, 'i128': 128}
SLICE_MAX = (1 << 63) - 1


def ty_range(ty):
    if ty in U:
        return (0, (1 << U[ty]) - 1)
    if ty in S:
        return (-(1 << (S[ty] - 1)), (1 << (S[ty] - 1)) - 1)
    if ty == 'bool':
        return (0, 1)
    return None


class Lin:
    __slots__ = ('t', 'c')

    def __init__(self, t=None, c=0):
        self.t = dict(t) if t else {}
        self.c = Fraction(c)

    @staticmethod
    def const(c):
        return Lin(None, c)

    @staticmethod
    def atom(a):
        return Lin({a: Fraction(1)}, 0)

    def __add__(self, o):
        t = dict(self.t)
        for k, v in o.t.items():
            nv = t.get(k, 0) + v
            if nv == 0:
                t.pop(k, None)
            else:
                t[k] = nv
        return Lin(t, self.c + o.c)

    def scale(self, k):
        k = Fraction(k)
        if k == 0:
            return Lin()
        return Lin({a: v * k for a, v in self.t.items()}, self.c * k)

    def __neg__(self):
        return self.scale(-1)

    def __sub__(self, o):
        return self + (-o)

    def is_const(self):
        return not self.t

    def __repr__(self):
        parts = []
        for a, v in self.t.items():
            parts.append(('%s*' % v if v != 1 else '') + atom_name(a))
        if self.c != 0 or not parts:
            parts.append(str(self.c))
        return ' + '.join(parts)

    def key(self):
        return (tuple(sorted(((repr(a), v) for a, v in self.t.items()))), self.c)


def atom_name(a):
    from sym import fmt
    try:
        return fmt(a)[:60]
    except Exception:
        return str(a)[:60]


def fm_feasible(cons, max_cons=4000):
    """cons: list of Lin meaning lin >= 0 (rational relaxation).  Returns False only if provably infeasible."""
    cons = [c for c in cons]
    # quick constant check
    live = []
    for c in cons:
        if c.is_const():
            if c.c < 0:
                return False
        else:
            live.append(c)
    cons = live
    while cons:
        # choose the variable with the fewest pos*neg products
        varset = {}
        for c in cons:
            for a, v in c.t.items():
                p, n = varset.get(a, (0, 0))
                if v > 0:
                    p += 1
                else:
                    n += 1
                varset[a] = (p, n)
        if not varset:
            break
        var = min(varset, key=lambda a: varset[a][0] * varset[a][1])
        pos = [c for c in cons if c.t.get(var, 0) > 0]
        neg = [c for c in cons if c.t.get(var, 0) < 0]
        rest = [c for c in cons if var not in c.t]
        new = []
        seen = set()
        for p in pos:
            for n in neg:
                # p: a*x + P >= 0 (a>0) ; n: -b*x + N >= 0 (b>0)  =>  b*P + a*N >= 0
                a = p.t[var]
                b = -n.t[var]
                comb = p.scale(b) + n.scale(a)
                comb.t.pop(var, None)
                if comb.is_const():
                    if comb.c < 0:
                        return False
                    continue
                k = comb.key()
                if k not in seen:
                    seen.add(k)
                    new.append(comb)
        cons = rest + new
        if len(cons) > max_cons:
            return True  # give up: cannot prove infeasible
    for c in cons:
        if c.is_const() and c.c < 0:
            return False
    return True


def entails(cons, goal):
    """do the constraints (each lin >= 0) entail goal >= 0 over the integers?  (sound, incomplete)"""
    neg = (-goal) - Lin.const(1)      # goal <= -1
    return not fm_feasible(list(cons) + [neg])


def entails_eq(cons, a, b):
    return entails(cons, a - b) and entails(cons, b - a)
