"""A8: panic-freedom over MIR paths.

For an entry function every CFG path is enumerated (loop-carried locations are havocked at loop headers, so one
traversal of a loop body stands for all iterations).  Along a path the branch decisions are turned into linear
constraints over expression atoms; every panic source met on the path - MIR Assert terminators, slice/Vec
indexing, unwrap/expect, explicit panics - becomes a proof obligation that must follow from those constraints
(exact Fourier-Motzkin over the rationals, sound for integers).  Crate-local callees are analysed in the
caller's context (arguments substituted, caller's constraints carried over), bounded depth.
"""
import re
import stdalg
from lin import Lin, entails, fm_feasible, ty_range, SLICE_MAX
from paths import explore
from sym import fmt, walk, subst, map_children, simplify_proj
import stdmodel as SM

CMP = {'Lt', 'Le', 'Gt', 'Ge', 'Eq', 'Ne'}
NEG = {'Lt': 'Ge', 'Le': 'Gt', 'Gt': 'Le', 'Ge': 'Lt', 'Eq': 'Ne', 'Ne': 'Eq'}


class Failure:
    def __init__(self, kind, fn, at, what, chain, definite=False):
        self.kind = kind      # 'overflow' | 'bounds' | 'index' | 'unwrap' | 'panic' | 'undecided'
        self.fn = fn
        self.at = at
        self.what = what
        self.chain = chain
        self.definite = definite

    def key(self):
        return '%s:%s:%s' % (self.kind, self.fn.path, self.what[:80])

    def __repr__(self):
        return '%s in %s @ %s: %s (via %s)' % (self.kind, self.fn.path, self.at, self.what, ' -> '.join(self.chain))


class Prover:
    def __init__(self, crate, assume=None, max_depth=5, skip_callee=None):
        self.crate = crate
        self.assume = assume          # hook(facts: dict expr->val, lin: Linearizer) -> list[Lin>=0]
        self.max_depth = max_depth
        self.skip_callee = skip_callee or (lambda p: False)
        self.assumed_total = set()    # external callees assumed not to panic
        self.opaque_user = set()      # calls into user code through type parameters
        self.obligations = 0
        self.discharged = 0
        self.paths = 0
        self.samples = []
        self._tmpl = {}
        self._icache = {}

    # ---- value inlining of local single-path functions -------------------------------------
    def inline_template(self, path):
        if path in self._tmpl:
            return self._tmpl[path]
        self._tmpl[path] = None
        f = self.crate.fns.get(path)
        if f is None:
            return None
        ps = explore(f, max_visits=1, havoc=True, limit=64)
        rets = [p for p in ps if p.end == 'return']
        if len(rets) == 1 and not f.loops():
            self._tmpl[path] = rets[0].ret()
        return self._tmpl[path]

    def inline(self, e, depth=0):
        """rewrite calls to local single-path functions by their return expression (bounded)"""
        if not isinstance(e, tuple) or depth > 8:
            return e
        key = id(e)
        hit = self._icache.get(key)
        if hit is not None and hit[0] is e:
            return hit[1]
        r = self._inline(e, depth)
        self._icache[key] = (e, r)
        return r

    def _inline(self, e, depth):
        e2 = map_children(e, lambda x: self.inline(x, depth))
        if e2[0] == 'call' and isinstance(e2[1], str) and e2[1] in self.crate.fns:
            t = self.inline_template(e2[1])
            if t is not None:
                args = {i + 1: a for i, a in enumerate(e2[2])}
                return self.inline(simplify_proj(subst(t, args)), depth + 1)
        if e2[0] == 'field':
            return simplify_proj(e2)
        return e2


class Linearizer:
    def __init__(self, prover, root_fn):
        self.pv = prover
        self.root = root_fn
        self.ranges = {}

    def canon(self, e):
        """canonical atom: pure calls lose their site so that equal calls are equal atoms"""
        if not isinstance(e, tuple):
            return e
        h = e[0]
        if h == 'call':
            args = tuple(self.canon(a) for a in e[2])
            if isinstance(e[1], str) and (e[1] in SM.PURE_FNS or e[1].endswith('::as_ref') or e[1].endswith('::deref')):
                return ('call', e[1], args, None)
            return ('call', e[1], args, e[3])
        if h in ('field', 'variant', 'index', 'discr', 'len', 'okof'):
            return (h, self.canon(e[1])) + tuple(e[2:])
        if h == 'cast':
            return ('cast', self.canon(e[1])) + tuple(e[2:])
        if h == 'bin':
            return ('bin', e[1], self.canon(e[2]), self.canon(e[3]))
        if h == 'un':
            return ('un', e[1], self.canon(e[2]))
        if h == 'after':
            return ('after', self.canon(e[1]), e[2], self.canon(e[3]))
        return e

    def atom(self, e, rng=None):
        a = self.canon(e)
        if rng is not None:
            old = self.ranges.get(a)
            if old is None:
                self.ranges[a] = rng
            else:
                self.ranges[a] = (max(old[0], rng[0]), min(old[1], rng[1]))
        elif a not in self.ranges:
            self.ranges[a] = None
        return Lin.atom(a)

    def slice_len(self, s):
        """linear form of the length of slice-valued expression s"""
        s = self.pv.inline(s)
        if s[0] == 'call' and isinstance(s[1], str):
            p = s[1]
            if p in (SM.SLICE_INDEX, SM.SLICE_INDEX_MUT) or p in SM.VEC_INDEX:
                base, rng = s[2][0], self.pv.inline(s[2][1])
                if rng[0] == 'agg':
                    f = dict(rng[2])
                    n = rng[1]
                    if n.endswith('RangeFrom'):
                        st = self.lin(f.get('start'))
                        if st is not None:
                            return self.slice_len(base) - st
                    elif n.endswith('RangeTo'):
                        en = self.lin(f.get('end'))
                        if en is not None:
                            return en
                    elif n.endswith('ops::Range'):
                        st, en = self.lin(f.get('start')), self.lin(f.get('end'))
                        if st is not None and en is not None:
                            return en - st
                    elif n.endswith('RangeFull'):
                        return self.slice_len(base)
        if s[0] == 'field' and s[2] in ('0', '1') and s[1][0] == 'call' and s[1][1] in SM.SPLIT_AT:
            mid = self.lin(s[1][2][1])
            if mid is not None:
                return mid if s[2] == '0' else self.slice_len(s[1][2][0]) - mid
        if s[0] == 'field' and s[2] == '0' and s[1][0] == 'variant' and s[1][2] == 'Some' and s[1][1][0] == 'call' and isinstance(s[1][1][1], str) and s[1][1][1].endswith('::next'):
            # an item of `slice.chunks_exact(N)`: exactly N elements (N the one literal used with chunks_exact in the crate)
            a0 = s[1][1][2][0] if s[1][1][2] else None
            ty = a0[3] if a0 is not None and a0[0] == 'havoc' and len(a0) > 3 else ''
            if 'ChunksExact<' in (ty or ''):
                ns = set()
                for g_ in self.pv.crate.fn_list:
                    for bid_, t_ in g_.calls():
                        if (g_.callee(t_) or '').endswith('<impl [T]>::chunks_exact'):
                            a_ = t_['args'][1] if len(t_['args']) == 2 else None
                            c_ = (a_ or {}).get('const') if isinstance(a_, dict) else None
                            ns.add(int(c_['scalar'], 16) if c_ and c_.get('scalar') is not None else None)
                if len(ns) == 1 and None not in ns:
                    return Lin.const(ns.pop())
        if s[0] == 'cbytes':
            return Lin.const(len(s[1]) // 2)
        if s[0] == 'array':
            return Lin.const(len(s[1]))
        if s[0] == 'cast' and 'Unsize' in str(s[3] if len(s) > 3 else ''):
            return self.slice_len(s[1])
        if s[0] == 'repeat':
            try:
                return Lin.const(int(str(s[2]).split('_')[0]))
            except ValueError:
                pass
        return self.atom(('len', s), (0, SLICE_MAX))

    def lin(self, e):
        if e is None:
            return None
        e = self.pv.inline(e)
        h = e[0]
        if h == 'const':
            return Lin.const(e[1])
        if h == 'bin':
            op = e[1]
            if op in ('Add', 'Sub', 'AddUnchecked', 'SubUnchecked'):
                a, b = self.lin(e[2]), self.lin(e[3])
                if a is None or b is None:
                    return None
                return a + b if op.startswith('Add') else a - b
            if op in ('Mul', 'MulUnchecked'):
                a, b = self.lin(e[2]), self.lin(e[3])
                if a is not None and b is not None:
                    if a.is_const():
                        return b.scale(a.c)
                    if b.is_const():
                        return a.scale(b.c)
                return self.atom(e, (0, (1 << 64) - 1))
            if op == 'BitAnd':
                # x & m is within [0, m]
                for x in (e[2], e[3]):
                    if x[0] == 'const':
                        return self.atom(e, (0, x[1]))
                return self.atom(e)
            if op == 'Shr':
                a = self.lin(e[2])
                if e[3][0] == 'const' and a is not None and len(a.t) == 1 and a.c == 0:
                    (at, cf), = a.t.items()
                    r = self.ranges.get(at)
                    if r and cf == 1:
                        return self.atom(e, (r[0] >> e[3][1], r[1] >> e[3][1]))
                return self.atom(e, (0, (1 << 64) - 1))
            if op == 'Rem' and e[3][0] == 'const' and e[3][1] > 0:
                return self.atom(e, (0, e[3][1] - 1))
            if op in ('BitXor', 'BitOr'):
                # no bit above the highest bit either operand can have
                a, b = self.lin(e[2]), self.lin(e[3])
                if a is not None and b is not None:
                    (_, ha), (_, hb) = self.bounds(a), self.bounds(b)
                    if ha is not None and hb is not None and ha >= 0 and hb >= 0:
                        return self.atom(e, (0, (1 << int(max(ha, hb)).bit_length()) - 1))
                return self.atom(e)
            if op in ('Shl', 'Div', 'Rem'):
                return self.atom(e)
            return None
        if h == 'cast':
            to = e[2]
            kind = e[3] if len(e) > 3 else ''
            from_ty = e[4] if len(e) > 4 else None
            tr = ty_range(to)
            if kind.startswith('IntToInt') and tr is not None:
                fr = ty_range(from_ty) if from_ty else None
                inner = self.lin(e[1])
                if fr is not None and fr[0] >= tr[0] and fr[1] <= tr[1] and inner is not None:
                    # widening: value preserved; remember the source type's range for plain atoms
                    if len(inner.t) == 1 and inner.c == 0:
                        (at, cf), = inner.t.items()
                        if cf == 1:
                            old = self.ranges.get(at)
                            self.ranges[at] = fr if old is None else (max(old[0], fr[0]), min(old[1], fr[1]))
                    return inner
                if inner is not None:
                    lo, hi = self.bounds(inner)
                    if lo is not None and hi is not None and lo >= tr[0] and hi <= tr[1]:
                        return inner
                return self.atom(e, tr)
            if tr is not None:
                return self.atom(e, tr)
            return self.atom(e)
        if h == 'len':
            return self.slice_len(e[1])
        if h == 'call' and isinstance(e[1], str):
            if e[1] in SM.LEN_FNS:
                return self.slice_len(e[2][0])
            if e[1].endswith('::from_le_bytes'):
                m = re.search(r'impl (u\d+|usize)>::from_le_bytes', e[1])
                return self.atom(e, ty_range(m.group(1)) if m else None)
            if e[1] in ('std::cmp::min', 'core::cmp::min', 'std::cmp::Ord::min'):
                return self.atom(e)
            return self.atom(e)
        if h == 'param':
            ty = self.root.local_ty(e[2]) if self.root is not None else None
            return self.atom(e, ty_range(ty) if ty else None)
        if h == 'havoc':
            return self.atom(e, ty_range(e[3]) if e[3] else None)
        if h == 'citem':
            v = self.pv.crate.const_scalar(e[1])
            if v is not None:
                return Lin.const(v)
            return self.atom(e)
        if h in ('field', 'okof', 'index', 'variant', 'after', 'un', 'phi', 'undef'):
            return self.atom(e)
        return None

    def bounds(self, l):
        """(lo, hi) of a linear form from the type ranges of its atoms (None = unbounded)"""
        lo = hi = l.c
        for a, c in l.t.items():
            r = self.ranges.get(a)
            if r is None:
                return (None, None)
            if c > 0:
                lo += c * r[0]
                hi += c * r[1]
            else:
                lo += c * r[1]
                hi += c * r[0]
        return (lo, hi)

    def range_constraints(self, forms):
        out = []
        seen = set()
        for l in forms:
            for a in l.t:
                if a in seen:
                    continue
                seen.add(a)
                r = self.ranges.get(a)
                if r:
                    out.append(Lin.atom(a) - Lin.const(r[0]))
                    out.append(Lin.const(r[1]) - Lin.atom(a))
        return out

    def cmp_constraints(self, op, a, b):
        """constraints (each >=0) equivalent to `a op b`; None if not expressible as a conjunction"""
        la, lb = self.lin(a), self.lin(b)
        if la is None or lb is None:
            return None
        if op == 'Lt':
            return [lb - la - Lin.const(1)]
        if op == 'Le':
            return [lb - la]
        if op == 'Gt':
            return [la - lb - Lin.const(1)]
        if op == 'Ge':
            return [la - lb]
        if op == 'Eq':
            return [la - lb, lb - la]
        return None

    def prove(self, cons, goals):
        """all goals (Lin >= 0) follow from cons + type ranges"""
        for g in goals:
            rc = self.range_constraints(list(cons) + [g])
            if not entails(list(cons) + rc, g):
                return False
        return True

    def feasible(self, cons, nes=()):
        """nes: disequalities [(Lin a, Lin b)] meaning a != b; decided by case split"""
        if nes:
            rest = nes[1:]
            if len(nes[0]) == 3 and nes[0][0] == 'or':
                # ('or', [constraints A], [constraints B]): at least one alternative holds (x outside a range)
                return (self.feasible(list(cons) + list(nes[0][1]), rest) or
                        self.feasible(list(cons) + list(nes[0][2]), rest))
            a, b = nes[0]
            return (self.feasible(list(cons) + [b - a - Lin.const(1)], rest) or
                    self.feasible(list(cons) + [a - b - Lin.const(1)], rest))
        rc = self.range_constraints(cons)
        return fm_feasible(list(cons) + rc)

    def range_of(self, e):
        """(lo, hi_inclusive) linear forms of a constant range expression"""
        if e[0] == 'agg' and e[1] in ('std::ops::Range', 'std::ops::RangeInclusive'):
            d = dict(e[2])
            lo, hi = self.lin(d.get('start')), self.lin(d.get('end'))
            if lo is not None and hi is not None:
                return lo, (hi if e[1].endswith('Inclusive') else hi - Lin.const(1))
        return None

    def ne_pair(self, e, val):
        """if boolean expr e having truth value val is a disequality of two linear forms, return them"""
        e = self.pv.inline(e)
        if e[0] == 'un' and e[1] == 'Not':
            return self.ne_pair(e[2], 1 - val)
        if val == 0 and e[0] == 'call' and isinstance(e[1], str) and e[1].endswith('::contains') and 'ops::Range' in e[1] and len(e[2]) == 2:
            r, x = self.range_of(self.pv.inline(e[2][0])), self.lin(e[2][1])
            if r is not None and x is not None:
                return ('or', [r[0] - x - Lin.const(1)], [x - r[1] - Lin.const(1)])       # x < lo  or  x > hi
        if e[0] == 'bin' and ((e[1] == 'Ne' and val == 1) or (e[1] == 'Eq' and val == 0)):
            la, lb = self.lin(e[2]), self.lin(e[3])
            if la is not None and lb is not None:
                return (la, lb)
        return None


def bool_constraints(L, e, val):
    """constraints equivalent to the boolean expression e having truth value val (None if not linear)"""
    e = L.pv.inline(e)
    if e[0] == 'un' and e[1] == 'Not':
        return bool_constraints(L, e[2], 1 - val)
    # `cond.then(|| ..)` / `cond.then_some(..)` is Some exactly when cond holds
    x_, v_ = None, val
    if e[0] == 'discr':
        x_ = e[1]
    elif e[0] == 'call' and isinstance(e[1], str) and e[1].endswith(('Option::<T>::is_some', 'Option::<T>::is_none')) and e[2]:
        x_, v_ = e[2][0], (val if e[1].endswith('is_some') else 1 - val)
    if x_ is not None and v_ in (0, 1):
        while x_[0] == 'call' and isinstance(x_[1], str) and x_[1].endswith(('Option::<T>::as_ref', 'Option::<T>::as_mut', 'Option::<T>::as_deref')) and x_[2]:
            x_ = x_[2][0]
        if x_[0] == 'call' and isinstance(x_[1], str) and x_[1].rsplit('::', 1)[-1] in ('then', 'then_some') and 'bool' in x_[1] and len(x_[2]) == 2:
            return bool_constraints(L, x_[2][0], v_)
    if val == 1 and e[0] == 'call' and isinstance(e[1], str) and e[1].endswith('::contains') and 'ops::Range' in e[1] and len(e[2]) == 2:
        r, x = L.range_of(L.pv.inline(e[2][0])), L.lin(e[2][1])
        if r is not None and x is not None:
            return [x - r[0], r[1] - x]          # lo <= x <= hi
    if e[0] == 'const' and e[1] in (0, 1):
        # a bool temporary whose value is known on this path (`let ok = a && b;` compiled to branches that store true / false)
        return [] if e[1] == val else [Lin.const(-1)]
    if e[0] == 'bin' and e[1] in CMP:
        op = e[1] if val else NEG[e[1]]
        return L.cmp_constraints(op, e[2], e[3])
    if e[0] == 'call' and isinstance(e[1], str) and e[1] in SM.IS_EMPTY_FNS:
        ln = L.slice_len(e[2][0])
        if val:
            return [ln, -ln]
        return [ln - Lin.const(1)]
    return None


def analyse(pv, fn, args=None, cons=None, facts=None, depth=0, chain=(), root=None, L=None, on_path_end=None):
    """returns list[Failure] for everything reachable from fn under the given context"""
    failures = []
    root = root or fn
    L = L or Linearizer(pv, root)
    cons0 = list(cons or [])
    facts0 = dict(facts or {})
    chain = chain + (fn.path,)
    if depth > pv.max_depth:
        return [Failure('undecided', fn, fn.span, 'inlining depth exceeded', chain)]
    paths = explore(fn, max_visits=1, havoc=True, limit=3000)
    if len(paths) >= 3000:
        failures.append(Failure('undecided', fn, fn.span, 'too many paths', chain))
    for p in paths:
        pv.paths += 1
        ps = p.sym
        cs = list(cons0)
        nes = []
        fs = dict(facts0)
        dec = {}
        for d in p.decisions:
            dec[d[0]] = d
        feasible = True
        for k, bid in enumerate(p.blocks):
            if not feasible:
                break
            t = fn.blocks[bid]['term']
            if not t:
                continue
            is_last = (k == len(p.blocks) - 1)
            kd = t['k']
            at = t.get('span') or fn.span
            if kd == 'assert' and not is_last or (kd == 'assert' and is_last and p.end != 'cut'):
                c = subst(ps.operand_at(t['cond'], (k, 'T')), args)
                ok, what = discharge_assert(pv, L, fn, t, c, cs)
                pv.obligations += 1
                if ok:
                    pv.discharged += 1
                    note(pv, fn, at, what, cs)
                else:
                    failures.append(Failure('overflow' if 'overflow' in t['kind'] else 'bounds', fn, at, what, chain))
            elif kd == 'call':
                ce = ps.call_expr_at((k, 'T'))
                callee = ce[1]
                cargs = tuple(subst(a, args) for a in ce[2])
                if t['target'] is None or SM.is_panic_fn(callee):
                    if SM.is_panic_fn(callee) or t['target'] is None:
                        pv.obligations += 1
                        if not L.feasible(cs):
                            pv.discharged += 1
                        else:
                            failures.append(Failure('panic', fn, at, 'explicit panic / diverging call %s reachable' % callee, chain))
                        continue
                fl = call_obligations(pv, L, fn, t, callee, cargs, cs, fs, at, chain, depth, root)
                failures.extend(fl)
            elif kd == 'unreachable' or kd == 'other':
                pass
            # decision taken at this block
            if k in dec:
                _, _, e, val, how = dec[k]
                e = subst(e, args)
                if not isinstance(val, int):
                    e_c, v_c = stdalg.canon_decision(e, val)
                    if isinstance(v_c, int):
                        e, val = e_c, v_c
                if isinstance(val, int):
                    bc = bool_constraints(L, e, val) if val in (0, 1) else None
                    if bc is None:
                        le = L.lin(e) if e[0] not in ('discr',) else None
                        if le is not None and e[0] != 'call':
                            bc = [le - Lin.const(val), Lin.const(val) - le]
                    if bc is not None:
                        cs.extend(bc)
                    elif val in (0, 1):
                        np_ = L.ne_pair(e, val)
                        if np_ is not None and len(nes) < 6:
                            nes.append(np_)
                    fs[L.canon(pv.inline(e))] = val
                    ce_, cv_ = stdalg.canon_decision(pv.inline(e), val)
                    if isinstance(cv_, int):
                        fs[L.canon(ce_)] = cv_
                    if pv.assume:
                        cs.extend(pv.assume(fs, L) or [])
                    if not L.feasible(cs, nes):
                        feasible = False
        if feasible and on_path_end is not None:
            try:
                on_path_end(p, cs, fs, L, nes)
            except TypeError:
                on_path_end(p, cs, fs, L)
    return failures


def note(pv, fn, at, what, cs):
    if len(pv.samples) < 12:
        pv.samples.append({'fn': fn.path, 'at': at, 'obligation': what, 'under': [repr(c) + ' >= 0' for c in cs[:6]]})


def assert_ty(fn, t):
    k = t['kind']
    if 'overflow' in k:
        for key in ('a', 'b'):
            o = k.get(key)
            if isinstance(o, dict):
                pl = o.get('copy') or o.get('move')
                if pl and not pl['proj']:
                    return fn.local_ty(pl['local'])
                if 'const' in o:
                    return o['const'].get('ty')
    return 'usize'


def discharge_assert(pv, L, fn, t, c, cs):
    exp = 1 if t['expected'] else 0
    c = pv.inline(c)
    # overflow flag of a checked op
    if c[0] == 'field' and c[2] == '1' and c[1][0] == 'bin' and c[1][1].endswith('WithOverflow'):
        op = c[1][1][:-len('WithOverflow')]
        a, b = c[1][2], c[1][3]
        la, lb = L.lin(a), L.lin(b)
        ty = assert_ty(fn, t)
        tr = ty_range(ty) or (0, (1 << 64) - 1)
        what = '%s %s %s does not overflow %s' % (fmt(a)[:60], op, fmt(b)[:60], ty)
        if exp != 0:
            return False, what + ' (assert expects overflow?)'
        if la is None or lb is None:
            return False, what + ' [not linear]'
        if op == 'Sub':
            return L.prove(cs, [la - lb - Lin.const(tr[0])]), what
        if op == 'Add':
            return L.prove(cs, [Lin.const(tr[1]) - la - lb]), what
        if op == 'Mul':
            if la.is_const():
                return L.prove(cs, [Lin.const(tr[1]) - lb.scale(la.c)]), what
            if lb.is_const():
                return L.prove(cs, [Lin.const(tr[1]) - la.scale(lb.c)]), what
            (alo, ahi), (blo, bhi) = L.bounds(la), L.bounds(lb)
            if ahi is not None and bhi is not None and ahi * bhi <= tr[1]:
                return True, what
            return False, what + ' [non-linear]'
        return False, what + ' [unsupported op]'
    bc = bool_constraints(L, c, exp)
    what = 'assert %s == %s (%s)' % (fmt(c)[:100], bool(exp), list(t['kind'].keys())[0] if isinstance(t['kind'], dict) else t['kind'])
    if bc is None:
        if c[0] == 'const':
            return c[1] == exp, what
        return False, what + ' [not linear]'
    return L.prove(cs, bc), what


def try_into_len(t):
    full = (t.get('callee') or {}).get('full') or ''
    m = re.search(r'TryInto<\[[^;\]]+; (\d+)', full)
    if m:
        return int(m.group(1))
    return None


def call_obligations(pv, L, fn, t, callee, cargs, cs, fs, at, chain, depth, root):
    out = []
    if not isinstance(callee, str):
        pv.opaque_user.add('indirect call')
        return out

    def ob(ok, kind, what):
        pv.obligations += 1
        if ok:
            pv.discharged += 1
            note(pv, fn, at, what, cs)
        else:
            out.append(Failure(kind, fn, at, what, chain))

    if callee in (SM.SLICE_INDEX, SM.SLICE_INDEX_MUT) or callee in SM.VEC_INDEX:
        base, rng = cargs[0], pv.inline(cargs[1])
        ln = L.slice_len(base)
        what = 'index %s of slice %s in bounds' % (fmt(rng)[:80], fmt(base)[:60])
        if rng[0] == 'agg':
            f = dict(rng[2])
            n = rng[1]
            goals = None
            if n.endswith('RangeFrom'):
                st = L.lin(f.get('start'))
                goals = [ln - st] if st is not None else None
            elif n.endswith('RangeToInclusive'):
                en = L.lin(f.get('end'))
                goals = [ln - en - Lin.const(1)] if en is not None else None
            elif n.endswith('RangeTo'):
                en = L.lin(f.get('end'))
                goals = [ln - en] if en is not None else None
            elif n.endswith('ops::Range'):
                st, en = L.lin(f.get('start')), L.lin(f.get('end'))
                goals = [en - st, ln - en] if st is not None and en is not None else None
            elif n.endswith('RangeFull'):
                goals = []
            ob(goals is not None and L.prove(cs, goals), 'index', what)
        else:
            i = L.lin(rng)
            ob(i is not None and L.prove(cs, [ln - i - Lin.const(1)]), 'index', what)
        return out
    if callee in SM.UNWRAP_SOME + SM.UNWRAP_OK:
        x = pv.inline(cargs[0])
        what = '%s(%s) does not panic' % (callee.rsplit('::', 1)[-1], fmt(x)[:100])
        want = 1 if callee in SM.UNWRAP_SOME else 0
        ok = False
        if x[0] == 'agg' and (x[1].endswith('::Some') if want == 1 else x[1].endswith('::Ok')):
            ok = True
        elif x[0] == 'call' and isinstance(x[1], str) and (x[1] in SM.TRY_INTO or x[1].endswith('::try_into')):
            # &[T] -> [T; N]: Ok iff len == N
            n = None
            # the try_into call site carries its generic arguments
            site = x[3]
            if site and site[0] in pv.crate.fns:
                tt = pv.crate.fns[site[0]].blocks[site[1]]['term']
                n = try_into_len(tt)
            if n is not None:
                ln = L.slice_len(x[2][0])
                ok = L.prove(cs, [ln - Lin.const(n), Lin.const(n) - ln])
                what += ' [len == %d]' % n
        elif x[0] == 'call' and isinstance(x[1], str) and re.search(r'::checked_sub$', x[1]):
            a, b = L.lin(x[2][0]), L.lin(x[2][1])
            ok = a is not None and b is not None and L.prove(cs, [a - b])
        elif x[0] == 'call' and isinstance(x[1], str) and re.search(r'::checked_(add|mul)$', x[1]):
            a, b = L.lin(x[2][0]), L.lin(x[2][1])
            if a is not None and b is not None:
                if x[1].endswith('add'):
                    ok = L.prove(cs, [Lin.const((1 << 64) - 1) - a - b])
                else:
                    (alo, ahi), (blo, bhi) = L.bounds(a), L.bounds(b)
                    ok = ahi is not None and bhi is not None and ahi * bhi < (1 << 64)
        else:
            d = fs.get(L.canon(('discr', x)))
            if d is not None and d == want:
                ok = True
            else:
                cx, cw = stdalg.canon_discr(x, want)
                d = fs.get(L.canon(cx))
                if d is not None and d == cw:
                    ok = True
        if not ok and not L.feasible(cs):
            ok = True
        ob(ok, 'unwrap', what)
        return out
    if callee in SM.SPLIT_AT:
        # split_at(mid) panics iff mid > len; its halves have lengths mid and len - mid (see slice_len)
        mid = L.lin(cargs[1])
        ob(mid is not None and L.prove(cs, [L.slice_len(cargs[0]) - mid]), 'index', 'split_at(%s) within slice %s' % (fmt(cargs[1])[:40], fmt(cargs[0])[:60]))
        return out
    if callee in ('core::slice::<impl [T]>::chunks', 'core::slice::<impl [T]>::chunks_exact', 'core::slice::<impl [T]>::windows',
                  'core::slice::<impl [T]>::chunks_mut', 'core::slice::<impl [T]>::chunks_exact_mut', 'core::slice::<impl [T]>::rchunks'):
        # these panic exactly when the chunk size is zero
        n = L.lin(cargs[1]) if len(cargs) > 1 else None
        ob(n is not None and L.prove(cs, [n - Lin.const(1)]), 'index', '%s(%s) with a non-zero size' % (callee.rsplit('::', 1)[-1], fmt(cargs[1])[:30] if len(cargs) > 1 else '?'))
        return out
    if callee in SM.PANICKY_STD:
        ob(not L.feasible(cs), 'undecided', 'call to %s, which panics on some inputs and is not modelled' % callee)
        return out
    if callee in pv.crate.fns and not pv.skip_callee(callee):
        cf = pv.crate.fns[callee]
        m = {i + 1: a for i, a in enumerate(cargs)}
        out.extend(analyse(pv, cf, m, cs, fs, depth + 1, chain, root, L))
        return out
    # closures handed to std combinators run inside them
    for a in cargs:
        for x in walk(a):
            if x[0] == 'closure' and x[1] in pv.crate.fns:
                # the closure sees its captures as fields of its first parameter: hand them over, so that facts the caller has established
                # about the captured values carry into the body; `cond.then(|| ..)` runs the body only when cond holds
                env = ('agg', 'closure-env', tuple((str(i), c_) for i, c_ in enumerate(x[2])))
                cs2 = cs
                if callee.rsplit('::', 1)[-1] == 'then' and 'bool' in callee and len(cargs) == 2:
                    bc = bool_constraints(L, cargs[0], 1)
                    if bc is not None:
                        cs2 = list(cs) + bc
                out.extend(analyse(pv, pv.crate.fns[x[1]], {1: env}, cs2, fs, depth + 1, chain, root, L))
    c = t.get('callee') or {}
    if c.get('is_trait_method') and not c.get('resolved') and not callee.startswith(('std::', 'core::', 'alloc::')):
        pv.opaque_user.add(callee)
    elif c.get('is_trait_method') and not c.get('resolved') and callee in ('std::convert::AsRef::as_ref',):
        pv.opaque_user.add(callee)
    else:
        pv.assumed_total.add(callee)
    return out
