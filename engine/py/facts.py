"""Facts loader: MIR functions, CFG relations, reaching definitions over access paths.

Everything here is computed from the JSON written by engine/mirdump for the
*current* /repo tree.  Nothing of /repo is executed.
"""
import json, glob, os, re
from collections import defaultdict


class Crate:
    def __init__(self, d, file):
        self.file = file
        self.name = d['crate']
        self.kind = d.get('crate_type', '')
        self.fns = {}
        self.fn_list = []
        for f in d['fns']:
            fn = Fn(f, self)
            self.fn_list.append(fn)
            # closures share def_path_str prefixes but have unique paths
            self.fns.setdefault(fn.path, fn)
        self.consts = {c['path']: c for c in d.get('consts', [])}
        self.adts = {a['path']: a for a in d.get('adts', [])}
        self.impls = d.get('impls', [])
        self.statics = d.get('statics', [])
        self.unsafe = d.get('unsafe', [])

    def find(self, pred):
        return [f for f in self.fn_list if pred(f)]

    def mods(self, path, ai, _stack=()):
        """frame condition of a local function for its `&mut` argument number ai (0-based): the set of first-level fields of the
        referent that the call may modify, or None when unknown (whole-value writes, escapes, recursion, non-local callees)"""
        key = (path, ai)
        cache = self.__dict__.setdefault('_mods', {})
        if key in cache:
            return cache[key]
        g = self.fns.get(path)
        if g is None or key in _stack or ai >= g.arg_count or g.kind not in ('Fn', 'AssocFn'):
            return None
        p = ai + 1
        # the parameter must itself be a `&mut T` (a generic `W` instantiated with a reference is opaque here), and a returned
        # borrow (any lifetime in the return type) may be used by the caller to write later
        if not is_mut_ref(g.local_ty(p)) or "'" in g.local_ty(0) or '&' in g.local_ty(0):
            cache[key] = None
            return None
        out = set()
        res = out
        for (bid, idx, tgt, kind, extra) in g.raw_defs():
            if not tgt or tgt[0] != p:
                continue
            if len(tgt) >= 2:
                out.add(tgt[1])
                continue
            if kind == 'mutborrow':
                t = g.blocks[bid]['term']
                sub = self.mods(g.callee(t), extra['arg'], _stack + (key,)) if g.callee(t) in self.fns else None
                if sub is None:
                    res = None
                    break
                out |= set(sub)
            else:
                res = None
                break
        cache[key] = frozenset(out) if res is not None else None
        return cache[key]

    def fn(self, path):
        return self.fns.get(path)

    def by_suffix(self, suffix):
        return [f for f in self.fn_list if f.path.endswith(suffix)]

    def const_scalar(self, path):
        c = self.consts.get(path)
        if c is None:
            return None
        v = c.get('value')
        if isinstance(v, str):
            return int(v, 16)
        return None

    def const_bytes(self, path):
        c = self.consts.get(path)
        if c is None:
            return None
        v = c.get('value')
        if isinstance(v, dict) and 'bytes' in v:
            return bytes.fromhex(v['bytes'])
        return None


def load_dir(d):
    """returns dict role -> Crate; roles: lib, bin, build, bench"""
    out = {}
    for f in sorted(glob.glob(os.path.join(d, '*.json'))):
        base = os.path.basename(f)
        if base == 'meta.json':
            continue
        data = json.load(open(f))
        role = None
        if base.startswith('build_script_build-'):
            role = 'build'
        elif base.startswith('fst-Rlib'):
            role = 'lib'
        elif base.startswith('fst-Executable'):
            role = 'bin'
        elif base.startswith('fst_bench'):
            role = 'bench'
        elif base.startswith('posctl'):
            role = 'posctl'
        else:
            role = base
        data['crate_type'] = role
        import canon
        ty_aliases = canon.apply_type_aliases(data, role)
        aliases = canon.apply(data, role)
        fn_aliases = canon.apply_fn_aliases(data, role)
        import inline
        inlined = inline.inline_new_helpers(data, canon.reference_fn_paths(role)) if role in ('lib', 'bin') else {}
        out[role] = Crate(data, f)
        out[role].inlined_helpers = inlined
        out[role].field_aliases = aliases
        out[role].fn_aliases = fn_aliases
        out[role].type_aliases = ty_aliases
        out[role].ref_consts = canon.reference_consts(role)
    return out


# ---------------------------------------------------------------------------

_MUTREF = re.compile(r"^&('[^ ]+ )?mut ")


def is_mut_ref(ty):
    return bool(_MUTREF.match(ty))


def op_place(op):
    if not isinstance(op, dict):
        return None
    return op.get('copy') or op.get('move')


class Def:
    __slots__ = ('id', 'bid', 'idx', 'target', 'kind', 'strong', 'extra')

    def __init__(self, id, bid, idx, target, kind, strong=True, extra=None):
        self.id = id; self.bid = bid; self.idx = idx; self.target = target
        self.kind = kind; self.strong = strong; self.extra = extra

    def __repr__(self):
        return f"Def#{self.id}({self.kind}@bb{self.bid}[{self.idx}] -> {self.target})"


_REF_ACCESSORS = ('as_mut', 'as_ref', 'as_deref_mut', 'as_deref', 'unwrap', 'expect', 'unwrap_unchecked')


class Fn:
    def __init__(self, d, crate=None):
        self.d = d
        self.crate = crate
        self.path = d['path']
        self.kind = d.get('def_kind')
        self.span = d.get('span')
        self.from_expansion = d.get('from_expansion', False)
        self.arg_count = d.get('arg_count', 0)
        self.impl = d.get('impl')
        self.vis = d.get('vis')
        self.parent = d.get('parent')
        self.preds = d.get('preds', [])
        self.unsafe_fn = d.get('unsafe_fn', False)
        self.blocks = {b['id']: b for b in d['blocks']}
        self.locals = {l['id']: l for l in d['locals']}
        self.promoted = {p['index']: p for p in d.get('promoted', [])}
        self._succ = defaultdict(list)
        self._succ_all = defaultdict(list)
        self._pred = defaultdict(list)
        for b in d['blocks']:
            t = b['term']
            if not t:
                continue
            k = t['k']
            outs = []
            unw = []
            if k == 'goto':
                outs = [t['target']]
            elif k == 'switch':
                outs = [x[1] for x in t['targets']] + [t['otherwise']]
            elif k == 'call':
                if t['target'] is not None:
                    outs = [t['target']]
                if t.get('unwind') is not None:
                    unw = [t['unwind']]
            elif k in ('assert', 'drop'):
                outs = [t['target']]
                if t.get('unwind') is not None:
                    unw = [t['unwind']]
            seen = set()
            for o in outs:
                if o in seen:
                    continue
                seen.add(o)
                self._succ[b['id']].append(o)
                self._pred[o].append(b['id'])
            self._succ_all[b['id']] = list(self._succ[b['id']]) + [u for u in unw if u not in seen]
        self._dom = None
        self._pdom = None
        self._rd = None
        self._refmap = None
        self._defs = None

    # ----- basic helpers ---------------------------------------------------
    @property
    def name(self):
        return self.path

    def local_name(self, l):
        d = self.locals.get(l)
        return (d and d.get('name')) or f"_{l}"

    def local_ty(self, l):
        d = self.locals.get(l)
        return d['ty'] if d else '?'

    def succ(self, bid):
        return self._succ[bid]

    def pred(self, bid):
        return self._pred[bid]

    def normal_blocks(self):
        return [b for b in self.blocks.values() if not b['cleanup']]

    def term(self, bid):
        return self.blocks[bid]['term']

    def calls(self, include_cleanup=False):
        """yield (bid, term) for every call terminator"""
        for bid, b in self.blocks.items():
            if b['cleanup'] and not include_cleanup:
                continue
            t = b['term']
            if t and t['k'] == 'call':
                yield bid, t

    @staticmethod
    def callee(t):
        c = t.get('callee')
        if not c:
            return None
        return c.get('resolved') or c['path']

    @staticmethod
    def callee_decl(t):
        c = t.get('callee')
        return c['path'] if c else None

    def line_of(self, bid, idx=None):
        b = self.blocks[bid]
        if idx is not None and idx != 'T' and idx < len(b['stmts']):
            return b['stmts'][idx].get('line')
        t = b['term']
        if t and t.get('span'):
            return t['span']
        return None

    def file(self):
        return (self.span or '').rsplit(':', 1)[0]

    def at(self, bid, idx=None):
        l = self.line_of(bid, idx)
        if isinstance(l, int):
            return f"{self.file()}:{l}"
        return l or self.span

    def places(self, include_cleanup=False):
        """every place mentioned in the body: yields (bid, idx, place, how) with how in
        'store' | 'read' | 'ref' | 'refmut' | 'arg' | 'dest' | 'drop' | 'discr'"""
        def ops(o):
            p = op_place(o)
            if p is not None:
                yield p
        for bid, b in self.blocks.items():
            if b['cleanup'] and not include_cleanup:
                continue
            for i, st in enumerate(b['stmts']):
                if st['k'] == 'assign':
                    yield bid, i, st['place'], 'store'
                    rv = st['rv']
                    for k in ('use', 'a', 'b', 'repeat'):
                        if k in rv and isinstance(rv[k], dict):
                            for p in ops(rv[k]):
                                yield bid, i, p, 'read'
                    if 'ref' in rv:
                        yield bid, i, rv['ref'], 'refmut' if rv.get('mut') else 'ref'
                    if 'raw_ptr' in rv:
                        yield bid, i, rv['raw_ptr'], 'refmut'
                    if 'discr' in rv:
                        yield bid, i, rv['discr'], 'discr'
                    for o in rv.get('ops', []):
                        for p in ops(o):
                            yield bid, i, p, 'read'
                elif st['k'] == 'set_discr':
                    yield bid, i, st['place'], 'store'
            t = b['term']
            if not t:
                continue
            if t['k'] == 'call':
                for a in t['args']:
                    for p in ops(a):
                        yield bid, 'T', p, 'arg'
                yield bid, 'T', t['dest'], 'dest'
            elif t['k'] == 'switch':
                for p in ops(t['discr']):
                    yield bid, 'T', p, 'read'
            elif t['k'] == 'assert':
                for p in ops(t['cond']):
                    yield bid, 'T', p, 'read'
            elif t['k'] == 'drop':
                yield bid, 'T', t['place'], 'drop'

    def field_accesses(self, adt, field):
        """places projecting field `field` of ADT `adt`"""
        for bid, idx, p, how in self.places():
            for pr in p['proj']:
                if isinstance(pr, dict) and pr.get('name') == field and pr.get('of') == adt:
                    yield bid, idx, p, how
                    break

    # ----- reachability / dominance ---------------------------------------
    def reachable(self, start=0, avoid=()):
        seen = set()
        work = [start]
        avoid = set(avoid)
        while work:
            b = work.pop()
            if b in seen or b in avoid:
                continue
            seen.add(b)
            work.extend(self._succ[b])
        return seen

    def dominators(self):
        if self._dom is not None:
            return self._dom
        nodes = sorted(self.reachable(0))
        allset = set(nodes)
        dom = {n: set(allset) for n in nodes}
        dom[0] = {0}
        changed = True
        while changed:
            changed = False
            for n in nodes:
                if n == 0:
                    continue
                ps = [p for p in self._pred[n] if p in allset]
                if ps:
                    new = set.intersection(*[dom[p] for p in ps]) | {n}
                else:
                    new = {n}
                if new != dom[n]:
                    dom[n] = new
                    changed = True
        self._dom = dom
        return dom

    def dominates(self, a, b):
        d = self.dominators()
        return b in d and a in d[b]

    def return_blocks(self):
        return [bid for bid, b in self.blocks.items() if b['term'] and b['term']['k'] == 'return']

    def postdominators(self):
        """post-dominators w.r.t. normal Return exits (panics/unwinds ignored)"""
        if self._pdom is not None:
            return self._pdom
        nodes = sorted(self.reachable(0))
        allset = set(nodes)
        rets = [r for r in self.return_blocks() if r in allset]
        pd = {n: set(allset) for n in nodes}
        for r in rets:
            pd[r] = {r}
        changed = True
        while changed:
            changed = False
            for n in nodes:
                if n in rets:
                    continue
                ss = [s for s in self._succ[n] if s in allset]
                if ss:
                    new = set.intersection(*[pd[s] for s in ss]) | {n}
                else:
                    # diverging block (panic / unreachable): vacuous
                    new = set(allset)
                if new != pd[n]:
                    pd[n] = new
                    changed = True
        self._pdom = pd
        return pd

    def back_edges(self):
        dom = self.dominators()
        out = []
        for n in dom:
            for s in self._succ[n]:
                if s in dom[n]:
                    out.append((n, s))
        return out

    def loops(self):
        """natural loops: header -> set(blocks)"""
        res = defaultdict(set)
        for (n, h) in self.back_edges():
            body = {h, n}
            work = [n]
            while work:
                x = work.pop()
                if x == h:
                    continue
                for p in self._pred[x]:
                    if p not in body:
                        body.add(p)
                        work.append(p)
            res[h] |= body
        return dict(res)

    def loop_havoc(self):
        """header -> [(target loc, [tracked locs it covers])] for every location defined inside the loop"""
        if getattr(self, '_havoc', None) is not None:
            return self._havoc
        self.reaching()
        res = {}
        for h, body in self.loops().items():
            targets = {}
            for d in self.defs():
                if d.kind != 'entry' and d.bid in body:
                    strong_on, weak_on = self._eff[d.id]
                    cover = set(strong_on) | set(weak_on)
                    targets.setdefault(d.target, set()).update(cover)
            res[h] = [(T, sorted(c, key=lambda x: (len(x), str(x)))) for T, c in sorted(targets.items(), key=lambda x: (len(x[0]), str(x[0])))]
        self._havoc = res
        return res

    def can_reach(self, a, b, avoid=()):
        """is there a normal-edge path a ->* b (length>=0) avoiding blocks in `avoid`"""
        return b in self.reachable(a, avoid)

    # ----- access paths ----------------------------------------------------
    def refmap(self):
        """locals that are single-assignment references to a place: local -> loc"""
        if self._refmap is not None:
            return self._refmap
        ndefs = defaultdict(int)
        rv_of = {}
        opt_of, unwrap_of = {}, {}
        for bid, b in self.blocks.items():
            for i, st in enumerate(b['stmts']):
                if st['k'] == 'assign' and not st['place']['proj']:
                    l = st['place']['local']
                    ndefs[l] += 1
                    rv_of[l] = st['rv']
            t = b['term']
            if t and t['k'] == 'call' and not t['dest']['proj']:
                ndefs[t['dest']['local']] += 2  # calls never alias-resolve as such ...
                c = self.callee(t) or ''
                a0 = op_place(t['args'][0]) if t['args'] else None
                m = c.rsplit('::', 1)[-1]
                if c.startswith('std::option::Option::<') and a0 is not None and not a0['proj']:
                    # ... except the plumbing of Option<&mut T>: `self.last.as_mut()` is an Option holding a reference to the payload of
                    # self.last; `.unwrap()` / `let Some(r) = ..` of that Option is this reference
                    if m in ('as_mut', 'as_ref'):
                        opt_of[t['dest']['local']] = a0['local']
                    elif m in ('unwrap', 'expect', 'unwrap_unchecked'):
                        unwrap_of[t['dest']['local']] = a0['local']
        for l in range(1, self.arg_count + 1):
            ndefs[l] += 2
        rm = {}
        changed = True
        rounds = 0
        while changed and rounds < 20:
            changed = False
            rounds += 1
            for l, rv in rv_of.items():
                if ndefs[l] != 1 or l in rm:
                    continue
                tgt = None
                if 'ref' in rv:
                    tgt = self._loc_raw(rv['ref'], rm)
                elif 'raw_ptr' in rv:
                    tgt = self._loc_raw(rv['raw_ptr'], rm)
                elif 'use' in rv:
                    p = op_place(rv['use'])
                    if p is not None and not p['proj'] and p['local'] in rm:
                        tgt = rm[p['local']]
                    elif p is not None and p['local'] in opt_of and opt_of[p['local']] in rm and self._is_ref_ty(l) and \
                            all(isinstance(x, dict) and ('downcast' in x or 'field' in x) for x in p['proj']) and p['proj']:
                        tgt = rm[opt_of[p['local']]] + ('@Some', '0')       # `let Some(r) = place.as_mut()`
                elif 'cast' in rv:
                    # unsize / reborrow casts of a reference keep the referent
                    p = op_place(rv['a'])
                    if p is not None and not p['proj'] and p['local'] in rm and 'Pointer' in rv['cast']:
                        tgt = rm[p['local']]
                if tgt is not None:
                    rm[l] = tgt
                    changed = True
            for l, o in unwrap_of.items():
                if l not in rm and ndefs[l] == 2 and o in opt_of and opt_of[o] in rm and self._is_ref_ty(l):
                    rm[l] = rm[opt_of[o]] + ('@Some', '0')
                    changed = True
        for l in list(rm):
            n = 0
            while len(rm[l]) == 1 and rm[l][0] in rm and rm[l][0] != l and n < 20:
                rm[l] = rm[rm[l][0]]
                n += 1
        self._refmap = rm
        return rm

    def _is_ref_ty(self, l):
        ty = self.local_ty(l)
        return ty.startswith('&') or ty.startswith('*')

    def _loc_raw(self, place, rm):
        root = place['local']
        loc = (root,)
        for pr in place['proj']:
            if pr == 'deref':
                n = 0
                while len(loc) == 1 and loc[0] in rm and n < 20:
                    loc = rm[loc[0]]
                    n += 1
                if n:
                    pass
                else:
                    # deref of a reference we cannot resolve (param refs, fields holding refs):
                    # the pointee is identified with the reference itself
                    pass
            elif isinstance(pr, dict) and 'field' in pr:
                loc = loc + (pr['name'],)
            elif isinstance(pr, dict) and 'downcast' in pr:
                loc = loc + ('@' + str(pr['downcast']),)
            elif isinstance(pr, dict) and 'index' in pr:
                k = self.const_local(pr['index'])
                loc = loc + (('[%d]' % k) if k is not None else '[]',)
            elif isinstance(pr, dict) and 'const_index' in pr:
                loc = loc + ('[%s%d]' % ('-' if pr.get('from_end') else '', pr['const_index']),)
            elif isinstance(pr, dict) and 'subslice' in pr:
                loc = loc + ('[..]',)
            else:
                loc = loc + ('?',)
        return loc

    def discr_nvariants(self, l):
        """number of variants of the enum whose discriminant local l holds (single `l = discriminant(place)` definition), else None"""
        dn = getattr(self, '_discr_nv', None)
        if dn is None:
            dn = {}
            cnt = defaultdict(int)
            for b in self.blocks.values():
                for st in b['stmts']:
                    if st['k'] == 'assign' and not st['place']['proj']:
                        x = st['place']['local']
                        cnt[x] += 1
                        if 'discr' in st['rv'] and st['rv'].get('nvariants', -1) > 0:
                            dn[x] = st['rv']['nvariants']
            # several assignments are fine as long as all are discriminant reads of the same width
            self._discr_nv = dn
        return dn.get(l)

    def const_local(self, l):
        """value of a local that is assigned exactly once, from an integer constant"""
        cl = getattr(self, '_const_locals', None)
        if cl is None:
            cnt = defaultdict(int)
            val = {}
            for b in self.blocks.values():
                for st in b['stmts']:
                    if st['k'] == 'assign' and not st['place']['proj']:
                        x = st['place']['local']
                        cnt[x] += 1
                        rv = st['rv']
                        if 'use' in rv and 'const' in rv['use'] and rv['use']['const'].get('scalar') is not None:
                            val[x] = int(rv['use']['const']['scalar'], 16)
                        else:
                            val.pop(x, None)
                            cnt[x] += 1
                t = b['term']
                if t and t['k'] == 'call' and not t['dest']['proj']:
                    cnt[t['dest']['local']] += 2
            cl = {x: v for x, v in val.items() if cnt[x] == 1}
            self._const_locals = cl
        return cl.get(l)

    def ref_def_place(self, l):
        """for a single-assignment reference temporary `_l = &P` return P"""
        m = getattr(self, '_refdef', None)
        if m is None:
            m = {}
            cnt = defaultdict(int)
            for b in self.blocks.values():
                for st in b['stmts']:
                    if st['k'] == 'assign' and not st['place']['proj']:
                        x = st['place']['local']
                        cnt[x] += 1
                        if 'ref' in st['rv']:
                            m[x] = st['rv']['ref']
                        elif 'use' in st['rv'] and op_place(st['rv']['use']) is not None and not op_place(st['rv']['use'])['proj']:
                            m[x] = ('alias', op_place(st['rv']['use'])['local'])
            m = {x: v for x, v in m.items() if cnt[x] == 1}
            self._refdef = m
        v = m.get(l)
        n = 0
        while isinstance(v, tuple) and v[0] == 'alias' and n < 10:
            v = m.get(v[1])
            n += 1
        return v if isinstance(v, dict) else None

    def loc(self, place):
        return self._loc_raw(place, self.refmap())

    # ----- definitions ------------------------------------------------------
    def raw_defs(self):
        """[(bid, idx, target loc, kind, extra)] before interprocedural refinement. kinds: assign, setdiscr, mutborrow, call"""
        if getattr(self, '_rawdefs', None) is not None:
            return self._rawdefs
        out = []
        rm = self.refmap()
        for bid, b in sorted(self.blocks.items()):
            for i, st in enumerate(b['stmts']):
                if st['k'] == 'assign':
                    tgt = self.loc(st['place'])
                    if not st['place']['proj'] and st['place']['local'] in rm:
                        continue  # pure alias temp
                    out.append((bid, i, tgt, 'assign', None))
                elif st['k'] == 'set_discr':
                    out.append((bid, i, self.loc(st['place']), 'setdiscr', None))
            t = b['term']
            if t and t['k'] == 'call':
                # every `&mut` argument may modify its referent: a definition of the
                # borrowed place whose value is "after(call, previous value)"
                for ai, a in enumerate(t['args']):
                    p = op_place(a)
                    if p is None or p['proj']:
                        continue
                    l = p['local']
                    if not is_mut_ref(self.local_ty(l)):
                        continue
                    out.append((bid, 'T', rm.get(l, (l,)), 'mutborrow', {'arg': ai, 'tmp': l}))
                out.append((bid, 'T', self.loc(t['dest']), 'call', None))
        self._rawdefs = out
        return out

    def defs(self):
        """all definition sites. kinds: entry, assign, call, mutborrow, setdiscr.
        A `&mut` argument handed to a LOCAL function whose frame condition is known (Crate.mods) defines only the fields that
        function may modify; otherwise the whole referent."""
        if self._defs is not None:
            return self._defs
        defs = []

        def add(bid, idx, target, kind, strong=True, extra=None):
            d = Def(len(defs), bid, idx, target, kind, strong, extra)
            defs.append(d)
            return d

        def is_strong(tgt):
            return '[]' not in tgt and '[..]' not in tgt and '?' not in tgt
        for l in range(1, self.arg_count + 1):
            add('entry', l, (l,), 'entry')
        for (bid, idx, tgt, kind, extra) in self.raw_defs():
            if kind == 'assign':
                add(bid, idx, tgt, 'assign', is_strong(tgt))
            elif kind == 'setdiscr':
                add(bid, idx, tgt, 'setdiscr', strong=False)
            elif kind == 'mutborrow':
                fields = None
                if self.crate is not None:
                    c = self.callee(self.blocks[bid]['term'])
                    if c in self.crate.fns and c != self.path:
                        fields = self.crate.mods(c, extra['arg'])
                        if fields is not None:
                            # worth refining only when some field of the referent provably stays untouched
                            m = re.match(r"^&('\S+ )?mut ([\w:]+)", self.local_ty(extra['tmp']))
                            adt = self.crate.adts.get(m.group(2)) if m else None
                            allf = {fd['name'] for v in adt['variants'] for fd in v['fields']} if adt and len(adt['variants']) == 1 else None
                            if allf is None or not (set(fields) < allf):
                                fields = None
                if fields is None:
                    add(bid, 'T', tgt, 'mutborrow', is_strong(tgt), extra=extra)
                else:
                    for fld in sorted(fields, key=str):
                        # the callee MAY write the field: a weak update would lose the `after` marker, keep it strong like the whole-value form
                        add(bid, 'T', tuple(tgt) + (fld,), 'mutborrow', is_strong(tgt), extra=extra)
            elif kind == 'call':
                add(bid, 'T', tgt, 'call', '[]' not in tgt)
        self._defs = defs
        return defs

    def tracked_locs(self):
        locs = set()
        for d in self.defs():
            locs.add(d.target)

        def visit_place(p):
            if p is not None:
                locs.add(self.loc(p))

        def visit_op(o):
            visit_place(op_place(o))
        for b in self.blocks.values():
            for st in b['stmts']:
                if st['k'] == 'assign':
                    rv = st['rv']
                    for k in ('use', 'a', 'b'):
                        if k in rv and isinstance(rv[k], dict):
                            visit_op(rv[k])
                    for k in ('ref', 'discr', 'raw_ptr', 'len'):
                        if k in rv and isinstance(rv[k], dict):
                            visit_place(rv[k])
                    if 'repeat' in rv:
                        visit_op(rv['repeat'])
                    for o in rv.get('ops', []):
                        visit_op(o)
            t = b['term']
            if not t:
                continue
            if t['k'] == 'call':
                for a in t['args']:
                    visit_op(a)
            elif t['k'] == 'switch':
                visit_op(t['discr'])
            elif t['k'] == 'assert':
                visit_op(t['cond'])
            elif t['k'] == 'drop':
                visit_place(t['place'])
        # close under prefixes so that projections of tracked values resolve
        for l in list(locs):
            for i in range(1, len(l)):
                locs.add(l[:i])
        return locs

    def reaching(self):
        """IN[bid]: dict loc -> frozenset(def ids)"""
        if self._rd is not None:
            return self._rd
        defs = self.defs()
        locs = sorted(self.tracked_locs(), key=lambda x: (len(x), str(x)))
        by_block = defaultdict(list)
        for d in defs:
            if d.kind != 'entry':
                by_block[d.bid].append(d)
        for v in by_block.values():
            v.sort(key=lambda d: (10**9 if d.idx == 'T' else d.idx))
        # precompute effect of each def on each tracked loc
        eff = {}
        for d in defs:
            strong_on, weak_on = [], []
            T = d.target
            for P in locs:
                if len(T) <= len(P) and P[:len(T)] == T:
                    if d.strong:
                        strong_on.append(P)
                    else:
                        weak_on.append(P)
                elif len(P) < len(T) and T[:len(P)] == P:
                    weak_on.append(P)
            eff[d.id] = (strong_on, weak_on)
        self._eff = eff
        self._by_block = by_block
        entry_state = {}
        for d in defs:
            if d.kind == 'entry':
                for P in eff[d.id][0]:
                    entry_state[P] = frozenset([d.id])
        IN = {bid: None for bid in self.blocks}
        IN[0] = entry_state
        work = [0]
        while work:
            bid = work.pop()
            cur = dict(IN[bid])
            for d in by_block.get(bid, []):
                self._apply(cur, d)
            for s in self._succ_all[bid]:
                old = IN[s]
                if old is None:
                    IN[s] = dict(cur)
                    work.append(s)
                else:
                    changed = False
                    for P, ds in cur.items():
                        o = old.get(P)
                        if o is None:
                            old[P] = ds
                            changed = True
                        elif not ds <= o:
                            old[P] = o | ds
                            changed = True
                    if changed:
                        work.append(s)
        self._rd = IN
        return IN

    def _apply(self, cur, d):
        strong_on, weak_on = self._eff[d.id]
        one = frozenset([d.id])
        for P in strong_on:
            cur[P] = one
        for P in weak_on:
            cur[P] = cur.get(P, frozenset()) | one

    def defs_at(self, loc, bid, idx):
        """definitions of `loc` reaching the program point just before statement idx
        ('T' = before the terminator) of block bid"""
        IN = self.reaching()
        st = IN.get(bid)
        if st is None:
            return frozenset()
        cur = None
        lim = 10**9 if idx == 'T' else idx
        touched = False
        for d in self._by_block.get(bid, []):
            di = 10**9 if d.idx == 'T' else d.idx
            if di >= lim:
                break
            if not touched:
                cur = dict(st)
                touched = True
            self._apply(cur, d)
        if cur is None:
            cur = st
        if loc in cur:
            return cur[loc]
        # untracked loc: derive from the longest tracked prefix
        for i in range(len(loc) - 1, 0, -1):
            if loc[:i] in cur:
                return cur[loc[:i]]
        return frozenset()
