"""Algebra of the std Option / Result / ControlFlow plumbing.

Rust offers many spellings of "is it there" and "give me the payload" (match, if let, `?`, ok_or(..)?, is_some(), map(..), as_ref(),
unwrap(), matches!, !).  Rules that ask WHICH condition guards a path or WHICH value flows somewhere must not depend on the spelling,
so decisions and values are brought to one canonical form here:

  canon_decision(e, val) -> (e', val')   with e' = ('discr', X) over the innermost Option/Result X where possible
                                          (Option: None=0 / Some=1, Result: Ok=0 / Err=1, as rustc numbers them)
  canon_value(e)         -> e'           with the success payload of X written ('okof', X)

Only total, side-effect free std functions are rewritten; everything else is left alone.
"""
from sym import map_children

# callee suffix -> kind
_OPT_TRANSPARENT = ('Option::<T>::as_ref', 'Option::<T>::as_mut', 'Option::<T>::as_deref', 'Option::<T>::as_deref_mut',
                    'Option::<&T>::cloned', 'Option::<&T>::copied', 'Option::<&mut T>::cloned', 'Option::<&mut T>::copied',
                    'Option::<T>::map', 'Option::<T>::inspect')
_RES_TRANSPARENT = ('Result::<T, E>::as_ref', 'Result::<T, E>::as_mut', 'Result::<T, E>::map', 'Result::<T, E>::map_err',
                    'Result::<T, E>::inspect', 'Result::<T, E>::inspect_err')
_OPT_TO_RES = ('Option::<T>::ok_or', 'Option::<T>::ok_or_else')
_RES_TO_OPT = ('Result::<T, E>::ok',)
_PAYLOAD_KEEP = ('Option::<T>::as_ref', 'Option::<T>::as_mut', 'Option::<&T>::cloned', 'Option::<&T>::copied', 'Option::<&mut T>::cloned',
                 'Option::<&mut T>::copied', 'Result::<T, E>::as_ref', 'Result::<T, E>::as_mut', 'Result::<T, E>::map_err',
                 'Option::<T>::ok_or', 'Option::<T>::ok_or_else', 'Result::<T, E>::ok', 'Option::<T>::inspect', 'Result::<T, E>::inspect',
                 'Result::<T, E>::inspect_err')
_UNWRAP = ('Option::<T>::unwrap', 'Option::<T>::expect', 'Result::<T, E>::unwrap', 'Result::<T, E>::expect', 'Option::<T>::unwrap_unchecked')


def _is(e, suffixes):
    return isinstance(e, tuple) and e[0] == 'call' and isinstance(e[1], str) and e[1].endswith(suffixes)


def _kind(e):
    """'opt' / 'res' / None for the type a recognised plumbing call RETURNS"""
    if _is(e, _OPT_TRANSPARENT) or _is(e, _RES_TO_OPT):
        return 'opt'
    if _is(e, _RES_TRANSPARENT) or _is(e, _OPT_TO_RES):
        return 'res'
    return None


def canon_discr(x, val):
    """decision `discr(x) == val` pushed through the plumbing"""
    while True:
        if isinstance(val, tuple):
            return ('discr', x), val
        if _is(x, _OPT_TRANSPARENT) or _is(x, _RES_TRANSPARENT):
            x = x[2][0]
            continue
        if _is(x, _OPT_TO_RES):           # Ok(0) <=> Some(1)
            x, val = x[2][0], 1 - val
            continue
        if _is(x, _RES_TO_OPT):           # Some(1) <=> Ok(0)
            x, val = x[2][0], 1 - val
            continue
        if _is(x, ('Try>::branch', 'Try::branch')):
            inner = x[2][0]
            if x[1].startswith('<std::option::Option') or _kind(inner) == 'opt':
                x, val = inner, 1 - val   # Continue(0) <=> Some(1)
                continue
            if x[1].startswith('<std::result::Result') or _kind(inner) == 'res':
                x = inner                 # Continue(0) <=> Ok(0)
                continue
        return ('discr', x), val


def canon_decision(e, val):
    if not isinstance(e, tuple):
        return e, val
    if isinstance(val, tuple) and val and val[0] == 'not' and len(val[1]) == 1 and val[1][0] in (0, 1) and e[0] == 'discr' and _two_valued(e[1]):
        val = 1 - val[1][0]
    while e[0] == 'un' and e[1] == 'Not' and val in (0, 1):
        e, val = e[2], 1 - val
    if e[0] == 'discr':
        return canon_discr(e[1], val)
    if val in (0, 1):
        if _is(e, ('Option::<T>::is_some',)):
            return canon_discr(e[2][0], val)
        if _is(e, ('Option::<T>::is_none',)):
            return canon_discr(e[2][0], 1 - val)
        if _is(e, ('Result::<T, E>::is_ok',)):
            return canon_discr(e[2][0], 1 - val)
        if _is(e, ('Result::<T, E>::is_err',)):
            return canon_discr(e[2][0], val)
    return e, val


def _two_valued(x):
    """is x known to be an Option / Result (two variants), so that `not 0` means 1"""
    return _kind(x) is not None or _is(x, ('Try>::branch', 'Try::branch'))


def canon_value(e):
    if not isinstance(e, tuple):
        return e
    e = map_children(e, canon_value)
    h = e[0]
    if h == 'field' and e[2] == '0' and e[1][0] == 'variant' and e[1][2] in ('Some', 'Ok'):
        return _okof(e[1][1])
    if h == 'okof':
        return _okof(e[1])
    if _is(e, _UNWRAP):
        return _okof(e[2][0])
    return e


def _okof(x):
    while _is(x, _PAYLOAD_KEEP):
        x = x[2][0]
    if x[0] == 'agg' and x[1].endswith(('Option::Some', 'Result::Ok')) and x[2]:
        return x[2][0][1]
    return ('okof', x)
