"""A1: call graph over one crate's facts with resolved callees, closures and trait dispatch."""
from collections import defaultdict


class CallGraph:
    def __init__(self, crate):
        self.crate = crate
        self.edges = defaultdict(set)      # fn path -> set of callee paths (local or external)
        self.sites = defaultdict(list)     # fn path -> [(bid, term, callee path)]
        self.rev = defaultdict(set)
        self.trait_impls = defaultdict(set)  # trait method decl path -> impl fn paths (local)
        for f in crate.fn_list:
            if f.impl and f.impl.get('trait_path'):
                mname = f.path.rsplit('::', 1)[-1]
                self.trait_impls[f.impl['trait_path'] + '::' + mname].add(f.path)
        for f in crate.fn_list:
            for bid, t in f.calls(include_cleanup=False):
                c = t.get('callee')
                if not c:
                    continue
                tgt = c.get('resolved') or c['path']
                self.sites[f.path].append((bid, t, tgt))
                self._add(f.path, tgt)
                if not c.get('resolved') and c.get('is_trait_method'):
                    # unresolved trait call (type parameter or dyn): may reach any local impl
                    for imp in self.trait_impls.get(c['path'], ()):
                        self._add(f.path, imp)
            # closures are entered where they are created / passed on
            for b in f.blocks.values():
                if b['cleanup']:
                    continue
                for st in b['stmts']:
                    if st['k'] == 'assign':
                        rv = st['rv']
                        ag = rv.get('agg') if isinstance(rv, dict) else None
                        if isinstance(ag, dict) and 'closure' in ag:
                            self._add(f.path, ag['closure'])
                        # function items used as values
                        for o in ([rv.get('use')] if 'use' in rv else []) + list(rv.get('ops', [])):
                            if isinstance(o, dict) and 'const' in o and o['const'].get('fn'):
                                self._add(f.path, o['const']['fn'])
                t = b['term']
                if t and t['k'] == 'call':
                    for a in t['args']:
                        if isinstance(a, dict) and 'const' in a and a['const'].get('fn'):
                            self._add(f.path, a['const']['fn'])

    def _add(self, a, b):
        self.edges[a].add(b)
        self.rev[b].add(a)

    def is_local(self, path):
        return path in self.crate.fns

    def reachable(self, roots, stop=()):
        """local + external paths reachable from the given local fn paths; `stop` paths are not expanded"""
        seen = set()
        work = list(roots)
        stop = set(stop)
        while work:
            p = work.pop()
            if p in seen:
                continue
            seen.add(p)
            if p in stop:
                continue
            for q in self.edges.get(p, ()):
                if q not in seen:
                    work.append(q)
        return seen

    def path_to(self, roots, pred, stop=()):
        """shortest call chain from a root to a path satisfying pred; returns list or None"""
        from collections import deque
        stop = set(stop)
        q = deque([(r, [r]) for r in roots])
        seen = set(roots)
        while q:
            p, chain = q.popleft()
            if pred(p) and len(chain) > 0 and (p not in roots or len(chain) > 1 or pred(p)):
                if pred(p):
                    return chain
            if p in stop:
                continue
            for nx in sorted(self.edges.get(p, ())):
                if nx not in seen:
                    seen.add(nx)
                    q.append((nx, chain + [nx]))
        return None

    def callers_of(self, pred):
        out = []
        for fpath, sites in self.sites.items():
            for bid, t, tgt in sites:
                if pred(tgt, t):
                    out.append((self.crate.fns[fpath], bid, t, tgt))
        return out
