"""Check context: facts access, rule bookkeeping (instances, floors, violations), evidence."""
import json, os, time
import dump, facts


class DumpError(Exception):
    pass


class Ctx:
    def __init__(self, pid, tier, repo, verif):
        self.pid = pid
        self.tier = tier
        self.repo = repo
        self.verif = verif
        self.rules = {}
        self.violations = []
        self.samples = []
        self.crates = {}
        self.alt = {}
        self.fixture = None
        self.meta = {}
        self.notes = []
        self.counters = {}

    # ---- facts ---------------------------------------------------------------
    def load(self, selections=('ws',), need_fixture=False):
        for sel in selections:
            d, meta = dump.facts_dir(self.repo, sel)
            self.meta[sel] = {k: v for k, v in meta.items() if k != 'log_tail'}
            if not meta.get('ok'):
                raise DumpError('cargo check failed for selection %s:\n%s' % (sel, meta.get('log_tail', '')))
            crates = facts.load_dir(d)
            if sel == 'ws':
                self.crates = crates
            else:
                self.alt[sel] = crates
        for role in ('lib',):
            if 'ws' in selections and role not in self.crates:
                raise DumpError('no facts for the library crate (files: %s)' % self.meta)
        if need_fixture:
            d, meta = dump.fixture_dir('posctl')
            if not meta.get('ok'):
                raise DumpError('fixture crate failed to build:\n' + meta.get('log_tail', ''))
            self.fixture = facts.load_dir(d).get('posctl')
            if self.fixture is None:
                raise DumpError('fixture facts missing')

    @property
    def lib(self):
        return self.crates['lib']

    @property
    def bin(self):
        return self.crates.get('bin')

    @property
    def build(self):
        return self.crates.get('build')

    # ---- rule bookkeeping -----------------------------------------------------
    def rule(self, rid, title, floor=None, why=None):
        r = self.rules.setdefault(rid, {'title': title, 'floor': floor, 'found': 0, 'ok': 0, 'bad': 0, 'why': why})
        r['title'] = title
        if floor is not None:
            r['floor'] = floor
        return rid

    def ok(self, rid, key, detail=None, fn=None, at=None):
        r = self.rules[rid]
        r['found'] += 1
        r['ok'] += 1
        if len([s for s in self.samples if s['rule'] == rid]) < 6:
            s = {'rule': rid, 'instance': key}
            if fn is not None:
                s['fn'] = fn.path if hasattr(fn, 'path') else str(fn)
                s['at'] = at or fn.span if hasattr(fn, 'span') else at
            elif at:
                s['at'] = at
            if detail is not None:
                s['detail'] = detail if isinstance(detail, (str, int, float, list, dict)) else str(detail)
            self.samples.append(s)

    def violation(self, rid, key, msg, fn=None, at=None, kind='violation', detail=None, count_instance=True):
        if rid not in self.rules:
            self.rule(rid, rid)
        r = self.rules[rid]
        if count_instance:
            r['found'] += 1
        r['bad'] += 1
        fpath = fn.path if hasattr(fn, 'path') else (fn if isinstance(fn, str) else None)
        if at is None and hasattr(fn, 'span'):
            at = fn.span
        full_key = '%s|%s|%s' % (rid, fpath or '-', key)
        v = {'rule': rid, 'key': full_key, 'msg': msg, 'fn': fpath, 'at': at, 'kind': kind}
        if detail is not None:
            v['detail'] = detail if isinstance(detail, str) else json.dumps(detail, default=str)[:4000]
        # de-duplicate
        if not any(x['key'] == full_key for x in self.violations):
            self.violations.append(v)

    def check(self, rid, cond, key, msg, fn=None, at=None, detail=None, kind='violation'):
        """record one obligation: discharged if cond else violated"""
        if cond:
            self.ok(rid, key, detail, fn, at)
        else:
            self.violation(rid, key, msg, fn, at, kind=kind, detail=detail)
        return bool(cond)

    def undecided(self, rid, key, msg, fn=None, at=None, detail=None):
        self.violation(rid, key, msg, fn, at, kind='undecided', detail=detail)

    def missing(self, rid, key, msg):
        self.violation(rid, key, msg, kind='anchor-missing', count_instance=False)

    def need_fn(self, rid, crate, path=None, suffix=None, pred=None, what=None):
        """resolve an anchor function or report anchor-missing; returns Fn or None"""
        cands = []
        if path is not None:
            f = crate.fn(path)
            cands = [f] if f else []
        elif suffix is not None:
            cands = crate.by_suffix(suffix)
        elif pred is not None:
            cands = crate.find(pred)
        if len(cands) == 1:
            return cands[0]
        self.missing(rid, 'anchor:' + (what or path or suffix or 'pred'),
                     'cannot resolve anchor %s (%d candidates)' % (what or path or suffix, len(cands)))
        return None

    def step(self, f, *a, **kw):
        """run one rule function; an exception in it is an undecided obligation of that rule family, the other rules still run"""
        import traceback
        try:
            return f(*a, **kw)
        except Exception:
            tb = traceback.format_exc()
            self.violation('ENGINE', 'rule-crash:' + getattr(f, '__name__', '?'),
                           'a rule raised an exception; the analysed code left every shape the rule understands: ' + tb.splitlines()[-1], kind='undecided', detail=tb)
            return None

    def finish_floors(self):
        """a rule that analysed fewer instances than were counted on the pinned tree lost anchors.  When the shortfall is explained by
        anchors reported missing / instances reported undecided for that rule it is part of the same (non-fatal) restructuring notice;
        an UNEXPLAINED shortfall means the rule silently stopped seeing code it used to see and is fatal."""
        for rid, r in self.rules.items():
            if r['floor'] is not None and r['found'] < r['floor']:
                # anchors are shared between the rules of a property (one missing function starves several rules), so any reported
                # missing anchor / undecided instance of this run explains a shortfall
                explained = any(v['kind'] in ('anchor-missing', 'undecided') for v in self.violations)
                self.violation(rid, 'floor', 'only %d instance(s) analysed, %d were counted on the pinned tree: the rule lost its anchors%s' % (
                    r['found'], r['floor'], '' if explained else ' and nothing explains it'),
                    kind='anchor-missing' if explained else 'violation', count_instance=False)

    def count(self, name, n=1):
        self.counters[name] = self.counters.get(name, 0) + n

    def n_obligations(self):
        return sum(r['found'] for r in self.rules.values())

    def n_discharged(self):
        return sum(r['ok'] for r in self.rules.values())

    # ---- evidence -----------------------------------------------------------------
    def evidence(self, mod, seed, wall, nviol):
        level = getattr(mod, 'LEVEL', 'other')
        nob, ndis = self.n_obligations(), self.n_discharged()
        if level == 'proof' and (nviol or ndis != nob):
            level = 'other'
        crates = []
        nfn = 0
        ncalls = 0
        for role, c in self.crates.items():
            crates.append('%s(%s): %d fns' % (c.name, role, len(c.fn_list)))
        for role in getattr(mod, 'ROLES', ['lib']):
            c = self.crates.get(role)
            if c:
                nfn += len(c.fn_list)
                ncalls += sum(1 for f in c.fn_list for _ in f.calls())
        cov = {
            'obligations': nob,
            'discharged': ndis,
            'checker_cmd': './check %s --tier %s' % (self.pid, self.tier),
            'trusted_base': getattr(mod, 'TRUSTED', []) + ['rustc nightly front end + MIR construction', 'engine/mirdump + engine/py analyses'],
            'explanation': getattr(mod, 'EXPLANATION', ''),
            'exhaustive': True,
            'crates_analysed': crates,
            'functions_analysed': nfn,
            'call_sites_analysed': ncalls,
            'rule_instances': {rid: {'found': r['found'], 'floor': r['floor'], 'discharged': r['ok'], 'title': r['title']} for rid, r in sorted(self.rules.items())},
            'samples': self.samples[:40] or [{'note': 'no instance sampled'}],
            'counters': self.counters,
            'facts': self.meta,
            'known_findings_reported': [v['key'] for v in self.violations if v.get('known')],
            'violations_reported': [{'key': v['key'], 'kind': v['kind'], 'at': v.get('at'), 'msg': v['msg']} for v in self.violations if not v.get('known')],
            'notes': self.notes,
            'new_helpers_inlined': {role: getattr(c, 'inlined_helpers', {}) for role, c in self.crates.items() if getattr(c, 'inlined_helpers', {})},
            'type_aliases_applied': {role: getattr(c, 'type_aliases', {}) for role, c in self.crates.items() if getattr(c, 'type_aliases', {})},
            'function_aliases_applied': {role: getattr(c, 'fn_aliases', {}) for role, c in self.crates.items() if getattr(c, 'fn_aliases', {})},
            'field_aliases_applied': {role: getattr(c, 'field_aliases', {}) for role, c in self.crates.items() if getattr(c, 'field_aliases', {})},
        }
        return {
            'property_id': self.pid,
            'tier': self.tier,
            'seed': seed,
            'level': level,
            'coverage': cov,
            'assumptions': getattr(mod, 'ASSUMPTIONS', []),
            'wall_s': wall,
            'violations': nviol,
        }
