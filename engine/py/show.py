"""Developer aid: print the reconstructed view of functions whose path contains a substring.
usage: show.py <role> <substr> [--raw]"""
import sys, json
sys.path.insert(0, __import__('os').path.dirname(__file__))
import dump, facts
from sym import Sym, fmt


def show(fn, raw=False):
    s = Sym(fn)
    print('==', fn.path, fn.span, 'args', [(fn.local_name(i), fn.local_ty(i)) for i in range(1, fn.arg_count + 1)])
    for bid in sorted(fn.blocks):
        b = fn.blocks[bid]
        if b['cleanup']:
            continue
        t = b['term']
        print(f"  bb{bid} -> {fn.succ(bid)}")
        for i, st in enumerate(b['stmts']):
            if st['k'] == 'assign':
                p = st['place']
                loc = fn.loc(p)
                if raw or p['proj'] or p['local'] == 0 or fn.locals[p['local']].get('name'):
                    print(f"     [{i}] {'.'.join(map(str, loc))} <- {fmt(s.rvalue(st['rv'], bid, i))[:300]}")
            elif st['k'] == 'set_discr':
                print(f"     [{i}] setdiscr {fn.loc(st['place'])} = {st['variant']}")
        if not t:
            continue
        k = t['k']
        if k == 'switch':
            print(f"     switch {fmt(s.operand(t['discr'], bid, 'T'))[:300]} -> {t['targets']} else {t['otherwise']}")
        elif k == 'call':
            print(f"     {'.'.join(map(str, fn.loc(t['dest'])))} <- {fmt(s.call_expr(bid))[:400]}   [{t.get('span')}]")
        elif k == 'assert':
            print(f"     assert {fmt(s.operand(t['cond'], bid, 'T'))[:200]} == {t['expected']}  kind={json.dumps(t['kind'])[:80]}")
        elif k == 'drop':
            print(f"     drop {fn.loc(t['place'])} : {t['ty']}")
        elif k == 'return':
            print(f"     return {fmt(s.loc_value((0,), bid, 'T'))[:400]}")
        else:
            print(f"     {k}")


if __name__ == '__main__':
    role, sub = sys.argv[1], sys.argv[2]
    d, m = dump.facts_dir('/repo', 'ws')
    crates = facts.load_dir(d)
    for fn in crates[role].fn_list:
        if sub in fn.path:
            show(fn, '--raw' in sys.argv)
