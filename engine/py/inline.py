"""Undo "Extract Function": private helper functions that do not exist on the reference tree are inlined into their callers at the
level of the MIR facts, before any analysis sees them.

A rule that inspects `Builder::into_inner` (footer writes, checksum, flush) or the seek loop must see the same statements whether or
not a maintainer moved a few of them into a new private `write_footer` / `push_frames` / `drain_equal`.  Reference functions (those
listed in spec/fn_sigs.json, after the alias pass for renames) are never touched, so on the reference tree this pass is the identity.

Inlined: functions and inherent methods (no closures, no trait-impl methods, not from macro expansion) that are new, non-recursive,
called directly (statically resolved) and of moderate size.  The callee's locals, blocks and promoted constants are appended to the
caller with fresh numbers; arguments become assignments; `return` becomes `dest = _0; goto continuation`; unwinding edges join the
call's unwind edge.  A helper whose every use was inlined is dropped from the crate; one that is still referenced (function pointer,
recursion) stays."""
import copy, json, os

MAX_BLOCKS = 400
MAX_ROUNDS = 6


def _remap(x, loff, poff):
    """deep copy with locals and promoted indices shifted"""
    if isinstance(x, dict):
        if 'local' in x and 'proj' in x and isinstance(x['local'], int):
            return {'local': x['local'] + loff, 'proj': [_remap_proj(p, loff, poff) for p in x['proj']]}
        out = {}
        for k, v in x.items():
            if k == 'promoted' and isinstance(v, int):
                out[k] = v + poff
            else:
                out[k] = _remap(v, loff, poff)
        return out
    if isinstance(x, list):
        return [_remap(v, loff, poff) for v in x]
    return x


def _remap_proj(p, loff, poff):
    if isinstance(p, dict) and 'index' in p and isinstance(p['index'], int):
        q = dict(p)
        q['index'] = p['index'] + loff
        return q
    return copy.deepcopy(p)


def _callee_of(t):
    c = t.get('callee') or {}
    return c.get('resolved') or c.get('path')


def _inline_at(caller, bidx, g):
    """inline g at the call terminating caller['blocks'][bidx]"""
    blk = caller['blocks'][bidx]
    t = blk['term']
    loff = len(caller['locals'])
    boff = max(b['id'] for b in caller['blocks']) + 1
    poff = (max([p['index'] for p in caller.get('promoted', [])]) + 1) if caller.get('promoted') else 0
    for l in g['locals']:
        caller['locals'].append({'id': l['id'] + loff, 'ty': l['ty'], 'name': l.get('name')})
    for pr in g.get('promoted', []):
        q = copy.deepcopy(pr)
        q['index'] = pr['index'] + poff
        caller.setdefault('promoted', []).append(q)
    cont, unwind, dest = t.get('target'), t.get('unwind'), t['dest']
    line = None
    for st in blk['stmts'][::-1]:
        line = st.get('line')
        break
    # arguments
    for i, a in enumerate(t['args']):
        blk['stmts'].append({'k': 'assign', 'place': {'local': loff + i + 1, 'proj': []}, 'rv': {'use': copy.deepcopy(a)}, 'line': line, 'exp': False})
    blk['term'] = {'k': 'goto', 'target': boff + g['blocks'][0]['id']}

    def bmap(b):
        return None if b is None else b + boff
    for gb in g['blocks']:
        nb = {'id': gb['id'] + boff, 'cleanup': gb.get('cleanup', False), 'stmts': [_remap(st, loff, poff) for st in gb['stmts']], 'term': None}
        gt = gb['term']
        if gt is None:
            pass
        elif gt['k'] == 'return':
            nb['stmts'].append({'k': 'assign', 'place': copy.deepcopy(dest), 'rv': {'use': {'move': {'local': loff, 'proj': []}}}, 'line': None, 'exp': False})
            nb['term'] = {'k': 'goto', 'target': cont} if cont is not None else {'k': 'unreachable'}
        elif gt['k'] == 'resume':
            nb['term'] = {'k': 'goto', 'target': unwind} if unwind is not None else {'k': 'resume'}
        else:
            nt = _remap(gt, loff, poff)
            for key in ('target', 'otherwise'):
                if key in nt and isinstance(nt[key], int):
                    nt[key] = bmap(nt[key])
            if 'unwind' in nt:
                nt['unwind'] = bmap(nt['unwind']) if isinstance(nt['unwind'], int) else unwind
            if 'targets' in nt:
                nt['targets'] = [[v, bmap(b)] for v, b in nt['targets']]
            nb['term'] = nt
        caller['blocks'].append(nb)


def inline_new_helpers(data, ref_paths):
    """returns {helper path: [callers it was inlined into]}"""
    if ref_paths is None:
        return {}
    by_path = {}
    for f in data['fns']:
        by_path.setdefault(f['path'], f)
    new = {}
    for p, f in by_path.items():
        if p in ref_paths or '{closure' in p or f.get('def_kind') not in ('Fn', 'AssocFn') or f.get('from_expansion'):
            continue
        if (f.get('impl') or {}).get('trait_path') or not f.get('blocks') or len(f['blocks']) > MAX_BLOCKS:
            continue
        if any(b['term'] and b['term']['k'] == 'call' and _callee_of(b['term']) == p for b in f['blocks']):
            continue      # directly recursive
        new[p] = f
    if not new:
        return {}
    done = {}
    pristine = {p: copy.deepcopy(f) for p, f in new.items()}
    for rnd in range(MAX_ROUNDS):
        changed = False
        for caller in data['fns']:
            if len(caller['blocks']) > 4 * MAX_BLOCKS:
                continue
            i = 0
            while i < len(caller['blocks']):
                t = caller['blocks'][i]['term']
                if t and t['k'] == 'call' and not t.get('fn_operand'):
                    c = _callee_of(t)
                    if c in new and c != caller['path']:
                        # always inline the helper as it was written (its own nested helpers are handled when we reach the copies)
                        _inline_at(caller, i, copy.deepcopy(pristine[c]))
                        done.setdefault(c, []).append(caller['path'])
                        changed = True
                i += 1
        if not changed:
            break
    # drop helpers that are no longer referenced anywhere
    for p in list(done):
        still = False
        for f in data['fns']:
            if f['path'] == p:
                continue
            s = json.dumps(f['blocks'])
            if json.dumps(p)[1:-1] in s:
                still = True
                break
        if not still:
            data['fns'] = [f for f in data['fns'] if f['path'] != p]       # its closures (if any) stay: the inlined copies still name them
    return done
