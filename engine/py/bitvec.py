"""A5: bit provenance - symbolic evaluation of small integer expressions over bit vectors."""


def const_bits(v, w):
    return [(v >> i) & 1 for i in range(w)]


def var_bits(name, w):
    return [('v', name, i) for i in range(w)]


def _and(a, b):
    if a == 0 or b == 0:
        return 0
    if a == 1:
        return b
    if b == 1:
        return a
    return a if a == b and a is not None else None


def _or(a, b):
    if a == 1 or b == 1:
        return 1
    if a == 0:
        return b
    if b == 0:
        return a
    return a if a == b and a is not None else None


def _xor(a, b):
    if a == 0:
        return b
    if b == 0:
        return a
    if a in (0, 1) and b in (0, 1):
        return a ^ b
    return None


def ev(e, env, w=8):
    """env: list of (expr, bits).  returns list of w bits or None"""
    for k, v in env:
        if k == e:
            return (list(v) + [0] * w)[:w]
    h = e[0]
    if h == 'const':
        return const_bits(e[1], w)
    if h == 'cast':
        inner_w = {'u8': 8, 'u16': 16, 'u32': 32, 'u64': 64, 'usize': 64, 'bool': 1}.get(e[4] if len(e) > 4 else None, w)
        to_w = {'u8': 8, 'u16': 16, 'u32': 32, 'u64': 64, 'usize': 64}.get(e[2], w)
        b = ev(e[1], env, max(inner_w, 1))
        if b is None:
            return None
        b = (b + [0] * w)[:min(to_w, w)]
        return (b + [0] * w)[:w]
    if h == 'bin':
        op = e[1]
        if op in ('BitAnd', 'BitOr', 'BitXor'):
            a, b = ev(e[2], env, w), ev(e[3], env, w)
            if a is None or b is None:
                return None
            f = {'BitAnd': _and, 'BitOr': _or, 'BitXor': _xor}[op]
            return [f(x, y) for x, y in zip(a, b)]
        if op in ('Shl', 'Shr', 'ShlUnchecked', 'ShrUnchecked') and e[3][0] in ('const', 'cast', 'citem'):
            n = e[3]
            while n[0] == 'cast':
                n = n[1]
            if n[0] == 'citem':
                for k, v in env:
                    if k == n and all(x in (0, 1) for x in v):
                        n = ('const', sum(bit << i for i, bit in enumerate(v)))
            if n[0] != 'const':
                return None
            a = ev(e[2], env, w)
            if a is None:
                return None
            k = n[1]
            if op.startswith('Shl'):
                return ([0] * k + a)[:w]
            return (a[k:] + [0] * k)[:w]
    if h == 'un' and e[1] == 'Not':
        a = ev(e[2], env, w)
        if a is None:
            return None
        return [1 - x if x in (0, 1) else None for x in a]
    return None
