"""Thorough tier: second cfg(feature) variant, compiler cross-checks, canary self-test of the checker."""
import json, os, shutil, subprocess, tempfile, time
from concurrent.futures import ThreadPoolExecutor
import dump

VERIF = dump.VERIF


def compile_crosscheck(repo, flags, features=('levenshtein',)):
    """build the library crate with extra rustc lint levels (pure compilation, nothing is run)"""
    tgt = os.path.join(dump.CACHE, 'tmp-xc-%d' % os.getpid())
    env = dict(os.environ, CARGO_TARGET_DIR=tgt, CARGO_NET_OFFLINE='true')
    cmd = ['cargo', '+nightly', 'rustc', '--offline', '-p', 'fst', '--lib']
    if features:
        cmd += ['--features', ','.join(features)]
    cmd += ['--'] + flags
    try:
        r = subprocess.run(cmd, cwd=repo, env=env, stdout=subprocess.PIPE, stderr=subprocess.STDOUT, text=True)
        return r.returncode == 0, r.stdout[-1500:]
    finally:
        shutil.rmtree(tgt, ignore_errors=True)


def _run_canary(args):
    pid, can, repo = args
    tmp = tempfile.mkdtemp(prefix='fstcan-', dir=dump.CACHE)
    dst = os.path.join(tmp, 'repo')
    try:
        shutil.copytree(repo, dst, ignore=shutil.ignore_patterns('target', '.git', 'data', 'fst-regex', 'fst-levenshtein'))
        if can.get('patch'):
            r = subprocess.run(['patch', '-p1', '-s', '--no-backup-if-mismatch', '-i', os.path.join(VERIF, can['patch'])], cwd=dst, stdout=subprocess.PIPE, stderr=subprocess.STDOUT, text=True)
            if r.returncode != 0:
                return can['name'], 'skipped', 'patch no longer applies'
        for e in can.get('edits', []):
            p = os.path.join(dst, e['path'])
            s = open(p).read() if os.path.exists(p) else ''
            if e['old'] not in s:
                return can['name'], 'skipped', 'edit anchor no longer present in ' + e['path']
            open(p, 'w').write(s.replace(e['old'], e['new'], 1))
        env = dict(os.environ, VERIF_REPO=dst, VERIF_EVIDENCE_DIR=os.path.join(tmp, 'ev'), VERIF_TIER='quick')
        r = subprocess.run([os.path.join(VERIF, 'check'), pid, '--tier', 'quick'], env=env, stdout=subprocess.PIPE, stderr=subprocess.STDOUT, text=True)
        if r.returncode == 2:
            return can['name'], 'skipped', 'mutated tree does not build'
        rules = sorted({l.split()[1] for l in r.stdout.splitlines() if l.startswith('  [')})
        want = can.get('expect_rule')
        if r.returncode == 1 and (want is None or want in rules):
            return can['name'], 'fired', ','.join(rules)
        return can['name'], 'missed', 'expected %s, check reported %s (rc %d)' % (want, rules, r.returncode)
    finally:
        shutil.rmtree(tmp, ignore_errors=True)


def canaries(pid, repo):
    p = os.path.join(VERIF, 'canaries', pid + '.json')
    if not os.path.exists(p):
        return {'run': 0, 'fired': 0, 'skipped': 0, 'missed': []}
    cans = json.load(open(p))
    with ThreadPoolExecutor(max_workers=6) as ex:
        res = list(ex.map(_run_canary, [(pid, c, repo) for c in cans]))
    out = {'run': len(res), 'fired': sum(1 for r in res if r[1] == 'fired'), 'skipped': sum(1 for r in res if r[1] == 'skipped'),
           'missed': [{'canary': r[0], 'why': r[2]} for r in res if r[1] == 'missed'],
           'details': [{'canary': r[0], 'result': r[1], 'rules': r[2]} for r in res]}
    return out
