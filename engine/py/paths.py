"""A6: enumeration of CFG paths under a (partial) assignment of atomic facts.

`explore(fn, oracle)` walks the normal-edge CFG depth first.  At every SwitchInt the discriminant is
reconstructed path-sensitively; if it is a constant (or a discriminant of a known aggregate) the branch is
resolved, otherwise `oracle(expr, ctx)` may return the integer value the discriminant takes under the abstract
case being explored, or None to fork over every target.  Facts assumed for one expression are remembered along
the path, so the same atom never takes two values on one path.
"""
from sym import PathSym, fmt, map_children


def _key(e):
    """expression identity for branch consistency: equal calls with equal arguments (receiver mutations show up as
    ('after', ...) in the arguments) are assumed to return equal values, whatever their call site"""
    if not isinstance(e, tuple):
        return e
    if e[0] == 'call':
        c = e[1]
        if isinstance(c, tuple):
            c = (c[0], _key(c[1]))
        return ('call', c, tuple(_key(a) for a in e[2]), None)
    return map_children(e, _key)

STD_VARIANTS = {
    'std::option::Option': ['None', 'Some'],
    'std::result::Result': ['Ok', 'Err'],
    'std::ops::ControlFlow': ['Continue', 'Break'],
    'std::cmp::Ordering': ['Less', 'Equal', 'Greater'],
}
ORDERING_VALUES = {'Less': (1 << 8) - 1, 'Equal': 0, 'Greater': 1}  # i8 -1 as u8 pattern handled by caller


INT_TYS = ('u8', 'u16', 'u32', 'u64', 'u128', 'usize', 'i8', 'i16', 'i32', 'i64', 'i128', 'isize')


class Path:
    def __init__(self, fn, blocks, end, assumed, decisions, havoc=False):
        self.fn = fn
        self.havoc = havoc
        self.blocks = blocks
        self.end = end            # 'return' | 'diverge' | 'cut'
        self.assumed = assumed    # dict expr -> value or ('not', (values...))
        self.decisions = decisions
        self._sym = None

    @property
    def sym(self):
        if self._sym is None:
            self._sym = PathSym(self.fn, self.blocks, havoc=self.havoc)
        return self._sym

    def calls(self):
        """(k, bid, term) of call terminators executed on this path (the last block's call counts only if it has a target taken)"""
        for k, bid in enumerate(self.blocks):
            t = self.fn.blocks[bid]['term']
            if t and t['k'] == 'call':
                yield k, bid, t

    def stores(self):
        """(k, idx, loc, stmt) for assignments through projections (memory writes) on this path"""
        for k, bid in enumerate(self.blocks):
            for i, st in enumerate(self.fn.blocks[bid]['stmts']):
                if st['k'] == 'assign' and st['place']['proj']:
                    yield k, i, self.fn.loc(st['place']), st

    def cdecisions(self):
        """decisions with the std Option/Result plumbing normalised (see stdalg): [(k, bid, expr', val', how)]"""
        if getattr(self, '_cdec', None) is None:
            import stdalg
            out = []
            for (k, bid, e, val, how) in self.decisions:
                e2, v2 = stdalg.canon_decision(e, val)
                out.append((k, bid, e2, v2, how))
            self._cdec = out
        return self._cdec

    def ret(self):
        return self.sym.ret_value()


def variant_index(crate, adt_name, variant):
    for k, vs in STD_VARIANTS.items():
        if adt_name == k or adt_name.startswith(k + '::') or adt_name.startswith(k + '<'):
            if variant in vs:
                return vs.index(variant)
    if crate is not None:
        a = crate.adts.get(adt_name)
        if a:
            for i, v in enumerate(a['variants']):
                if v['name'] == variant:
                    return i
    return None


def const_discr(fn, e):
    """try to evaluate a switch discriminant expression to an int"""
    if e[0] == 'const':
        return e[1]
    if e[0] == 'discr':
        inner = e[1]
        if inner[0] == 'agg':
            name = inner[1]
            if '::' in name:
                adt, var = name.rsplit('::', 1)
                vi = variant_index(fn.crate, adt, var)
                if vi is not None:
                    return vi
        # `?` on a value whose variant is known (an inlined helper returning Ok(..) / an error built by from_residual)
        if inner[0] == 'call' and isinstance(inner[1], str):
            nm = inner[1]
            if nm.endswith('Try>::branch') or nm.endswith('Try::branch'):
                x = inner[2][0] if inner[2] else None
                k = _known_variant(x)
                if k is not None:
                    return 0 if k == 'success' else 1          # ControlFlow::Continue = 0, Break = 1
            if nm.endswith('::from_residual'):
                if 'result::Result' in nm:
                    return 1                                       # Err
                if 'option::Option' in nm:
                    return 0                                       # None
    return None


def _known_variant(x):
    """'success' / 'failure' for an Option/Result expression whose variant is syntactically known"""
    if not isinstance(x, tuple):
        return None
    if x[0] == 'agg':
        if x[1].endswith(('Result::Ok', 'Option::Some')):
            return 'success'
        if x[1].endswith(('Result::Err', 'Option::None')):
            return 'failure'
    if x[0] == 'call' and isinstance(x[1], str) and x[1].endswith('::from_residual'):
        return 'failure'
    return None


def explore(fn, oracle=None, max_visits=2, limit=5000, start=0, stop_blocks=(), havoc=False):
    """returns list[Path]"""
    out = []
    stop_blocks = set(stop_blocks)

    def rec(blocks, visits, assumed, decisions):
        if len(out) >= limit:
            return
        bid = blocks[-1]
        t = fn.blocks[bid]['term']
        if bid in stop_blocks and len(blocks) > 1:
            out.append(Path(fn, blocks, 'cut', assumed, decisions, havoc))
            return
        k = t['k'] if t else None
        if k == 'return':
            out.append(Path(fn, blocks, 'return', assumed, decisions, havoc))
            return
        succ = fn.succ(bid)
        if not succ:
            out.append(Path(fn, blocks, 'diverge', assumed, decisions, havoc))
            return
        nxt = None
        if k == 'switch':
            ps = PathSym(fn, blocks, havoc=havoc)
            e = ps.operand_at(t['discr'], (len(blocks) - 1, 'T'))
            val = const_discr(fn, e)
            how = 'const'
            ek = _key(e)
            if val is None and ek in assumed:
                a = assumed[ek]
                if not (isinstance(a, tuple) and a and a[0] == 'not'):
                    val = a
                    how = 'assumed'
            if val is None and oracle is not None:
                val = oracle(e, {'fn': fn, 'blocks': blocks, 'sym': ps, 'bid': bid, 'assumed': assumed})
                how = 'oracle'
            targets = t['targets']
            # `match n { 1 => .., n => .. }` on an integer switches on the value itself: present it as the comparison it is
            dp0 = t['discr'].get('copy') or t['discr'].get('move')
            int_switch = dp0 is not None and not dp0['proj'] and fn.local_ty(dp0['local']) in INT_TYS and e[0] not in ('discr', 'const') and len(targets) == 1
            if int_switch and val is None:
                cmpe = ('bin', 'Eq', e, ('const', targets[0][0]))
                ck = _key(cmpe)
                nxt = []
                known = assumed.get(ck)
                for truth, blk in ((1, targets[0][1]), (0, t['otherwise'])):
                    if known is not None and known != truth:
                        continue
                    na = dict(assumed)
                    na[ck] = truth
                    nxt.append((blk, na, decisions + [(len(blocks) - 1, bid, cmpe, truth, 'fork')]))
                for (s_, na, nd) in nxt:
                    c = visits.get(s_, 0)
                    if c >= max_visits:
                        out.append(Path(fn, blocks + [s_], 'cut', na, nd, havoc))
                        continue
                    nv = dict(visits)
                    nv[s_] = c + 1
                    rec(blocks + [s_], nv, na, nd)
                return
            if val is not None:
                tgt = None
                for v, b in targets:
                    if v == val:
                        tgt = b
                if tgt is None:
                    tgt = t['otherwise']
                na = dict(assumed)
                na[ek] = val
                nxt = [(tgt, na, decisions + [(len(blocks) - 1, bid, e, val, how)])]
            else:
                nxt = []
                excluded = ()
                if ek in assumed and isinstance(assumed[ek], tuple) and assumed[ek][0] == 'not':
                    excluded = assumed[ek][1]
                for v, b in targets:
                    if v in excluded:
                        continue
                    na = dict(assumed)
                    na[ek] = v
                    nxt.append((b, na, decisions + [(len(blocks) - 1, bid, e, v, 'fork')]))
                ob = t['otherwise']
                ot = fn.blocks[ob]['term']
                # the otherwise arm of an exhaustive enum match is `unreachable`
                if not (ot and ot['k'] == 'unreachable' and not fn.blocks[ob]['stmts']):
                    na = dict(assumed)
                    dp = t['discr'].get('copy') or t['discr'].get('move')
                    is_bool = dp is not None and not dp['proj'] and fn.local_ty(dp['local']) == 'bool'
                    nv = fn.discr_nvariants(dp['local']) if dp is not None and not dp['proj'] else None
                    seen_vals = tuple(v for v, _ in targets) + tuple(excluded)
                    rest = [v for v in range(nv) if v not in seen_vals] if nv and nv > 0 and all(isinstance(v, int) and 0 <= v < nv for v in seen_vals) else None
                    if is_bool and len(targets) == 1 and targets[0][0] in (0, 1):
                        oval = 1 - targets[0][0]      # the other truth value
                    elif rest is not None and len(rest) == 1:
                        oval = rest[0]                # the one remaining variant of the enum
                    else:
                        oval = ('not', tuple(v for v, _ in targets) + tuple(excluded))
                    na[ek] = oval
                    nxt.append((ob, na, decisions + [(len(blocks) - 1, bid, e, oval, 'fork')]))
        else:
            nxt = [(s, assumed, decisions) for s in succ]
        for (s, na, nd) in nxt:
            c = visits.get(s, 0)
            if c >= max_visits:
                out.append(Path(fn, blocks + [s], 'cut', na, nd, havoc))
                continue
            nv = dict(visits)
            nv[s] = c + 1
            rec(blocks + [s], nv, na, nd)

    rec([start], {start: 1}, {}, [])
    return out
