"""A3: expression reconstruction over access paths; pretty printer; small algebra helpers.

Expression trees are tuples:
  ('param', name, local)            value of a parameter at function entry
  ('const', int) | ('cstr', text) | ('cfn', path) | ('cbytes', hex) | ('citem', path) | ('cpromoted', idx) | ('cother', disp, ty)
  ('field', e, name)   ('variant', e, V)   ('index', e, i)   ('discr', e)   ('len', e)
  ('call', callee_path, (args...), site)        site=(bid) for identification; callee_path = resolved or declared
  ('bin', op, a, b)  ('un', op, a)  ('cast', e, ty)
  ('agg', name, ((field, e)...))  ('tuple', (e...))  ('array', (e...))  ('repeat', e, n)  ('closure', path, (e...))
  ('okof', e)       payload of the Continue arm of `?` applied to e
  ('after', call_expr, argidx, prev)   value of a place after being passed by &mut to a call
  ('phi', loc, (defids...))           several definitions reach
  ('undef', loc)
"""
import json, re
from facts import op_place

MAXDEPTH = 80


def strip_ws(e):
    return e


class Sym:
    """Flow-insensitive view: positions are (bid, idx); several reaching definitions give ('phi', ...)."""

    def __init__(self, fn):
        self.fn = fn
        self.depth = 0
        self._memo = {}
        self._stack = set()

    # -- position abstraction (overridden by PathSym) -------------------------
    def pos(self, bid, idx):
        return (bid, idx)

    def bid_of(self, pos):
        return pos[0]

    def resolve(self, loc, pos):
        """-> list of (Def, pos_of_def)"""
        fn = self.fn
        ds = fn.defs_at(loc, pos[0], pos[1])
        out = []
        for i in sorted(ds):
            d = fn.defs()[i]
            out.append((d, (d.bid, d.idx)))
        return out

    # -- operands -----------------------------------------------------------
    def const(self, c):
        if c.get('fn'):
            return ('cfn', c['fn'])
        if c.get('scalar') is not None:
            return ('const', int(c['scalar'], 16))
        if 'promoted' in c:
            # `&CONST` promoted to a static: _1 = const k; _0 = &_1  (references are transparent here)
            pr = getattr(self.fn, 'promoted', {}).get(c['promoted'])
            if pr and len(pr['blocks']) == 1 and len(pr['blocks'][0]['stmts']) == 2:
                a, b = pr['blocks'][0]['stmts']
                if a['k'] == 'assign' and 'use' in a['rv'] and 'const' in a['rv']['use'] and a['rv']['use']['const'].get('scalar') is not None \
                        and b['k'] == 'assign' and b['place']['local'] == 0 and 'ref' in b['rv'] and b['rv']['ref']['local'] == a['place']['local'] and not b['rv']['ref']['proj']:
                    return ('const', int(a['rv']['use']['const']['scalar'], 16))
                # `&TABLE` (a named constant behind a promoted reference): the item itself
                if a['k'] == 'assign' and 'use' in a['rv'] and 'const' in a['rv']['use'] and a['rv']['use']['const'].get('item') \
                        and b['k'] == 'assign' and b['place']['local'] == 0 and 'ref' in b['rv'] and b['rv']['ref']['local'] == a['place']['local'] and not b['rv']['ref']['proj']:
                    return self.const(a['rv']['use']['const'])
                # `&Ordering::Greater`, `&None`: a reference to a field-less enum variant
                if a['k'] == 'assign' and isinstance(a['rv'].get('agg'), dict) and a['rv']['agg'].get('variant') and not a['rv'].get('ops') \
                        and b['k'] == 'assign' and b['place']['local'] == 0 and 'ref' in b['rv'] and b['rv']['ref']['local'] == a['place']['local'] and not b['rv']['ref']['proj']:
                    return ('agg', '%s::%s' % (a['rv']['agg']['adt'], a['rv']['agg']['variant']), ())
            # `&(a..b)` / `&(a..=b)` with constant ends: a promoted range (`(1..=VERSION).contains(&v)`)
            if pr:
                try:
                    blocks = pr['blocks']
                    t0 = blocks[0].get('term') or {}
                    cal = (t0.get('callee') or {}).get('path', '') if t0.get('k') == 'call' else ''
                    if cal.endswith('RangeInclusive::<Idx>::new') and len(t0['args']) == 2 and all('const' in a for a in t0['args']):
                        lo, hi = (self.const(a['const']) for a in t0['args'])
                        return ('agg', 'std::ops::RangeInclusive', (('start', lo), ('end', hi)))
                    for st in blocks[0]['stmts']:
                        ag = st.get('rv', {}).get('agg') if st['k'] == 'assign' else None
                        if isinstance(ag, dict) and str(ag.get('adt', '')) in ('std::ops::Range', 'std::ops::RangeInclusive') and len(st['rv'].get('ops', [])) == 2 and all('const' in o for o in st['rv']['ops']):
                            lo, hi = (self.const(o['const']) for o in st['rv']['ops'])
                            return ('agg', ag['adt'], (('start', lo), ('end', hi)))
                except (KeyError, IndexError, TypeError):
                    pass
            return ('cpromoted', c['promoted'])
        if 'bytes' in c:
            return ('cbytes', c['bytes'], c.get('ty', ''))
        if 'item' in c:
            # a named constant that did not exist on the reference tree ("name the magic number") is just its value; constants the
            # rules know by name (VERSION, TRANS_INDEX_THRESHOLD, the tables ...) stay symbolic
            cr = getattr(self.fn, 'crate', None)
            rc = getattr(cr, 'ref_consts', None) if cr is not None else None
            if rc is not None and c['item'] not in rc:
                v = cr.const_scalar(c['item'])
                if v is not None:
                    return ('const', v)
            return ('citem', c['item'])
        return ('cother', c.get('disp'), c.get('ty'))

    def operand(self, op, bid, idx):
        return self.operand_at(op, self.pos(bid, idx))

    def operand_at(self, op, pos):
        if 'const' in op:
            return self.const(op['const'])
        p = op_place(op)
        if p is None:
            return ('cother', json.dumps(op)[:60], '?')
        return self.place_at(p, pos)

    def place(self, p, bid, idx):
        return self.place_at(p, self.pos(bid, idx))

    def place_at(self, p, pos):
        proj = p['proj']
        ix = [i for i, pr in enumerate(proj) if isinstance(pr, dict) and 'index' in pr]
        if ix:
            # keep dynamic index expressions: value of the prefix place, then project element by element
            i0 = ix[0]
            base = self.place_at({'local': p['local'], 'proj': proj[:i0]}, pos)
            for pr in proj[i0:]:
                if pr == 'deref':
                    continue
                if isinstance(pr, dict) and 'index' in pr:
                    base = ('index', base, self.loc_value_at((pr['index'],), pos))
                elif isinstance(pr, dict) and 'field' in pr:
                    base = self.proj1(base, pr['name'])
                elif isinstance(pr, dict) and 'downcast' in pr:
                    base = ('variant', base, str(pr['downcast']))
                elif isinstance(pr, dict) and 'const_index' in pr:
                    base = ('index', base, '[%s%d]' % ('-' if pr.get('from_end') else '', pr['const_index']))
                else:
                    base = ('index', base, '[?]')
            return base
        if not proj and p['local'] in self.fn.refmap():
            dp = self.fn.ref_def_place(p['local'])
            if dp is not None and any(isinstance(pr, dict) and 'index' in pr for pr in dp['proj']) and self.fn.const_local(next(pr['index'] for pr in dp['proj'] if isinstance(pr, dict) and 'index' in pr)) is None:
                # a reference to a dynamically indexed element: keep the index expression
                return self.place_at(dp, pos)
        loc = self.fn.loc(p)
        n = 0
        while len(loc) == 1 and loc[0] in self.fn.refmap() and n < 20:
            loc = self.fn.refmap()[loc[0]]   # references are transparent
            n += 1
        return self.loc_value_at(loc, pos)

    def index_operand_at(self, p, pos):
        """for a place containing an Index projection return the (last) index expression"""
        for pr in reversed(p['proj']):
            if isinstance(pr, dict) and 'index' in pr:
                return self.loc_value_at((pr['index'],), pos)
        return None

    # -- locations ------------------------------------------------------------
    def loc_value(self, loc, bid, idx):
        return self.loc_value_at(loc, self.pos(bid, idx))

    def loc_value_at(self, loc, pos):
        n = 0
        rm = self.fn.refmap()
        while len(loc) == 1 and loc[0] in rm and n < 20:
            loc = rm[loc[0]]   # references are transparent
            n += 1
        key = (loc, pos)
        if key in self._memo:
            return self._memo[key]
        if key in self._stack or self.depth > MAXDEPTH:
            return ('phi', loc, ())
        self._stack.add(key)
        self.depth += 1
        try:
            ds = self.resolve(loc, pos)
            if not ds:
                v = ('undef', loc)
            elif len(ds) != 1:
                v = ('phi', loc, tuple(d.id for d, _ in ds))
            else:
                v = self.def_value(ds[0][0], ds[0][1], loc)
        finally:
            self.depth -= 1
            self._stack.discard(key)
        self._memo[key] = v
        return v

    def def_value(self, d, dpos, loc):
        """value that definition d (occurring at dpos) gives to location loc"""
        fn = self.fn
        T = d.target
        if len(T) <= len(loc) and loc[:len(T)] == T:
            rest = loc[len(T):]
        else:
            # partial definition of a prefix location: the whole is not a simple value
            return ('phi', loc, (d.id,))
        if d.kind == 'entry':
            base = ('param', fn.local_name(d.idx), d.idx)
        elif d.kind == 'assign':
            st = fn.blocks[d.bid]['stmts'][d.idx]
            base = self.rvalue_at(st['rv'], dpos)
        elif d.kind == 'call':
            base = self.call_expr_at(dpos)
        elif d.kind == 'mutborrow':
            prev = self.loc_value_at(T, dpos)
            base = ('after', self.call_expr_at(dpos), d.extra['arg'], prev)
        elif d.kind == 'havoc':
            ty = fn.local_ty(T[0]) if len(T) == 1 else None
            base = ('havoc', T, dpos[0], ty)
        else:
            return ('phi', loc, (d.id,))
        return self.project(base, rest)

    def call_expr(self, bid):
        return self.call_expr_at(self.pos(bid, 'T'))

    def call_expr_at(self, pos):
        fn = self.fn
        key = ('call', pos)
        if key in self._memo:
            return self._memo[key]
        bid = self.bid_of(pos)
        t = fn.blocks[bid]['term']
        callee = fn.callee(t)
        if callee is None:
            fo = t.get('fn_operand')
            callee = ('indirect', self.operand_at(fo, pos)) if fo else '?'
        args = tuple(self.operand_at(a, pos) for a in t['args'])
        e = ('call', callee, args, (fn.path, bid))
        if isinstance(callee, str) and len(args) == 1:
            m = _NUM_FROM.match(callee)
            if m:
                # lossless integer conversion spelled as a call: `usize::from(b)`, `u64::from(x)` are the casts `b as usize`, `x as u64`
                e = ('cast', args[0], m.group(2), 'IntToInt', m.group(1))
        self._memo[key] = e
        return e

    def project(self, base, rest):
        for el in rest:
            base = self.proj1(base, el)
        return base

    def proj1(self, base, el):
        h = base[0]
        if el.startswith('@'):
            if h == 'agg' and base[1].rsplit('::', 1)[-1] == el[1:]:
                return base          # (Enum::V { .. } as V) - e.g. the result of an inlined helper returning its own enum
            return ('variant', base, el[1:])
        if h == 'agg':
            for (n, e) in base[2]:
                if n == el:
                    return e
        if h == 'tuple' and el.isdigit() and int(el) < len(base[1]):
            return base[1][int(el)]
        if h == 'variant' and base[2] == 'Continue' and el == '0':
            inner = base[1]
            if inner[0] == 'call' and isinstance(inner[1], str) and (inner[1].endswith('Try>::branch') or inner[1].endswith('Try::branch')):
                return okof(inner[2][0])
        if h == 'bin' and base[1].endswith('WithOverflow') and el == '0':
            return fold_bin(('bin', base[1][:-len('WithOverflow')], base[2], base[3]))
        if el.startswith('['):
            return ('index', base, el)
        return ('field', base, el)

    # -- rvalues --------------------------------------------------------------
    def rvalue(self, rv, bid, idx):
        return self.rvalue_at(rv, self.pos(bid, idx))

    def rvalue_at(self, rv, pos):
        if 'use' in rv:
            return self.operand_at(rv['use'], pos)
        if 'ref' in rv:
            return self.place_at(rv['ref'], pos)
        if 'raw_ptr' in rv:
            return self.place_at(rv['raw_ptr'], pos)
        if 'bin' in rv:
            return fold_bin(('bin', rv['bin'], self.operand_at(rv['a'], pos), self.operand_at(rv['b'], pos)))
        if 'cast' in rv:
            p = op_place(rv['a'])
            from_ty = None
            if p is not None and not p['proj']:
                from_ty = self.fn.local_ty(p['local'])
            elif 'const' in rv['a']:
                from_ty = rv['a']['const'].get('ty')
            return ('cast', self.operand_at(rv['a'], pos), rv['to'], rv['cast'], from_ty)
        if 'agg' in rv:
            k = rv['agg']
            ops = [self.operand_at(o, pos) for o in rv['ops']]
            if k == 'tuple':
                return ('tuple', tuple(ops))
            if k == 'array':
                return ('array', tuple(ops))
            if isinstance(k, dict) and 'adt' in k:
                last = k['adt'].rsplit('::', 1)[-1]
                name = k['adt'] if (not k.get('variant') or k['variant'] == last) else k['adt'] + '::' + k['variant']
                fields = k.get('fields', [])
                return ('agg', name, tuple((fields[i] if i < len(fields) else str(i), ops[i]) for i in range(len(ops))))
            if isinstance(k, dict) and 'closure' in k:
                return ('closure', k['closure'], tuple(ops))
            return ('agg', 'other', tuple((str(i), o) for i, o in enumerate(ops)))
        if 'discr' in rv:
            return ('discr', self.place_at(rv['discr'], pos))
        if 'un' in rv:
            if rv['un'] == 'PtrMetadata':
                return ('len', self.operand_at(rv['a'], pos))
            return ('un', rv['un'], self.operand_at(rv['a'], pos))
        if 'repeat' in rv:
            return ('repeat', self.operand_at(rv['repeat'], pos), rv['n'])
        return ('cother', json.dumps(rv)[:80], '?')


class _Havoc:
    kind = 'havoc'
    id = -1

    def __init__(self, target, bid):
        self.target = target
        self.bid = bid
        self.idx = 'H'
        self.extra = None


class PathSym(Sym):
    """Path-sensitive view: `path` is a list of block ids actually traversed; positions are (k, idx)
    with path[k] the block.  Exactly one definition reaches every use, so no phi arises from joins."""

    def __init__(self, fn, path, havoc=False):
        Sym.__init__(self, fn)
        self.path = list(path)
        fn.reaching()  # make sure _eff/_by_block exist
        self._pstate = []
        cur = {}
        for d in fn.defs():
            if d.kind == 'entry':
                for P in fn._eff[d.id][0]:
                    cur[P] = [(d, ('entry', d.idx))]
        hv = fn.loop_havoc() if havoc else {}
        for k, bid in enumerate(self.path):
            if bid in hv:
                # arriving at a loop header: every location the loop body may modify gets an arbitrary value,
                # so one traversal of the body stands for every iteration
                for (T, strong_on) in hv[bid]:
                    hd = _Havoc(T, bid)
                    for P in strong_on:
                        cur[P] = [(hd, (k, 'H'))]
            self._pstate.append(dict(cur))
            for d in fn._by_block.get(bid, []):
                self._apply(cur, d, (k, d.idx))
        self._final = cur

    def _apply(self, cur, d, dpos):
        strong_on, weak_on = self.fn._eff[d.id]
        for P in strong_on:
            cur[P] = [(d, dpos)]
        for P in weak_on:
            cur[P] = cur.get(P, []) + [(d, dpos)]

    def pos(self, k, idx):
        return (k, idx)

    def bid_of(self, pos):
        if pos[0] == 'entry':
            return None
        return self.path[pos[0]]

    def resolve(self, loc, pos):
        k, idx = pos
        if k == 'entry':
            return []
        st = self._pstate[k]
        lim = 10**9 if idx == 'T' else idx
        cur = None
        for d in self.fn._by_block.get(self.path[k], []):
            di = 10**9 if d.idx == 'T' else d.idx
            if di >= lim:
                break
            if cur is None:
                cur = dict(st)
            self._apply(cur, d, (k, d.idx))
        if cur is None:
            cur = st
        if loc in cur:
            return cur[loc]
        for i in range(len(loc) - 1, 0, -1):
            if loc[:i] in cur:
                return cur[loc[:i]]
        return []

    def last_index(self, bid):
        for k in range(len(self.path) - 1, -1, -1):
            if self.path[k] == bid:
                return k
        return None

    def ret_value(self):
        """value of the return place at the end of the path"""
        return self.loc_value_at((0,), (len(self.path) - 1, 'T'))


# ---------------------------------------------------------------------------

def short(path):
    if not isinstance(path, str):
        return str(path)
    return path


def fmt(e, depth=0):
    if not isinstance(e, tuple):
        return str(e)
    if depth > 12:
        return '…'
    h = e[0]
    f = lambda x: fmt(x, depth + 1)
    if h == 'param':
        return f"{e[1]}"
    if h == 'const':
        return hex(e[1]) if e[1] > 9 else str(e[1])
    if h == 'cfn':
        return f"fn:{e[1]}"
    if h == 'cbytes':
        return f"bytes:{e[1][:32]}"
    if h == 'citem':
        return e[1]
    if h == 'cpromoted':
        return f"promoted[{e[1]}]"
    if h == 'cother':
        return f"{e[1]}"
    if h == 'field':
        return f"{f(e[1])}.{e[2]}"
    if h == 'variant':
        return f"({f(e[1])} as {e[2]})"
    if h == 'index':
        return f"{f(e[1])}[{f(e[2])}]" if isinstance(e[2], tuple) else f"{f(e[1])}{e[2]}"
    if h == 'discr':
        return f"discr({f(e[1])})"
    if h == 'len':
        return f"len({f(e[1])})"
    if h == 'call':
        return f"{short(e[1])}({', '.join(f(a) for a in e[2])})"
    if h == 'bin':
        return f"({f(e[2])} {e[1]} {f(e[3])})"
    if h == 'un':
        return f"{e[1]}({f(e[2])})"
    if h == 'cast':
        return f"({f(e[1])} as {e[2]})"
    if h == 'agg':
        return f"{e[1]}{{{', '.join(n + ': ' + f(x) for n, x in e[2])}}}"
    if h == 'tuple':
        return f"({', '.join(f(x) for x in e[1])})"
    if h == 'array':
        return f"[{', '.join(f(x) for x in e[1])}]"
    if h == 'repeat':
        return f"[{f(e[1])}; {e[2]}]"
    if h == 'closure':
        return f"closure:{e[1]}({', '.join(f(x) for x in e[2])})"
    if h == 'okof':
        return f"{f(e[1])}?"
    if h == 'after':
        return f"after[{f(e[1])}]#{e[2]}"
    if h == 'phi':
        return f"phi({'.'.join(str(x) for x in e[1])})"
    if h == 'undef':
        return f"undef({e[1]})"
    if h == 'havoc':
        return f"any({'.'.join(str(x) for x in e[1])}@{e[2]})"
    return str(e)


def walk(e):
    """pre-order iteration over sub-expressions"""
    if not isinstance(e, tuple):
        return
    yield e
    h = e[0]
    if h == 'index':
        kids = [e[1]] + ([e[2]] if isinstance(e[2], tuple) else [])
    elif h in ('field', 'variant', 'discr', 'len', 'okof', 'un', 'cast', 'repeat'):
        kids = [e[1]] if h != 'un' else [e[2]]
    elif h == 'call':
        kids = list(e[2])
        if isinstance(e[1], tuple):
            kids.append(e[1][1])
    elif h == 'bin':
        kids = [e[2], e[3]]
    elif h == 'agg':
        kids = [x for _, x in e[2]]
    elif h in ('tuple', 'array'):
        kids = list(e[1])
    elif h == 'closure':
        kids = list(e[2])
    elif h == 'after':
        kids = [e[1], e[3]]
    else:
        kids = []
    for k in kids:
        yield from walk(k)


def calls_in(e, suffix=None):
    for x in walk(e):
        if x[0] == 'call' and isinstance(x[1], str):
            if suffix is None or x[1].endswith(suffix) or suffix in x[1]:
                yield x


def mentions(e, pred):
    return any(pred(x) for x in walk(e))


LEAVES = {'const', 'cfn', 'cbytes', 'citem', 'cpromoted', 'cother', 'undef', 'phi', 'havoc'}


def map_children(e, f):
    """rebuild e with f applied to every direct sub-expression"""
    if not isinstance(e, tuple):
        return e
    h = e[0]
    if h in LEAVES or h == 'param':
        return e
    if h == 'call':
        callee = e[1]
        if isinstance(callee, tuple):
            callee = (callee[0], f(callee[1]))
        return ('call', callee, tuple(f(a) for a in e[2]), e[3])
    if h == 'agg':
        return ('agg', e[1], tuple((n, f(v)) for n, v in e[2]))
    if h in ('tuple', 'array'):
        return (h, tuple(f(x) for x in e[1]))
    if h == 'closure':
        return ('closure', e[1], tuple(f(x) for x in e[2]))
    if h == 'bin':
        return ('bin', e[1], f(e[2]), f(e[3]))
    if h == 'un':
        return ('un', e[1], f(e[2]))
    if h == 'after':
        return ('after', f(e[1]), e[2], f(e[3]))
    if h == 'index' and isinstance(e[2], tuple):
        return ('index', f(e[1]), f(e[2]))
    return (h, f(e[1])) + tuple(e[2:])


_NUM_FROM = re.compile(r'^std::convert::num::<impl std::convert::From<(bool|u8|u16|u32|u64|usize)> for (u8|u16|u32|u64|u128|usize)>::from$')


def subst(e, m):
    """replace ('param', name, idx) by m[idx] (m: dict idx -> expr); None = identity"""
    if m is None or not isinstance(e, tuple):
        return e
    if e[0] == 'param':
        return m.get(e[2], e)
    return map_children(e, lambda x: subst(x, m))


def simplify_proj(e):
    """field-of-aggregate / index-of-tuple reductions after substitution"""
    if not isinstance(e, tuple):
        return e
    e = map_children(e, simplify_proj)
    if e[0] == 'variant' and e[1][0] == 'agg' and e[1][1].rsplit('::', 1)[-1] == e[2]:
        return e[1]
    if e[0] == 'field':
        b = e[1]
        if b[0] == 'agg':
            for n, v in b[2]:
                if n == e[2]:
                    return v
        if b[0] == 'tuple' and e[2].isdigit() and int(e[2]) < len(b[1]):
            return b[1][int(e[2])]
        if b[0] == 'variant' and b[2] == 'Continue' and e[2] == '0':
            inner = b[1]
            if inner[0] == 'call' and isinstance(inner[1], str) and (inner[1].endswith('Try>::branch') or inner[1].endswith('Try::branch')):
                return okof(inner[2][0])
    return e


def okof(x):
    """success payload of an Option/Result value; of a literal Ok(v) / Some(v) (an inlined helper's result) it is v itself"""
    if isinstance(x, tuple) and x[0] == 'agg' and x[1].endswith(('Result::Ok', 'Option::Some')) and x[2]:
        return x[2][0][1]
    return ('okof', x)


def fold_bin(e):
    """arithmetic on two literals is a literal (`32 - MASK_ROTATE`, `1 << 8`): unoptimised MIR keeps the operation"""
    if e[2][0] == 'const' and e[3][0] == 'const' and not e[1].endswith('WithOverflow'):
        a, b = e[2][1], e[3][1]
        op = e[1].replace('Unchecked', '')
        try:
            v = {'Add': a + b, 'Sub': a - b, 'Mul': a * b, 'Shl': a << b if b < 128 else None, 'Shr': a >> b if b < 128 else None,
                 'BitAnd': a & b, 'BitOr': a | b, 'BitXor': a ^ b}.get(op)
        except (TypeError, ValueError):
            v = None
        if v is not None and 0 <= v < (1 << 64):
            return ('const', v)
    return e


def const_eval(e):
    """value of a constant integer expression (unoptimised MIR keeps `1 << 8` as an operation), else None"""
    if not isinstance(e, tuple):
        return None
    if e[0] == 'const':
        return e[1]
    if e[0] == 'cast':
        return const_eval(e[1])
    if e[0] == 'bin':
        a, b = const_eval(e[2]), const_eval(e[3])
        if a is None or b is None:
            return None
        op = e[1].replace('Unchecked', '').replace('WithOverflow', '')
        try:
            return {'Add': a + b, 'Sub': a - b, 'Mul': a * b, 'Shl': a << b, 'Shr': a >> b, 'BitAnd': a & b, 'BitOr': a | b, 'BitXor': a ^ b}[op] & ((1 << 128) - 1)
        except KeyError:
            return None
    return None


def bool_fold(e):
    """`!true` / `!false` over literal booleans (e.g. `!matches!(..)` on a path where the match is decided)"""
    if isinstance(e, tuple) and e[0] == 'un' and e[1] == 'Not':
        x = bool_fold(e[2])
        if x[0] == 'const' and x[1] in (0, 1):
            return ('const', 1 - x[1])
    return e


def strip_casts(e):
    while isinstance(e, tuple) and e[0] == 'cast':
        e = e[1]
    return e
