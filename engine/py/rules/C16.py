"""C16 — get_key inverts maps whose values increase with the keys (structural part)."""
from paths import explore
from sym import fmt, walk
from callgraph import CallGraph
from rules.common import path_calls, arg_loc
import stdmodel as SM

LEVEL = 'other'
ROLES = ['lib']
EXPLANATION = ('Decides the structural clauses, not the behaviour: R16.1 (sibling rule) every function of the reader that descends '
               'transitions while accumulating or consuming their outputs and tests finality must also read the final output of the '
               'node it stops at; for the inverse lookup every path that reports success is taken only under "node is final AND its '
               'final output equals the remaining value", and every step subtracts the output of the transition it follows and '
               'appends that transition\'s byte. R16.2: get_key delegates to get_key_into on a fresh buffer and maps false to None; '
               'the caller\'s buffer is only appended to. Not decided: that the greedy choice of the last transition with output <= '
               'remaining value is right for all monotone maps (that is an argument about builder output, see DESIGN.md).')
TRUSTED = ['Iterator::take_while / last semantics']
ASSUMPTIONS = ['values strictly increase with keys (precondition of the property)']

PUB_GET_KEY = 'raw::Fst::<D>::get_key'
PUB_GET_KEY_INTO = 'raw::Fst::<D>::get_key_into'
IS_FINAL = "raw::node::Node::<'f>::is_final"
FINAL_OUTPUT = "raw::node::Node::<'f>::final_output"


def is_node_call(t):
    c = (t.get('callee') or {})
    return (c.get('resolved') or c.get('path') or '').endswith("FstRef::<'f>::node")


def reads_transition_out(f):
    return any(True for _ in f.field_accesses('raw::Transition', 'out'))


def calls(f, path):
    return [t for _, t in f.calls() if f.callee(t) == path]


def is_c(e, suffix):
    return e[0] == 'call' and isinstance(e[1], str) and e[1].endswith(suffix)


_POSFORM = {'ok': False}


def _position_form(ctx, R, lib, g, p, T):
    """transition(position(|t| t.out > value).unwrap_or(len) - 1): the index of the first transition that does NOT fit, minus one, is
    the last of the leading transitions that fit - the take_while(..).last() selection spelled with an index.  The predicate is
    checked here (a recognised shape with the wrong comparison is a violation of step-choice)."""
    if len(T[2]) < 2:
        return []
    idx = T[2][1]
    if not (idx[0] == 'bin' and idx[1] == 'Sub' and idx[3] == ('const', 1)):
        return []
    F = idx[2]
    pos = [x for x in walk(F) if is_c(x, 'Iterator::position') and len(x[2]) == 2 and x[2][1][0] == 'closure']
    if len(pos) != 1 or not is_c(F, 'unwrap_or') or not any(is_c(x, "Node::<'f>::len") or is_c(x, '::len') for x in walk(F[2][1])):
        return []
    if any(is_c(x, 'Iterator::rev') or is_c(x, 'Iterator::skip') for x in walk(pos[0][2][0])):
        return []
    cl = lib.fns.get(pos[0][2][1][1])
    if cl is None:
        return []
    verdict = None
    for q in explore(cl, max_visits=1):
        if q.end != 'return':
            continue
        rv = q.ret()
        while rv[0] == 'cast':
            rv = rv[1]
        if rv[0] == 'bin' and rv[1] in ('Le', 'Lt', 'Ge', 'Gt', 'Eq', 'Ne'):
            l_out = any(x[0] == 'field' and x[2] == 'out' for x in walk(rv[2]))
            r_out = any(x[0] == 'field' and x[2] == 'out' for x in walk(rv[3]))
            l_cap = any(x[0] == 'param' and x[2] == 1 for x in walk(rv[2]))
            r_cap = any(x[0] == 'param' and x[2] == 1 for x in walk(rv[3]))
            if l_out and r_cap and not (r_out or l_cap):
                verdict = 'ok' if rv[1] == 'Gt' else 'output %s remaining value' % rv[1]
            elif r_out and l_cap and not (l_out or r_cap):
                verdict = 'ok' if rv[1] == 'Lt' else 'remaining value %s output' % rv[1]
    if verdict is None:
        return []
    if verdict != 'ok':
        ctx.violation(R, 'step-choice', 'the step follows the transition before the first one with "%s"; it must be the one before the first whose output EXCEEDS the remaining value (output > value)' % verdict, fn=cl)
        return [True]
    from rules.streams import norm as _n
    nz = [d for d in p.decisions if d[2][0] == 'bin' and d[2][1] in ('Eq', 'Ne', 'Gt', 'Ge', 'Lt', 'Le') and any(_n(x) == _n(F) for x in (d[2][2], d[2][3])) and
          any(c_ in (('const', 0), ('const', 1)) for c_ in (d[2][2], d[2][3]))]
    if nz:
        ctx.check(R, True, 'step-choice', '', fn=g)
        _POSFORM['ok'] = True
    return nz


def _map_while_form(lib, g, upd):
    """upd = .1 of last(map_while(transitions, |t| value.checked_sub(t.out.value()).map(|rest| (t, rest)))): the closure yields
    Some((t, value - out)) exactly when value >= out, so the last item is the last leading transition that fits and its second part
    is the remaining value"""
    import vsplit
    e = upd
    if not (e[0] == 'field' and e[2] == '1'):
        return False
    e = e[1]
    while e[0] in ('field', 'variant', 'okof'):
        e = e[1]
    if not (is_c(e, 'Iterator::last') and e[2] and is_c(e[2][0], 'Iterator::map_while') and len(e[2][0][2]) == 2):
        return False
    src, clo = e[2][0][2]
    if clo[0] != 'closure' or not is_c(src, "Node::<'f>::transitions"):
        return False
    T = ('param', 't', 99)
    cases = vsplit.closure_cases(lib, clo, [T], 0)
    if not cases or len(cases) != 2:
        return False
    some = [c for c in cases if c[1][0] == 'agg' and c[1][1].endswith('Option::Some')]
    none = [c for c in cases if c[1][0] == 'agg' and c[1][1].endswith('Option::None')]
    if len(some) != 1 or len(none) != 1:
        return False
    conds, v = some[0]
    pay = v[2][0][1]
    if not (len(conds) == 1 and conds[0][1] == 1 and conds[0][0][0] == 'bin' and conds[0][0][1] == 'Ge'):
        return False
    val, out = conds[0][0][2], conds[0][0][3]
    is_out = is_c(out, 'Output::value') and out[2][0] == ('field', T, 'out')
    is_val = val[0] == 'havoc' and val[1] == (2,) or val == ('param', g.local_name(2), 2)
    ok_pay = pay[0] == 'tuple' and len(pay[1]) == 2 and pay[1][0] == T and pay[1][1][0] == 'bin' and pay[1][1][1] == 'Sub' and pay[1][1][2] == val and pay[1][1][3] == out
    return bool(is_out and is_val and ok_pay and none[0][0] == [(conds[0][0], 0)])


def _as_bin(e):
    """`a <= b` on Output values (derived PartialOrd / PartialEq calls) read as the same comparison on the wrapped integers"""
    if e[0] == 'call' and isinstance(e[1], str) and len(e[2]) == 2 and e[1].rsplit('::', 1)[-1] in ('lt', 'le', 'gt', 'ge', 'eq', 'ne') and ('cmp::Partial' in e[1] or 'PartialEq' in e[1] or 'PartialOrd' in e[1]):
        return ('bin', {'lt': 'Lt', 'le': 'Le', 'gt': 'Gt', 'ge': 'Ge', 'eq': 'Eq', 'ne': 'Ne'}[e[1].rsplit('::', 1)[-1]], e[2][0], e[2][1])
    return e


def r16_1(ctx):
    _POSFORM['ok'] = False
    R = ctx.rule('R16.1', 'every output-accumulating descent that tests finality also reads the final output', floor=3)
    lib = ctx.lib
    if lib.fn(IS_FINAL.replace("<'f>", "<'f>")) is None:
        ctx.missing(R, 'anchor:is_final', 'Node::is_final not found')
        return None
    cg = CallGraph(lib)
    walkers = []
    for f in lib.fn_list:
        if f.from_expansion or f.kind == 'Closure':
            continue
        if f.impl and f.impl.get('trait_path') in ('std::fmt::Debug', 'std::fmt::Display'):
            continue
        # closures of f count as part of f
        members = [f] + [g for g in lib.fn_list if g.kind == 'Closure' and g.parent == f.path]
        if any(calls(m, IS_FINAL) for m in members) and any(reads_transition_out(m) for m in members):
            walkers.append((f, members))
    for f, members in walkers:
        has = any(calls(m, FINAL_OUTPUT) for m in members)
        ctx.check(R, has, 'final-output', 'walks transitions accumulating their outputs and stops on final nodes, but never reads the final output of the node reached: '
                  'keys ending in a node with a non-zero final output (e.g. the empty key with a value) get a wrong value', fn=f)
    # the inverse lookup in detail
    pub = lib.fn(PUB_GET_KEY_INTO)
    if pub is None:
        ctx.missing(R, 'anchor:get_key_into', 'public get_key_into not found')
        return None
    inner = [lib.fns[c] for c in cg.reachable([pub.path]) if c in lib.fns and c != pub.path and lib.fns[c].loops() and calls(lib.fns[c], IS_FINAL)]
    if len(inner) != 1:
        ctx.missing(R, 'anchor:descent', 'expected one looping descent behind get_key_into, found %s' % [x.path for x in inner])
        return None
    g = inner[0]
    n_true = 0
    n_step = 0
    for p in explore(g, max_visits=1, havoc=True):
        if p.end == 'return':
            rv = p.ret()
            if rv == ('const', 1):
                n_true += 1
                fin = [d for d in p.decisions if any(x[0] == 'call' and x[1] == IS_FINAL for x in walk(d[2]))]
                fo = [d for d in p.decisions if any(x[0] == 'call' and x[1] == FINAL_OUTPUT for x in walk(d[2]))]
                ok_fin = any(d[3] == 1 and d[2][0] == 'call' for d in fin)
                ok_fo = False
                for d in fo:
                    e, val = _as_bin(d[2]), d[3]
                    if e[0] == 'bin' and ((e[1] == 'Eq' and val == 1) or (e[1] == 'Ne' and val == 0)):
                        other = e[3] if any(x[0] == 'call' and x[1] == FINAL_OUTPUT for x in walk(e[2])) else e[2]
                        # the other side is the (remaining) query value: parameter #2 or its loop-carried version
                        if other[0] in ('param', 'havoc') or any(x[0] in ('param', 'havoc') for x in walk(other)):
                            ok_fo = True
                # both tests must be about the SAME node (the one the descent currently stands on): a final output read from
                # another node (e.g. hoisted out of the loop) certifies keys whose own final output differs
                def node_args(ds, callee):
                    out = []
                    for d in ds:
                        for x in walk(d[2]):
                            if x[0] == 'call' and x[1] == callee and x[2]:
                                out.append(x[2][0])
                    return out
                from rules.streams import norm as _norm
                fin_nodes = {_norm(a) for a in node_args([d for d in fin if d[3] == 1], IS_FINAL)}
                fo_nodes = {_norm(a) for a in node_args(fo, FINAL_OUTPUT)}
                same_node = bool(fin_nodes) and bool(fo_nodes) and fo_nodes <= fin_nodes
                ctx.check(R, same_node or not (ok_fin and ok_fo), 'success-same-node',
                          'success is decided by the finality of one node and the final output of another (%s vs %s)' % (sorted(fmt(a)[:40] for a in fin_nodes), sorted(fmt(a)[:40] for a in fo_nodes)), fn=g)
                ctx.check(R, ok_fin and ok_fo, 'success-condition',
                          'a path reports success without requiring "node is final and its final output equals the remaining value" (finality tested: %s, final output compared: %s)' % (ok_fin, ok_fo),
                          fn=g, detail=[fmt(d[2])[:100] + ' = ' + str(d[3]) for d in p.decisions][-4:])
        elif p.end == 'cut':
            # one loop iteration: remaining value decreases by the followed transition's output, its byte is appended
            stores = [(loc, st, k, i) for (k, i, loc, st) in p.stores()]
            cs = path_calls(p)
            pushes = [c for c in cs if isinstance(c[2], str) and c[2].endswith('::push') and arg_loc(g, c[4], 0) is not None and arg_loc(g, c[4], 0)[0] == 3]
            # value update
            upd = None
            for k, bid in enumerate(p.blocks):
                for i, st in enumerate(g.blocks[bid]['stmts']):
                    if st['k'] == 'assign' and not st['place']['proj'] and st['place']['local'] == 2:
                        upd = p.sym.rvalue_at(st['rv'], (k, i))
            moved = any(is_node_call(x) for kk, bid in enumerate(p.blocks) for x in [g.blocks[bid]['term']] if x and x['k'] == 'call')
            if not pushes and upd is None and not moved:
                continue      # an iteration of an inner search loop (looking for the transition to follow), not a descent step
            n_step += 1
            ok_push = len(pushes) == 1 and any(x[0] == 'field' and x[2] == 'inp' for x in walk(pushes[0][3][1]))
            ctx.check(R, ok_push, 'step-appends-byte', 'a descent step does not append exactly the input byte of the transition it follows', fn=g)
            ok_upd = upd is not None and upd[0] == 'bin' and upd[1] == 'Sub' and any(x[0] == 'field' and x[2] == 'out' for x in walk(upd[3]))
            if not ok_upd and upd is not None and _map_while_form(lib, g, upd):
                # map_while(|t| value.checked_sub(t.out).map(|rest| (t, rest))).last(): selection and subtraction in one
                _POSFORM['ok'] = True
                ctx.check(R, True, 'step-consumes-output', '', fn=g)
                ctx.check(R, True, 'step-choice', '', fn=g)
                continue
            if ok_upd:
                # the output that is subtracted belongs to a transition known to fit (out <= remaining value): it comes out of the
                # take_while(..).last() selection, or the path compared THAT transition's output with the value
                outs_ = [x for x in walk(upd[3]) if x[0] == 'field' and x[2] == 'out']
                T = outs_[0][1] if outs_ else None
                direct = T is not None and T[0] == 'call' and isinstance(T[1], str) and T[1].endswith("Node::<'f>::transition")
                if direct:
                    from rules.streams import norm as _n
                    fits = [d for d in p.decisions if d[2][0] == 'bin' and d[2][1] in ('Le', 'Lt', 'Ge', 'Gt') and any(_n(x) == _n(T) for x in walk(d[2]) if x[0] == 'call')]
                    if not fits:
                        fits = _position_form(ctx, R, lib, g, p, T)
                    ctx.check(R, bool(fits), 'step-fits', 'a descent step subtracts the output of a transition picked by index without this path having established that its output is <= the remaining value: for a value below every output of the node the subtraction underflows', fn=g)
            ctx.check(R, ok_upd, 'step-consumes-output', 'a descent step does not subtract the output of the transition it follows from the remaining value: %s' % fmt(upd)[:100], fn=g)
    if n_true == 0:
        ctx.undecided(R, 'success-condition', 'no path returning true found in %s' % g.path, fn=g)
    # failure is reported only when, at the node the descent stands on, NO transition has an output <= the remaining value
    # (take_while(..).last() is None): any other early `false` gives up on values that a final node or a later transition would serve
    import vsplit as _vs
    for p in explore(g, max_visits=1, havoc=True):
        if p.end != 'return' or p.ret() != ('const', 0):
            continue
        why = [d for d in p.cdecisions() if d[2][0] == 'discr' and any(is_c(x, 'Iterator::last') or is_c(x, 'Iterator::find') or is_c(x, 'Iterator::rfind') or is_c(x, '::rposition') or is_c(x, '::position') for x in walk(d[2]))]
        if why and why[-1][3] == 0 and why[-1][0] == max(d[0] for d in p.decisions):
            ctx.check(R, True, 'failure-condition', '', fn=g)
        elif why and why[-1][3] == 0:
            ctx.check(R, True, 'failure-condition', '', fn=g)
        elif _POSFORM['ok'] and p.decisions and p.decisions[-1][2][0] == 'bin' and p.decisions[-1][2][1] in ('Eq', 'Ne') and ('const', 0) in p.decisions[-1][2][2:] and \
                p.decisions[-1][3] == (1 if p.decisions[-1][2][1] == 'Eq' else 0) and any(is_c(x, 'Iterator::position') for x in walk(p.decisions[-1][2])):
            ctx.check(R, True, 'failure-condition', '', fn=g)      # "no leading transition fits" in the index form
        else:
            last = p.decisions[-1][2] if p.decisions else ('?',)
            if any(x[0] == 'field' and x[2] == 'out' for x in walk(last)) or any(is_c(x, 'Output::value') for x in walk(last)) or any(is_c(x, 'map_or') or is_c(x, 'is_some_and') for x in walk(last)):
                ctx.violation(R, 'failure-condition', 'the inverse lookup gives up (returns false) on a test that is not "no transition of this node has an output <= the remaining value": %s' % fmt(last)[:100], fn=g)
            else:
                ctx.undecided(R, 'failure-condition', 'a path returning false is not justified by an exhausted transition choice: %s' % fmt(last)[:100], fn=g)
    # the node a step starts from must have been tested for success first (the root included: the empty key is a key)
    nodes = [l for l in g.locals if g.local_ty(l).startswith('raw::node::Node<') and g.locals[l].get('name')]
    n_chk = 0
    for p in explore(g, max_visits=1, havoc=True):
        cs = path_calls(p)
        pushes = [c for c in cs if isinstance(c[2], str) and c[2].endswith('::push') and arg_loc(g, c[4], 0) is not None and arg_loc(g, c[4], 0)[0] == 3]
        if not pushes:
            continue
        n_chk += 1
        k_push = pushes[0][0]
        tested = False
        for d in p.decisions:
            if d[0] >= k_push:
                break
            for x in walk(d[2]):
                if x[0] == 'call' and x[1] == IS_FINAL:
                    a = x[2][0]
                    if (a[0] == 'havoc' and len(a[1]) == 1 and a[1][0] in nodes) or (a[0] == 'call' and isinstance(a[1], str) and a[1].endswith('::root')):
                        tested = True
        ctx.check(R, tested, 'test-before-step', 'a descent step is taken from a node that was not first tested for "final and final output = remaining value": the key ending at that node (the empty key at the root) can never be reported',
                  fn=g, at=pushes[0][4].get('span'))
    if n_chk == 0:
        ctx.undecided(R, 'test-before-step', 'no stepping path recognised', fn=g)
    # which transition a step follows: the LAST one whose output does not exceed the remaining value.  (That this greedy choice is
    # right for monotone maps is the builder argument of DESIGN.md; that the code makes THIS choice is decided here.)
    sel = None
    for p in explore(g, max_visits=1, havoc=True):
        for (k, bid, callee, args, t) in path_calls(p, expand=False):
            if isinstance(callee, str) and callee.endswith('Iterator::take_while') and len(args) == 2 and args[1][0] == 'closure':
                sel = (args[1][1], t)
        if sel:
            break
    if sel is None and _POSFORM['ok']:
        pass            # decided with the step itself (index form)
    elif sel is None or sel[0] not in lib.fns:
        ctx.undecided(R, 'step-choice', 'the transition to follow is not selected by take_while(..).last(): form not decided', fn=g)
    else:
        cl = lib.fns[sel[0]]
        pickers = set()
        for p in explore(g, max_visits=1, havoc=True):
            for (k, bid, callee, args, t) in path_calls(p, expand=False):
                if isinstance(callee, str) and args and any(x[0] == 'call' and isinstance(x[1], str) and x[1].endswith('Iterator::take_while') for x in walk(args[0])) and callee.startswith('std::iter::Iterator::'):
                    if args[0][0] == 'call' and args[0][1].endswith('Iterator::take_while'):
                        pickers.add(callee.rsplit('::', 1)[-1])
        if pickers and pickers != {'last'}:
            ctx.violation(R, 'step-choice', 'the transition followed is picked with %s() from the prefix of transitions whose output fits: it must be the LAST of them (the greatest key prefix not exceeding the value)' % sorted(pickers - {'last'})[0], fn=g, at=sel[1].get('span'))
        verdict = None
        for p in explore(cl, max_visits=1):
            if p.end != 'return':
                continue
            rv = p.ret()
            while rv[0] == 'cast':
                rv = rv[1]
            rv = _as_bin(rv)
            if rv == ('const', 1) and not any(any(x[0] == 'field' and x[2] == 'out' for x in walk(d[2])) for d in p.decisions):
                # `other_test || out <= value`: a transition is let through without its output having been compared
                ctx.violation(R, 'step-choice', 'the selecting predicate accepts a transition on a path that never compares its output with the remaining value (%s): the step then subtracts an output that may exceed the value' % (
                    fmt(p.decisions[-1][2])[:80] if p.decisions else 'unconditionally'), fn=cl)
                verdict = 'reported'
                break
            if rv[0] == 'bin' and rv[1] in ('Le', 'Lt', 'Ge', 'Gt', 'Eq', 'Ne'):
                l_out = any(x[0] == 'field' and x[2] == 'out' for x in walk(rv[2]))
                r_out = any(x[0] == 'field' and x[2] == 'out' for x in walk(rv[3]))
                l_cap = any(x[0] == 'param' and x[2] == 1 for x in walk(rv[2]))
                r_cap = any(x[0] == 'param' and x[2] == 1 for x in walk(rv[3]))
                if l_out and r_cap and not (r_out or l_cap):
                    verdict = 'ok' if rv[1] == 'Le' else 'output %s remaining value' % rv[1]
                elif r_out and l_cap and not (l_out or r_cap):
                    verdict = 'ok' if rv[1] == 'Ge' else 'remaining value %s output' % rv[1]
        if verdict == 'reported':
            pass
        elif verdict is None:
            ctx.undecided(R, 'step-choice', 'the selecting predicate is not a comparison of a transition output with the remaining value', fn=cl)
        elif verdict == 'ok':
            ctx.check(R, pickers == {'last'} or not pickers, 'step-choice', '', fn=g)
        else:
            ctx.violation(R, 'step-choice', 'a step must follow the last transition whose output is <= the remaining value; the predicate is "%s": a transition whose output equals the remaining value (every key whose last outputs are zero) is handled wrongly' % verdict, fn=cl)
    return g


def _rightmost_bound(lib, gk, gki, p):
    """judge `if value > <value of the last key> { return None }`.  The value of the last key is the sum along the right-most
    transitions down to the node WITHOUT transitions (a final node on the way is a shorter, smaller key) plus that node's final
    output.  'ok' / None (cannot judge) / text of what is wrong"""
    if not p.decisions:
        return None
    e, val = p.decisions[-1][2], p.decisions[-1][3]
    if not (e[0] == 'bin' and e[1] in ('Gt', 'Lt', 'Ge', 'Le')):
        return None
    lhs_value = e[2] == ('param', gk.local_name(2), 2)
    rhs_value = e[3] == ('param', gk.local_name(2), 2)
    if lhs_value == rhs_value:
        return None
    # normalise to  value OP bound  taken as true
    op = e[1] if lhs_value else {'Gt': 'Lt', 'Lt': 'Gt', 'Ge': 'Le', 'Le': 'Ge'}[e[1]]
    if val == 0:
        op = {'Gt': 'Le', 'Le': 'Gt', 'Lt': 'Ge', 'Ge': 'Lt'}[op]
    # the walk that computes the bound
    cands, seen = [], set()
    todo = [gk.path]
    while todo:
        q = todo.pop()
        if q in seen or q == gki.path or q not in lib.fns:
            continue
        seen.add(q)
        h = lib.fns[q]
        if h.loops():
            cands.append(h)
        for _, t in h.calls():
            c = h.callee(t)
            if c in lib.fns and len(seen) < 12:
                todo.append(c)
    walkers = []
    for h in cands:
        for q in explore(h, max_visits=1, havoc=True):
            if q.end != 'cut':
                continue
            for (k, bid, callee, args, t) in path_calls(q):
                if isinstance(callee, str) and callee.endswith("Node::<'f>::transition") and len(args) == 2 and args[1][0] == 'bin' and args[1][1] == 'Sub' and args[1][3] == ('const', 1) and \
                        any(is_c(x, "Node::<'f>::len") for x in walk(args[1][2])):
                    cont_final = [d for d in q.decisions if d[2][0] == 'call' and d[2][1] == IS_FINAL]
                    cont_len = [d for d in q.decisions if any(is_c(x, "Node::<'f>::len") or is_c(x, "Node::<'f>::is_empty") for x in walk(d[2]))]
                    walkers.append((h, bool(cont_final), bool(cont_len)))
    if not walkers:
        return None
    if any(cf for _, cf, _ in walkers):
        return 'the bound is computed by a right-most walk that stops at the first FINAL node (%s); the last key ends at the node without transitions, so whenever the last key has a proper prefix that is also a key the bound is too small and stored values are reported absent' % walkers[0][0].path.rsplit('::', 1)[-1]
    if not all(cl for _, _, cl in walkers):
        return None
    if op == 'Gt':
        return 'ok'
    if op == 'Ge':
        return 'the shortcut rejects value >= (value of the last key): the last key itself can no longer be found'
    return None


def r16_2(ctx, g):
    R = ctx.rule('R16.2', 'get_key delegates to get_key_into on a fresh buffer; the buffer is only appended to', floor=3)
    lib = ctx.lib
    gk = lib.fn(PUB_GET_KEY)
    gki = lib.fn(PUB_GET_KEY_INTO)
    if gk is None or gki is None:
        ctx.missing(R, 'anchor:get_key', 'get_key / get_key_into not found')
        return
    some_ok = none_ok = False
    import vsplit
    for p in vsplit.vpaths(lib, gk, enter=False, havoc=False):       # `cond.then_some(key)` read as its two outcomes
        if p.end != 'return':
            continue
        rv = p.ret()
        cs = [c for c in path_calls(p) if c[2] == gki.path]
        if len(cs) == 0:
            if not any(gki.path == gk.callee(t) for _, t in gk.calls()):
                ctx.undecided(R, 'delegation', 'get_key does not go through the public get_key_into any more (the pair was redesigned)', fn=gk)
                continue
            # an answer given without consulting the descent: only "there are no keys at all" justifies None
            def _empty(d):
                e, v = d[2], d[3]
                if e[0] == 'call' and isinstance(e[1], str) and e[1].endswith('::is_empty') and v == 1:
                    return True
                if e[0] == 'bin' and e[1] in ('Eq', 'Ne') and ('const', 0) in e[2:] and any(x[0] == 'call' and isinstance(x[1], str) and x[1].endswith('::len') for x in e[2:]):
                    return v == (1 if e[1] == 'Eq' else 0)
                return False
            if rv[0] == 'agg' and rv[1].endswith('Option::None') and any(_empty(d) for d in p.cdecisions()):
                continue
            if rv[0] == 'agg' and rv[1].endswith('Option::None'):
                last = p.decisions[-1][2] if p.decisions else ('?',)
                verdict = _rightmost_bound(lib, gk, gki, p)
                if verdict == 'ok':
                    ctx.check(R, True, 'early-none', '', fn=gk)
                    continue
                if verdict is None:
                    ctx.undecided(R, 'early-none', 'get_key answers None without running the descent, on a test the rule cannot judge (%s)' % fmt(last)[:100], fn=gk)
                    continue
                ctx.violation(R, 'early-none', 'get_key answers None without running the descent (%s): %s' % (fmt(last)[:100], verdict), fn=gk)
            else:
                ctx.violation(R, 'early-some', 'get_key answers Some without running the descent', fn=gk)
            continue
        if len(cs) != 1:
            ctx.violation(R, 'delegation', 'get_key does not call get_key_into exactly once on a path', fn=gk)
            continue
        c = cs[0]
        fresh = c[3][2][0] == 'call' and isinstance(c[3][2][1], str) and ('Vec::<T>::new' in c[3][2][1] or 'with_capacity' in c[3][2][1])
        val_ok = c[3][1] == ('param', gk.local_name(2), 2)
        dec = [d for d in p.decisions if d[2][0] == 'call' and d[2][1] == gki.path]
        if rv[0] == 'agg' and rv[1].endswith('Option::Some'):
            payload = rv[2][0][1]
            is_buf = payload[0] == 'after' and payload[1][0] == 'call' and payload[1][1] == gki.path
            some_ok = some_ok or (fresh and val_ok and is_buf and dec and dec[-1][3] == 1)
        elif rv[0] == 'agg' and rv[1].endswith('Option::None'):
            none_ok = none_ok or (dec and dec[-1][3] == 0)
            if dec and dec[-1][3] == 1:
                ctx.violation(R, 'delegation', 'get_key answers None on a path where get_key_into reported success: a key that exists for this value (the empty key, if the extra test is on the buffer) is withheld', fn=gk)
    ctx.check(R, some_ok and none_ok, 'delegation', 'get_key is not "Some(buffer filled by get_key_into(value, fresh buffer)) if it returned true, None otherwise"', fn=gk)
    # pass-through of the public get_key_into
    for p in explore(gki, max_visits=1):
        if p.end != 'return':
            continue
        rv = p.ret()
        ok = rv[0] == 'call' and g is not None and rv[1] == g.path and rv[2][1] == ('param', gki.local_name(2), 2) and rv[2][2] == ('param', gki.local_name(3), 3)
        if not ok and g is None:
            ctx.undecided(R, 'passthrough', 'the descent behind get_key_into was not identified', fn=gki)
            continue
        if not ok and g is not None:
            # the descent's result may be adapted (`.is_some()` on an Option-returning descent): the arguments must still be forwarded
            inner = [x for x in walk(rv) if x[0] == 'call' and x[1] == g.path]
            if len(inner) == 1 and inner[0][2][1] == ('param', gki.local_name(2), 2) and inner[0][2][2] == ('param', gki.local_name(3), 3):
                ok = True
        ctx.check(R, ok, 'passthrough', 'get_key_into does not forward (value, buffer) unchanged to the descent: %s' % fmt(rv)[:120], fn=gki)
    if g is not None:
        bad = []
        for bid, t in g.calls():
            l0 = arg_loc(g, t, 0)
            if l0 is not None and l0[0] == 3:
                m = (g.callee(t) or '').rsplit('::', 1)[-1]
                if m not in ('push', 'extend_from_slice', 'extend', 'reserve'):
                    bad.append(g.callee(t))
        for (bid, idx, pl, how) in g.places():
            if pl['local'] == 3 and how == 'store' and pl['proj']:
                bad.append('store')
        ctx.check(R, not bad, 'append-only', 'the caller\'s buffer is modified by something other than appending: %s' % bad, fn=g)


def run(ctx):
    g = ctx.step(r16_1, ctx)
    ctx.step(r16_2, ctx, g)
    # the inverse lookup reads transition outputs and final outputs through the node accessors: every accessor must read the offset the
    # format assigns (the reader half of the layout table, shared with C01 / C02 / C10)
    from rules import readerrules
    R1 = ctx.rule('R01.1', 'reader offsets of every node accessor equal the positions the format table assigns (shared with C01)', floor=30)
    R2 = ctx.rule('R02.2', 'scan / index agreement on the reader side (shared with C02)', floor=2)
    ctx.step(readerrules.run, ctx, R1, R2)
