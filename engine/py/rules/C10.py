"""C10 — readers accept every supported format version (structural part)."""
from absint import Prover, analyse, Linearizer
from lin import Lin, entails
from paths import explore
import stdalg
from sym import fmt, walk
from callgraph import CallGraph
from rules.common import path_calls, ret_kind
from rules.C07 import slice_parts
import stdmodel as SM

LEVEL = 'other'
ROLES = ['lib']
EXPLANATION = ('Decides the version/length gate and the version-dependent decoding switches, not the behaviour on all legacy files '
               '(the tree has no encoder for versions 1 and 2). R10.1/R10.4: the constructor is executed abstractly under every '
               'class of (version, length, root address) - all feasible paths of a class must have the outcome the contract '
               'assigns (Version / Format / opens), and the smallest well-formed file of each version must open. R10.2: on every '
               'opening path the metadata is read from the offsets the format assigns to that version. R10.3: every reader-side '
               'comparison with the index threshold is guarded by version >= 2. R10.5: verify() answers ChecksumMissing exactly '
               'when no checksum is stored. R10.6: the constructor is the only place the FST type is built; map_data goes through it.')
TRUSTED = ['linear-arithmetic reasoning over the guards (Fourier-Motzkin) is exact for the comparisons that occur']
ASSUMPTIONS = ['AsRef<[u8]> is pure']

NEW = 'raw::Fst::<D>::new'
VERIFY = 'raw::Fst::<D>::verify'
U64MAX = (1 << 64) - 1


def outcome(rv):
    rk = ret_kind(rv)
    if rk == 'ok':
        return 'Ok'
    if rk == 'err':
        for x in walk(rv):
            if x[0] == 'agg' and x[1].startswith('raw::error::Error::'):
                return x[1].rsplit('::', 1)[-1]
        return 'Err?'
    if rk == 'residual':
        # the error value travels through branch / from_residual: `opt.ok_or(Error::X)?`, or `helper(..)?` with the helper inlined
        for x in walk(rv):
            if x[0] == 'agg' and x[1].startswith('raw::error::Error::'):
                return x[1].rsplit('::', 1)[-1]
    return rk


def collect(ctx, lib):
    f = lib.fn(NEW)
    pv = Prover(lib)
    L = Linearizer(pv, f)
    recs = []

    def on_end(p, cs, fs, L_, nes=()):
        if p.end == 'return':
            recs.append((p, list(cs), list(nes), pv.inline(p.ret())))
    fl = analyse(pv, f, L=L, on_path_end=on_end)
    return f, pv, L, recs


def atoms(ctx, R, f, pv, L, recs):
    V = Ln = Rt = None
    meta_of = {}
    for p, cs, nes, rv in recs:
        for x in walk(rv):
            if x[0] == 'agg' and x[1] == 'raw::error::Error::Version':
                V = L.lin(dict(x[2]).get('got'))
            if x[0] == 'agg' and x[1] == 'raw::error::Error::Format' and Ln is None:
                Ln = L.lin(dict(x[2]).get('size'))
            if x[0] == 'agg' and x[1] == 'raw::Meta':
                m = dict(x[2])
                meta_of[id(p)] = m
                if Rt is None and 'root_addr' in m:
                    Rt = L.lin(m['root_addr'])
    return V, Ln, Rt, meta_of


def r10_1_4(ctx, f, pv, L, recs, V, Ln, Rt):
    R1 = ctx.rule('R10.1', 'version gate: Version error iff version = 0 or version > VERSION (for inputs long enough to be any file)', floor=4)
    R4 = ctx.rule('R10.4', 'length gate: exactly the per-version minimum (32 / 32 / 36) is enforced, and the smallest files open', floor=8)
    maxv = ctx.lib.const_scalar('raw::VERSION')
    ctx.check(R1, maxv == 3, 'const:VERSION', 'the supported format version constant is %s, the property fixes 3' % maxv, detail=maxv)
    if V is None or Ln is None or Rt is None:
        ctx.undecided(R1, 'atoms', 'cannot identify the version / length / root-address values in the constructor (V=%s L=%s R=%s)' % (V, Ln, Rt), fn=f)
        return
    c = Lin.const

    def rng(x, lo, hi):
        out = []
        if lo is not None:
            out.append(x - c(lo))
        if hi is not None:
            out.append(c(hi) - x)
        return out

    def eq(x, y):
        return [x - y, y - x]
    classes = [
        # (rule, name, constraints, allowed outcomes, required outcome)
        (R1, 'version=0,len>=32', rng(V, 0, 0) + rng(Ln, 32, None), {'Version'}, 'Version'),
        (R1, 'version>3,len>=32', rng(V, 4, None) + rng(Ln, 32, None), {'Version'}, 'Version'),
        (R1, 'version in 1..3,len>=36', rng(V, 1, 3) + rng(Ln, 36, None), {'Ok', 'Format'}, 'Ok'),
        (R4, 'len<32,version in 1..3', rng(V, 1, 3) + rng(Ln, 0, 31), {'Format'}, 'Format'),
        (R4, 'len<32,any version', rng(Ln, 0, 31), {'Format', 'Version'}, 'Format'),
        (R4, 'version=3,len in 32..35', rng(V, 3, 3) + rng(Ln, 32, 35), {'Format'}, 'Format'),
        (R4, 'version in 1..2,len=32,root=0 (smallest file)', lambda r: rng(V, 1, 2) + rng(Ln, 32, 32) + (rng(r, 0, 0) if r is not None else []), {'Ok'}, 'Ok'),
        (R4, 'version=3,len=36,root=0 (smallest file)', lambda r: rng(V, 3, 3) + rng(Ln, 36, 36) + (rng(r, 0, 0) if r is not None else []), {'Ok'}, 'Ok'),
        (R4, 'version in 1..2,len in 33..35,root=len-17', lambda r: rng(V, 1, 2) + rng(Ln, 33, 35) + (eq(r + c(17), Ln) if r is not None else []), {'Ok'}, 'Ok'),
        (R4, 'version in 1..2,len>=36,root=len-17', lambda r: rng(V, 1, 2) + rng(Ln, 36, None) + (eq(r + c(17), Ln) if r is not None else []), {'Ok'}, 'Ok'),
        (R4, 'version=3,len>=37,root=len-21', lambda r: rng(V, 3, 3) + rng(Ln, 37, None) + (eq(r + c(21), Ln) if r is not None else []), {'Ok'}, 'Ok'),
    ]
    def root_of(p, rv):
        for x in walk(rv):
            if x[0] == 'agg' and x[1] == 'raw::Meta' and 'root_addr' in dict(x[2]):
                return L.lin(dict(x[2])['root_addr'])
        cands = []
        for d in p.decisions:
            e0 = pv.inline(d[2])
            # the comparison itself, or one buried in a bool temporary (`let oversized_empty = root == EMPTY && ..`)
            cands.extend(x for x in walk(e0) if x[0] == 'bin' and x[1] in ('Eq', 'Ne'))
        for e in cands:
            if True:
                for a, b in ((e[2], e[3]), (e[3], e[2])):
                    if (b == ('const', 0) or b == ('citem', 'raw::EMPTY_ADDRESS')) and any(y[0] == 'call' and isinstance(y[1], str) and y[1].endswith('from_le_bytes') for y in walk(a)):
                        la = L.lin(a)
                        if la is not None and V is not None and (la - V).is_const() and (la - V).c == 0:
                            continue          # `version == 0` is not the root-address test
                        return la
        return None
    for rid, name, Kf, allowed, required in classes:
        seen = {}
        for p, cs, nes, rv in recs:
            K = Kf(root_of(p, rv)) if callable(Kf) else Kf
            if L.feasible(cs + K, nes):
                seen.setdefault(outcome(rv), p)
        bad = set(seen) - allowed
        if bad:
            p = seen[sorted(bad)[0]]
            ctx.violation(rid, 'class:' + name, 'inputs of class [%s] can end in %s (contract: %s)' % (name, sorted(bad), sorted(allowed)), fn=f,
                          detail={'decisions': [fmt(d[2])[:100] + ' = ' + str(d[3]) for d in p.decisions][-6:]})
        elif required not in seen:
            ctx.violation(rid, 'class:' + name, 'no path of the constructor yields %s for inputs of class [%s] (outcomes: %s)' % (required, name, sorted(seen)), fn=f)
        else:
            ctx.ok(rid, 'class:' + name, {'outcomes': sorted(seen), 'allowed': sorted(allowed)}, fn=f)


def le_source(L, e):
    """(base, offset, length, bits) of the byte range decoded little-endian into integer expression e"""
    import re
    if e is None:
        return None
    e = L.pv.inline(e)
    for x in walk(e):
        if x[0] == 'call' and isinstance(x[1], str) and x[1].endswith('::from_le_bytes'):
            m = re.search(r'impl u(\d+)>::from_le_bytes', x[1])
            bits = int(m.group(1)) if m else None
            a = x[2][0]
            if a[0] == 'call' and isinstance(a[1], str) and a[1] in SM.UNWRAP_OK:
                a = a[2][0]
            if a[0] == 'call' and isinstance(a[1], str) and (a[1] in SM.TRY_INTO or a[1].endswith('::try_into')):
                base, o, ln = slice_parts(L, a[2][0])
                return base, o, ln, bits
            return None
    return None


def r10_2(ctx, f, pv, L, recs, V, Ln, meta_of):
    R = ctx.rule('R10.2', 'per-version metadata offsets: version@0, type@8, len@end-16, root@end-8, checksum@len-4 with end = len (v<=2) / len-4 (v3)', floor=2)
    if V is None or Ln is None:
        return
    c = Lin.const
    n = 0
    for p, cs, nes, rv in recs:
        m = meta_of.get(id(p))
        if m is None or outcome(rv) != 'Ok':
            continue
        old = L.feasible(cs + [c(2) - V], nes)
        new = L.feasible(cs + [V - c(3)], nes)
        if old and new:
            ctx.undecided(R, 'version-split', 'an opening path is feasible for both version <= 2 and version >= 3: offsets cannot depend on the version', fn=f)
            continue
        if not old and not new:
            continue
        n += 1
        tail = 0 if old else 4
        want = {'version': (c(0), 8), 'ty': (c(8), 8), 'len': (Ln - c(16 + tail), 8), 'root_addr': (Ln - c(8 + tail), 8)}
        tag = 'v<=2' if old else 'v3'
        for field, (off, width) in want.items():
            e = m.get(field)
            src = le_source(L, e)
            if src is None:
                ctx.undecided(R, '%s:%s' % (tag, field), 'metadata field %s is not read through a little-endian reader: %s' % (field, fmt(e)[:80]), fn=f)
                continue
            base, o, ln, bits = src
            okw = bits == 64 and ln is not None and entails([], ln - c(8)) and entails([], c(8) - ln)
            good = o is not None and okw and entails(cs + L.range_constraints(cs + [o, off]), o - off) and entails(cs + L.range_constraints(cs + [o, off]), off - o)
            ctx.check(R, good, '%s:%s' % (tag, field), 'for %s files the %s word is read at offset %s instead of %s' % (tag, field, o, off), fn=f, detail={'offset': repr(o), 'expected': repr(off)})
        ck = m.get('checksum')
        if ck is not None and ck[0] == 'call' and isinstance(ck[1], str) and ck[1].rsplit('::', 1)[-1] in ('then', 'then_some') and 'bool' in ck[1] and len(ck[2]) == 2:
            # `(version > 2).then(|| read ..)`: Some(closure result) where the condition holds on this path, None where it cannot
            from absint import bool_constraints
            import vsplit
            bc1, bc0 = bool_constraints(L, ck[2][0], 1), bool_constraints(L, ck[2][0], 0)
            can_some = bc1 is not None and L.feasible(cs + bc1, nes)
            can_none = bc0 is not None and L.feasible(cs + bc0, nes)
            if can_none and not can_some:
                ck = ('agg', 'std::option::Option::None', ())
            elif can_some and not can_none:
                if ck[1].endswith('then_some'):
                    ck = ('agg', 'std::option::Option::Some', (('0', ck[2][1]),))
                else:
                    cc = vsplit.closure_cases(ctx.lib, ck[2][1], [], 0) if ck[2][1][0] == 'closure' else None
                    if cc and len(cc) == 1:
                        ck = ('agg', 'std::option::Option::Some', (('0', pv.inline(cc[0][1])),))
        if old:
            ctx.check(R, ck is not None and ck[0] == 'agg' and ck[1].endswith('::None'), 'v<=2:checksum', 'a version <= 2 file is given a checksum: %s' % fmt(ck)[:80], fn=f)
        else:
            good = False
            if ck is not None and ck[0] == 'agg' and ck[1].endswith('::Some'):
                src = le_source(L, ck[2][0][1])
                if src:
                    base, o, ln, bits = src
                    off = Ln - c(4)
                    good = o is not None and bits == 32 and entails(cs, o - off) and entails(cs, off - o)
            ctx.check(R, good, 'v3:checksum', 'a version-3 file does not take its checksum from the last 4 bytes: %s' % fmt(ck)[:100], fn=f)
    if n < 2:
        ctx.undecided(R, 'paths', 'fewer than two opening paths (one per footer layout) found', fn=f)


def r10_3(ctx):
    R = ctx.rule('R10.3', 'the transition index is consulted / accounted only for version >= 2 (same guard at every reader site)', floor=1)
    lib = ctx.lib
    thr = 'raw::node::TRANS_INDEX_THRESHOLD'
    n = 0
    for g in lib.fn_list:
        if any('as std::io::Write>' in p for p in g.preds) or g.from_expansion:
            continue
        uses = False
        for b in g.normal_blocks():
            for st in b['stmts']:
                if st['k'] == 'assign' and 'item' in str(st['rv']) and thr in str(st['rv']):
                    uses = True
        if not uses:
            continue
        for p in explore(g, max_visits=1, havoc=True, limit=500):
            hits = [d for d in p.decisions if d[2][0] == 'bin' and any(x == ('citem', thr) for x in walk(d[2]))]
            for d in hits:
                e, val = d[2], d[3]
                wide = (e[1] == 'Gt' and val == 1) or (e[1] == 'Le' and val == 0) or (e[1] == 'Lt' and val == 1 and e[2] == ('citem', thr)) or (e[1] == 'Ge' and val == 0 and e[2] == ('citem', thr))
                if not wide:
                    continue
                n += 1
                vg = [x for x in p.decisions if x[0] <= d[0] and x[2][0] == 'bin' and x[2][1] in ('Ge', 'Gt', 'Lt', 'Le') and
                      any((y[0] == 'field' and y[2] == 'version') or (y[0] == 'param' and (y[1] == 'version' or g.local_ty(y[2]) == 'u64')) for y in walk(x[2]))]
                good = any((x[2][1] == 'Ge' and x[2][3] == ('const', 2) and x[3] == 1) or (x[2][1] == 'Gt' and x[2][3] == ('const', 1) and x[3] == 1) or
                           (x[2][1] == 'Lt' and x[2][3] == ('const', 2) and x[3] == 0) for x in vg)
                ctx.check(R, good, 'guard', 'a reader takes the "node has an index table" branch (ntrans > threshold) without requiring version >= 2: version-1 files have no index', fn=g, at=g.span)
    if n == 0:
        ctx.undecided(R, 'sites', 'no reader-side comparison with the index threshold found')


def r10_5(ctx):
    R = ctx.rule('R10.5', 'verify() reports ChecksumMissing exactly when no checksum is stored', floor=2)
    lib = ctx.lib
    f = lib.fn(VERIFY)
    if f is None:
        ctx.missing(R, 'anchor:verify', 'verify not found')
        return
    pv = Prover(lib)
    seen = set()
    for p in explore(f, max_visits=1, havoc=True, limit=2000):
        if p.end != 'return':
            continue
        ck = None
        for d in p.decisions:
            e, val = stdalg.canon_decision(pv.inline(d[2]), d[3])
            if e[0] == 'discr' and e[1][0] == 'field' and e[1][2] == 'checksum':
                ck = val
        o = outcome(p.ret())
        if ck is None:
            ctx.undecided(R, 'path', 'a path of verify() returns %s without inspecting the stored checksum' % o, fn=f)
            continue
        seen.add((ck, o))
        if ck == 0:
            ctx.check(R, o == 'ChecksumMissing', 'none', 'verify() on a file without checksum returns %s instead of ChecksumMissing' % o, fn=f)
        else:
            ctx.check(R, o != 'ChecksumMissing', 'some', 'verify() on a file with a checksum can return ChecksumMissing', fn=f)
    ctx.check(R, any(k == 0 for k, _ in seen) and any(k == 1 for k, _ in seen), 'both-arms', 'verify() does not distinguish stored / missing checksum', fn=f, detail=sorted(seen))


def r10_7(ctx):
    """files of versions 1 and 2 carry no checksum: verify() answers ChecksumMissing for them by contract.  A reader that calls verify()
    on its way to opening a file (other than the verify command / verify wrappers themselves) turns "no checksum" into "cannot be read"."""
    R = ctx.rule('R10.7', 'opening a file does not depend on verify(): only the verify command and verify wrappers call it', floor=1)
    n = 0
    for cr, allowed in ((ctx.lib, lambda p: p.rsplit('::', 1)[-1] == 'verify'), (ctx.bin, lambda p: 'verify' in p.lower())):
        if cr is None:
            continue
        for f in cr.fn_list:
            if f.from_expansion:
                continue
            for _, t in f.calls():
                cal = f.callee(t) or ''
                if cal.endswith('Fst::<D>::verify') or (cal.endswith('::verify') and ('Map' in cal or 'Set' in cal or 'Fst' in cal)):
                    n += 1
                    ctx.check(R, allowed(f.path), 'verify-caller:' + f.path, '%s calls verify() although it is not the verify command: files written by versions 1 and 2 (no checksum, ChecksumMissing by contract) can no longer be used through it' % f.path, fn=f, at=t.get('span'))
    if n == 0:
        ctx.undecided(R, 'verify-caller', 'no caller of verify() found (the verify command was redesigned)')
    # ... nor on a length test of its own: the smallest file is 32 bytes for versions 1 and 2, 36 for version 3, and Fst::new knows
    if ctx.bin is not None:
        for f in ctx.bin.fn_list:
            if f.from_expansion or not any((f.callee(t) or '').endswith('Fst::<D>::new') for _, t in f.calls()):
                continue
            sized = [t for _, t in f.calls() if (f.callee(t) or '').endswith(('Metadata::len', 'fs::metadata', 'File::metadata'))]
            ctx.check(R, not sized, 'open-size-gate:' + f.path, '%s looks at the size of the file before handing it to Fst::new: a length gate of its own (36 bytes?) refuses the 32-byte files of versions 1 and 2' % f.path, fn=f, at=sized[0].get('span') if sized else None)


def r10_6(ctx):
    R = ctx.rule('R10.6', 'single constructor: the FST type is built only in new (derived Clone excepted); map_data goes through new', floor=2)
    lib = ctx.lib
    ctors = []
    for f in lib.fn_list:
        for b in f.normal_blocks():
            for st in b['stmts']:
                if st['k'] == 'assign' and isinstance(st['rv'].get('agg'), dict) and st['rv']['agg'].get('adt') == 'raw::Fst':
                    ctors.append(f)
    bad = [f for f in ctors if f.path != NEW and not (f.from_expansion and f.impl and f.impl.get('trait_path') == 'std::clone::Clone')]
    for f in bad:
        ctx.violation(R, 'ctor:' + f.path, 'the FST type is constructed outside Fst::new: version and length gates are bypassed', fn=f)
    ctx.check(R, bool(ctors) and not bad, 'single-constructor', 'constructor not found', detail=[f.path for f in ctors])
    cg = CallGraph(lib)
    md = lib.fn('raw::Fst::<D>::map_data')
    ctx.check(R, md is not None and NEW in cg.edges.get(md.path, ()), 'map_data', 'map_data does not re-open the mapped container through Fst::new', fn=md)


def run(ctx):
    lib = ctx.lib
    if lib.fn(NEW) is None:
        ctx.missing('R10.1', 'anchor:new', 'Fst::new not found')
        return
    f, pv, L, recs = ctx.step(collect, ctx, lib)
    V, Ln, Rt, meta_of = ctx.step(atoms, ctx, 'R10.1', f, pv, L, recs)
    ctx.count('constructor_paths', len(recs))
    ctx.step(r10_1_4, ctx, f, pv, L, recs, V, Ln, Rt)
    ctx.step(r10_2, ctx, f, pv, L, recs, V, Ln, meta_of)
    ctx.step(r10_3, ctx)
    ctx.step(r10_5, ctx)
    ctx.step(r10_6, ctx)
    ctx.step(r10_7, ctx)
    # files written by other releases are read correctly only if the format constants (version, index threshold, sentinels,
    # common-input tables) are the documented ones: R09.1
    from rules import formatrules
    ctx.step(formatrules.constants, ctx)
    # a file of any supported version answers queries according to its content only if every node accessor reads the offsets the
    # format assigns (with the index present from version 2 on): the reader half of the layout table, shared with C01 / C02
    from rules import readerrules
    R1 = ctx.rule('R01.1', 'reader offsets of every node accessor equal the positions the format table assigns (shared with C01)', floor=30)
    R2 = ctx.rule('R02.2', 'scan / index agreement on the reader side (shared with C02)', floor=2)
    ctx.step(readerrules.run, ctx, R1, R2)
    ctx.step(formatrules.state_and_sizes_bits, ctx)
