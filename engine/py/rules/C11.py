"""C11 — I/O failures surface as errors, never as panics or silent success."""
import re
from paths import explore
from sym import fmt, walk
from callgraph import CallGraph
from rules.common import calls_in_loops, adt_base, Anchors, path_calls, ret_kind, root_param, arg_locs
import stdmodel as SM
from rules.streams import norm

LEVEL = 'other'       # was 'proof': seeded changes twice found a channel the reduction had not listed (DESIGN.md §7.6), so the honest level is structural
NEED_FIXTURE = True
ROLES = ['lib']
EXPLANATION = ('Scope: every library function generic over an io::Write sink (builders, emission helpers, node encoders, the '
               'counting adapter) and their closures. R11.1: def-use of every Result<_, io::Error> / crate Result produced by a '
               'call in scope - it must flow to `?`, to the return place or through map/map_err/and_then into one of those; drops, '
               '.ok(), unwrap_or*, is_ok, and matches whose Err arm returns Ok are violations. R11.2: no unwrap/expect on such a '
               'value. R11.3: every Ok path of the finishing routine passes compile of the pending nodes, the footer writes, the '
               'checksum write and a final flush on the raw sink, in that order, and hands back that sink; finish() succeeds only '
               'through it. R11.4: emission is write_all only. R11.5: io::Error converts to the Io variant.')
TRUSTED = ['desugaring of `?` (Try::branch / FromResidual::from_residual) propagates the Err value to the caller',
           'io::Write::write_all turns a zero-length write into Err(WriteZero)']
ASSUMPTIONS = ['the Vec<u8>-only conveniences (memory, into_fst, into_map, into_set, Default) are outside the property: their sink cannot fail']

RESULT_TY = re.compile(r"^std::result::Result<.*(std::io::Error|error::Error|fst::Error|anyhow::Error)>$")


def in_scope(lib):
    scope = {}
    for f in lib.fn_list:
        if any('as std::io::Write>' in p and 'TraitPredicate' in p for p in f.preds):
            scope[f.path] = f
    for f in lib.fn_list:
        if f.kind == 'Closure' and f.parent in scope:
            scope[f.path] = f
    return scope


def result_locals_from_calls(f):
    for bid, t in f.calls():
        d = t['dest']
        if d['proj']:
            continue
        ty = f.local_ty(d['local'])
        if RESULT_TY.match(ty):
            yield bid, t, d['local'], ty


def uses_of(f, local, skip=None):
    """[(bid, idx, how, stmt_or_term)] for places rooted exactly at `local` (no projection) other than its definition"""
    out = []
    for bid, idx, p, how in f.places():
        if p['local'] != local:
            continue
        if how == 'dest' or (how == 'store' and not p['proj']):
            continue
        out.append((bid, idx, how, p))
    return out


def classify(ctx, f, local, site_bid, depth=0, seen=None):
    """returns list of (verdict, detail) with verdict in ok/dropped/swallowed/unwrapped/matched/undecided"""
    seen = seen or set()
    if local in seen or depth > 6:
        return [('undecided', 'result value flows through a cycle of moves')]
    seen.add(local)
    if local == 0:
        return [('ok', 'returned')]
    res = []
    us = uses_of(f, local)
    real = [u for u in us if u[2] != 'drop']
    if not real:
        return [('dropped', 'the value is never used (let _ = .. / statement expression)')]
    # a Result parked in a variable that the next iteration of the loop assigns again, without anything in the loop having looked at
    # it: only the LAST iteration's outcome survives, every earlier failure is lost
    loops = f.loops()
    if loops:
        defs = [bid for bid, idx, p, how in f.places() if p['local'] == local and (how == 'dest' or (how == 'store' and not p['proj']))]
        for h, body in loops.items():
            if any(b in body for b in defs) and not any(u[0] in body for u in real):
                return [('dropped', 'assigned inside a loop and not inspected there: overwritten by the next iteration')]
    for bid, idx, how, p in real:
        b = f.blocks[bid]
        if idx == 'T':
            t = b['term']
            if t['k'] == 'call':
                callee = f.callee(t)
                decl = f.callee_decl(t)
                if callee in SM.TRY_BRANCH or decl in SM.TRY_BRANCH:
                    res.append(('ok', '?'))
                elif callee in SM.UNWRAP_OK or callee in SM.UNWRAP_ERR:
                    res.append(('unwrapped', callee.rsplit('::', 1)[-1]))
                elif isinstance(callee, str) and SM.RESULT_PASS.match(callee):
                    d = t['dest']
                    if d['proj']:
                        res.append(('undecided', 'result of %s stored through a projection' % callee))
                    else:
                        res.extend(classify(ctx, f, d['local'], bid, depth + 1, seen))
                elif isinstance(callee, str) and SM.RESULT_SWALLOW.match(callee):
                    res.append(('swallowed', callee.rsplit('::', 1)[-1]))
                elif isinstance(callee, str) and callee in ('<T as std::convert::Into<U>>::into', 'std::convert::Into::into', '<T as std::convert::From<T>>::from'):
                    d = t['dest']
                    res.extend(classify(ctx, f, d['local'], bid, depth + 1, seen) if not d['proj'] else [('undecided', 'into() stored through projection')])
                else:
                    res.append(('undecided', 'passed to %s' % callee))
            elif t['k'] == 'switch':
                res.append(('matched', None))
            else:
                res.append(('undecided', 'used by terminator %s' % t['k']))
        else:
            st = b['stmts'][idx]
            if how == 'discr':
                res.append(('matched', None))
            elif how in ('read', 'ref', 'refmut') and st['k'] == 'assign':
                tgt = st['place']
                if p['proj']:
                    # reading the payload of a matched value
                    res.append(('matched', None))
                elif tgt['proj']:
                    res.append(('undecided', 'stored into %s' % (f.loc(tgt),)))
                else:
                    res.extend(classify(ctx, f, tgt['local'], bid, depth + 1, seen))
            else:
                res.append(('undecided', 'used by %s' % how))
    return res


def match_check(f, site_bid):
    """for results inspected by a match: on every path where the Err arm is taken the function must not return Ok"""
    bad = []
    nerr = 0
    for p in explore(f, max_visits=1, havoc=True, limit=4000):
        if p.end != 'return':
            continue
        for d in p.decisions:
            e, val = d[2], d[3]
            if e[0] == 'discr':
                hit = any(x[0] == 'call' and x[3] == (f.path, site_bid) for x in walk(e[1]))
                root = e[1]
                while root[0] in ('field', 'variant'):
                    root = root[1]
                direct = root[0] == 'call' and root[3] == (f.path, site_bid)
                if hit and direct and val == 1:
                    nerr += 1
                    rk = ret_kind(p.ret())
                    if rk == 'ok' or (rk == 'unknown' and f.local_ty(0) == '()'):
                        bad.append(p)
    return nerr, bad


def r11_1_2(ctx, crate, scope, R1, R2, control=False):
    n_results = 0
    hits = {'dropped': [], 'swallowed': [], 'unwrapped': [], 'matched-bad': [], 'undecided': []}
    for f in scope.values():
        for bid, t, local, ty in result_locals_from_calls(f):
            n_results += 1
            callee = f.callee(t)
            verdicts = classify(ctx, f, local, bid)
            kinds = {v for v, _ in verdicts}
            key = '%s@%s' % (callee, f.path)
            at = t.get('span')
            if 'matched' in kinds:
                nerr, bad = match_check(f, bid)
                if bad:
                    kinds.add('matched-bad')
                elif nerr == 0:
                    kinds.add('undecided')
                    verdicts.append(('undecided', 'matched but no Err arm found'))
            worst = None
            for k in ('dropped', 'swallowed', 'matched-bad', 'unwrapped', 'undecided'):
                if k in kinds:
                    worst = k
                    break
            if control:
                if worst:
                    hits[worst].append(f.path)
                continue
            if worst is None:
                ctx.ok(R1, key + '#%d' % bid, {'result_of': callee, 'consumed_by': sorted({d for v, d in verdicts if d})}, fn=f, at=at)
            elif worst == 'unwrapped':
                ctx.violation(R2, 'unwrap:' + key, 'an I/O or crate Result is unwrapped: a failing sink panics instead of returning Err(Io)', fn=f, at=at)
            elif worst == 'undecided':
                ctx.undecided(R1, 'flow:' + key, 'cannot follow the Result of %s: %s' % (callee, [d for v, d in verdicts if v == 'undecided'][:2]), fn=f, at=at)
            else:
                msg = {'dropped': 'the Result of %s is dropped: an I/O failure is ignored and the build can be reported as successful',
                       'swallowed': 'the Result of %s is converted with a method that discards the error',
                       'matched-bad': 'the Err arm of a match on the Result of %s reaches a success return'}[worst]
                ctx.violation(R1, '%s:%s' % (worst, key), msg % callee, fn=f, at=at)
    # a discarding method handed on as a function value (`.and_then(Result::ok)`, `.map(Result::unwrap_or_default)`): whatever Result
    # reaches it loses its error, and no call of it appears in this function's own body
    if not control:
        import json as _json
        for f in scope.values():
            for bid, t in f.calls():
                for a in t.get('args', []):
                    c = a.get('const') if isinstance(a, dict) else None
                    fnp = c.get('fn') if isinstance(c, dict) else None
                    if isinstance(fnp, str) and SM.RESULT_SWALLOW.match(fnp):
                        n_results += 1
                        ctx.violation(R1, 'swallowed-by-reference:%s@%s' % (fnp.rsplit('::', 1)[-1], f.path),
                                      'Result::%s is handed to %s as a function value: the error of every Result that flows through it is discarded' % (fnp.rsplit('::', 1)[-1], (f.callee(t) or '?').rsplit('::', 1)[-1]), fn=f, at=t.get('span'))
    return n_results, hits


def r11_3(ctx, A):
    R = ctx.rule('R11.3', 'finish protocol: pending nodes, footer, checksum and a propagated flush precede every success', floor=3)
    lib = ctx.lib
    cg = CallGraph(lib)
    getter = None
    for f in lib.fn_list:
        if f.impl and adt_base(f.impl['self_ty']) == A.cw and not f.impl.get('trait_path'):
            accs = list(f.field_accesses(A.cw, A.cw_inner))
            if accs and f.local_ty(0) != "()" and not f.local_ty(0).startswith('&') and f.arg_count == 1 and not f.local_ty(1).startswith('&'):
                getter = f
    if getter is None:
        ctx.missing(R, 'anchor:cw-into-inner', 'by-value getter of the counting writer not found')
        return
    finishers = [m for m in A.builder_methods() if getter.path in cg.edges.get(m.path, ())]
    if len(finishers) != 1:
        ctx.missing(R, 'anchor:finisher', 'expected exactly one builder method unwrapping the counting writer, found %s' % [m.path for m in finishers])
        return
    fin = finishers[0]
    emits = {p for p in lib.fns if any(q == SM.IO_WRITE_ALL for q in cg.reachable([p]))}
    n_ok = 0
    for p in explore(fin, max_visits=1, havoc=True, limit=4000):
        if p.end != 'return' or ret_kind(p.ret()) != 'ok':
            continue
        n_ok += 1
        calls = path_calls(p)
        names = [c[2] for c in calls]
        # positions
        def first(pred, start=0):
            for i in range(start, len(calls)):
                if pred(calls[i]):
                    return i
            return None
        ig = first(lambda c: c[2] == getter.path)
        problems = []
        hidden = []
        if ig is None:
            problems.append('the counting writer is never unwrapped')
        else:
            before = calls[:ig]
            after = calls[ig + 1:]
            compile_calls = [c for c in before if c[2] in emits and c[2] in {m.path for m in A.builder_methods()}]
            footer = [c for c in before if c[2] in emits and c[2] not in {m.path for m in A.builder_methods()} and any(
                l is not None and l[:2] == (1, A.b_wtr) for l in arg_locs(fin, c[4]))]
            if len(compile_calls) < 2:
                problems.append('fewer than two compile steps (pending nodes, root) before the footer: %s' % [c[2] for c in compile_calls])
            if len(footer) < 2 and calls_in_loops(fin, lambda c: c in emits and c not in {m.path for m in A.builder_methods()}):
                hidden.append('footer writes sit inside a loop')
            elif len(footer) < 2:
                problems.append('fewer than two footer writes through the counting writer before it is unwrapped (found %d)' % len(footer))
            raw_emit = [i for i, c in enumerate(after) if (c[2] in emits or f_decl(fin, c) == SM.IO_WRITE_ALL)]
            flushes = [i for i, c in enumerate(after) if f_decl(fin, c) == SM.IO_FLUSH]
            if not raw_emit:
                problems.append('no checksum write on the raw sink after unwrapping')
            if not flushes:
                problems.append('success without flushing the sink')
            elif raw_emit and max(raw_emit) > max(flushes):
                problems.append('bytes are written after the last flush')
            # the Ok payload is the raw sink
            okv = dict(p.ret()[2]).get('0')
            base = okv
            while base is not None and base[0] == 'after':
                base = base[3]
            if not (base is not None and base[0] == 'call' and base[1] == getter.path):
                problems.append('the writer handed back is not the unwrapped sink: %s' % fmt(base)[:80])
        if hidden and not problems:
            ctx.undecided(R, 'finish-path', 'the footer is written from inside a loop (over a list of words): the number of footer writes before the unwrap is not decided', fn=fin)
            continue
        ctx.check(R, not problems, 'finish-path', '; '.join(problems), fn=fin, detail={'sequence': [n.rsplit('::', 2)[-2] + '::' + n.rsplit('::', 1)[-1] if isinstance(n, str) else str(n) for n in names]})
    if n_ok == 0:
        ctx.undecided(R, 'no-success-path', 'no success path in %s' % fin.path, fn=fin)
    # finish(): Ok only via the finisher's Ok
    wrappers = []
    for f in lib.fn_list:
        if f.path == fin.path or f.path not in in_scope(lib):
            continue
        if fin.path in cg.reachable([f.path]) and f.vis == 'pub' and f.path.rsplit('::', 1)[-1] in ('finish', 'into_inner'):
            wrappers.append(f)
    for f in wrappers:
        good = True
        why = ''
        for p in explore(f, max_visits=1, havoc=True):
            if p.end != 'return':
                continue
            rk = ret_kind(p.ret())
            calls = [c[2] for c in path_calls(p)]
            reaches = any(c == fin.path or (isinstance(c, str) and c in lib.fns and fin.path in cg.reachable([c])) for c in calls)
            if rk == 'ok' and not reaches:
                good, why = False, 'returns Ok on a path that never runs the finishing routine'
            if rk == 'unknown':
                good, why = False, 'unrecognised return shape %s' % fmt(p.ret())[:80]
        ctx.check(R, good, 'wrapper:' + f.path, why, fn=f)


def f_decl(f, c):
    return f.callee_decl(c[4])


def r11_5(ctx):
    R = ctx.rule('R11.5', 'io::Error converts into the Io variant of the crate error', floor=1)
    lib = ctx.lib
    fs = [f for f in lib.fn_list if f.impl and f.impl.get('trait_path') == 'std::convert::From' and f.impl['self_ty'] == 'error::Error' and 'std::io::Error' in (f.impl.get('trait') or '')]
    if len(fs) != 1:
        ctx.missing(R, 'anchor:from-io-error', 'From<io::Error> for the crate error not found (%d)' % len(fs))
        return
    f = fs[0]
    for p in explore(f, max_visits=1):
        if p.end != 'return':
            continue
        v = p.ret()
        ok = v[0] == 'agg' and v[1] == 'error::Error::Io' and v[2] and v[2][0][1] == ('param', f.local_name(1), 1)
        ctx.check(R, ok, 'variant', 'From<io::Error> builds %s instead of Error::Io(err)' % fmt(v)[:80], fn=f)


BUFFERING = ('std::io::BufWriter::<W>::new', 'std::io::BufWriter::<W>::with_capacity', 'std::io::LineWriter::<W>::new', 'std::io::LineWriter::<W>::with_capacity')


def buffering_adapters(crate, fns):
    """[(fn, terminator, flushed?)] for every buffering adapter built in the given functions"""
    out = []
    for f in fns:
        for bid, t in f.calls():
            c = f.callee(t) or ''
            if c in BUFFERING:
                flushed = any((f.callee(t2) or '').endswith(('BufWriter::<W>::into_inner', 'LineWriter::<W>::into_inner')) or f.callee_decl(t2) == SM.IO_FLUSH for _, t2 in f.calls())
                out.append((f, t, flushed))
    return out


def r11_6(ctx, scope):
    R = ctx.rule('R11.6', 'no drop-flushing adapter around the sink: a BufWriter / LineWriter that is dropped writes its pending bytes and DISCARDS the error', floor=1)
    lib = ctx.lib
    for f, t, flushed in buffering_adapters(lib, [f for f in lib.fn_list if not f.from_expansion]):
        if flushed:
            ctx.undecided(R, 'adapter:' + f.path, 'a buffering adapter is built and explicitly flushed / unwrapped here; whether every path does so before it is dropped is not decided', fn=f, at=t.get('span'))
        else:
            ctx.violation(R, 'adapter:' + f.path, 'a buffering adapter (%s) is put around the writer and never flushed or unwrapped: its Drop performs the outstanding writes and swallows their errors, so the build reports success with bytes missing' % (f.callee(t).split('::<')[0]), fn=f, at=t.get('span'))
    ctx.check(R, True, 'scan-complete', '', detail='%d library functions scanned for BufWriter / LineWriter construction' % len(lib.fn_list))
    fx = ctx.fixture
    hit = [f.path for f, t, fl in buffering_adapters(fx, fx.fn_list) if not fl]
    ctx.check(R, 'ctl_bufwriter_drop' in hit, 'control-bufwriter', 'the rule no longer fires on the fixture\'s unflushed BufWriter: checker broken', kind='violation', detail=hit)


def r11_7(ctx, scope):
    """fail fast: once a fallible operation on the sink has been started, nothing else touches the builder before its outcome is
    looked at - `let r = self.compile_from(..); self.unfinished.add_suffix(..); r` runs the bookkeeping on a builder whose write
    failed (and trips its assertions: a panic instead of Err(Io))"""
    R = ctx.rule('R11.7', 'fail fast: no builder state is touched between a fallible sink operation and the test of its result', floor=20)
    lib = ctx.lib
    from facts import is_mut_ref
    n = 0
    for path, f in sorted(scope.items()):
        if f.kind == 'Closure' or not any(True for _ in result_locals_from_calls(f)):
            continue
        res_bids = {bid for bid, t, l, ty in result_locals_from_calls(f)}
        bad = {}
        for p in explore(f, max_visits=1, havoc=True, limit=1500):
            calls = path_calls(p, expand=False)
            for (k0, bid0, callee0, args0, t0) in calls:
                if bid0 not in res_bids:
                    continue
                ce = norm(p.sym.call_expr_at((k0, 'T')))
                k1 = None
                for d in p.decisions:
                    if d[0] >= k0 and any(norm(x) == ce for x in walk(d[2]) if x[0] == 'call'):
                        k1 = d[0]
                        break
                if k1 is None:
                    k1 = len(p.blocks)
                n += 1
                for (k, bid, callee, args, t) in calls:
                    if not (k0 < k < k1) or not isinstance(callee, str):
                        continue
                    touches = False
                    for ai, a in enumerate(t['args']):
                        pl = a.get('copy') or a.get('move')
                        if pl is None or pl['proj'] or not is_mut_ref(f.local_ty(pl['local'])):
                            continue
                        l = f.refmap().get(pl['local'], (pl['local'],))
                        if l[:1] == (1,):
                            touches = True
                    if touches and (callee in lib.fns or SM.is_grow(callee)):
                        bad.setdefault((bid0, bid), (callee0, callee, t))
        for (b0, b1), (c0, c1, t) in sorted(bad.items()):
            ctx.violation(R, 'pending:%s' % path, 'the result of %s is still untested when %s modifies the builder: after a failed write the bookkeeping runs on a half-updated builder (assertions trip, the caller sees a panic or a later, unrelated error)' % (
                c0.rsplit('::', 1)[-1], c1.rsplit('::', 1)[-1]), fn=f, at=t.get('span'))
        if not bad:
            ctx.ok(R, 'fn:' + path, None, fn=f)
    ctx.count('fallible_calls_followed', n)


def r11_8(ctx, A):
    """the adapter reports what the sink did, it does not judge it: no explicit panic (assert! / panic! / unreachable!) after a call
    to the inner writer - a sink that accepts zero bytes must surface as Err(WriteZero) through write_all, not as a panic"""
    R = ctx.rule('R11.8', 'no explicit panic in the counting adapter after the inner writer was called', floor=1)
    impl = A.write_impl_fns() if not A.err else {}
    if not impl:
        ctx.missing(R, 'anchor:write-impl', 'io::Write impl of the counting writer not found')
        return
    for mname, f in sorted(impl.items()):
        bad = False
        for p in explore(f, max_visits=1, havoc=True):
            if p.end != 'diverge':
                continue
            calls = path_calls(p, expand=False)
            inner = [c for c in calls if f.callee_decl(c[4]) in SM.IO_WRITE_METHODS]
            pan = [c for c in calls if isinstance(c[2], str) and SM.is_panic_fn(c[2])]
            if inner and pan and pan[-1][0] > inner[0][0]:
                bad = True
        ctx.check(R, not bad, 'adapter-panics:' + mname, 'the counting writer\'s %s panics on an outcome of the inner writer (an assertion on the returned count): a misbehaving or merely zero-length-writing sink aborts the build instead of producing Err(Io)' % mname, fn=f)


def run(ctx):
    lib = ctx.lib
    A = Anchors(lib)
    R1 = ctx.rule('R11.1', 'no I/O or crate Result is dropped, swallowed or turned into success', floor=40)
    R2 = ctx.rule('R11.2', 'no unwrap/expect on an I/O or crate Result in the generic builder code', floor=1)
    scope = in_scope(lib)
    ctx.count('functions_in_scope', len(scope))
    n, _ = ctx.step(r11_1_2, ctx, lib, scope, R1, R2)
    ctx.count('result_values_followed', n)
    ctx.check(R2, True, 'scan-complete', '', detail='%d Result-producing call sites in %d functions scanned for unwrap/expect' % (n, len(scope)))
    # positive controls
    fx = ctx.fixture
    fscope = {f.path: f for f in fx.fn_list if f.path.startswith('ctl_')}
    _, hits = ctx.step(r11_1_2, ctx, fx, fscope, R1, R2, control=True)
    want = {'dropped': 'ctl_drop_result', 'swallowed': 'ctl_ok_result', 'unwrapped': 'ctl_unwrap_result', 'matched-bad': 'ctl_match_swallow'}
    for k, fnname in want.items():
        ctx.check(R1 if k != 'unwrapped' else R2, fnname in hits[k], 'control-' + k, 'the rule no longer fires on the fixture\'s %s instance: checker broken' % k, kind='violation', detail=hits[k])
    if A.err:
        for e in A.err:
            ctx.missing('R11.3', 'anchor', e)
    else:
        ctx.step(r11_3, ctx, A)
    # R11.4 = R07.2
    import rules.C07 as C07
    ctx.step(C07.r07_2, ctx, A)
    ctx.rules['R11.4'] = ctx.rules.pop('R07.2')
    ctx.rules['R11.4']['title'] = 'emission is write_all only (= R07.2): a zero-length write becomes WriteZero inside write_all'
    for v in ctx.violations:
        if v['rule'] == 'R07.2':
            v['rule'] = 'R11.4'
            v['key'] = v['key'].replace('R07.2|', 'R11.4|', 1)
    for s in ctx.samples:
        if s['rule'] == 'R07.2':
            s['rule'] = 'R11.4'
    ctx.step(r11_5, ctx)
    ctx.step(r11_6, ctx, scope)
    ctx.step(r11_7, ctx, scope)
    ctx.step(r11_8, ctx, A)
