"""Role-based anchors shared by several properties (no private item is anchored by its name alone)."""
import re
import stdmodel as SM
from sym import fmt, walk
from paths import explore


def adt_base(ty):
    return re.sub(r'<.*$', '', ty.lstrip('&').replace("'{erased} ", '').replace('mut ', '').strip())


class Anchors:
    def __init__(self, lib):
        self.lib = lib
        self.err = []
        self.builder = None        # ADT path of the raw builder
        self.cw = None             # ADT path of the counting writer
        self.b_wtr = None          # builder field holding the counting writer
        self.cw_inner = self.cw_cnt = self.cw_sum = None
        self.summer = None         # ADT path of the rolling checksum type
        self._find()

    def _find(self):
        lib = self.lib
        cands = []
        for p, a in lib.adts.items():
            if a['kind'] != 'Struct':
                continue
            for f in a['variants'][0]['fields']:
                base = adt_base(f['ty'])
                inner = lib.adts.get(base)
                if inner and any(i['self_ty'].startswith(base) and i.get('trait_path') == 'std::io::Write' for i in lib.impls):
                    cands.append((p, f['name'], base))
        if len(cands) != 1:
            self.err.append('expected exactly one struct holding a local io::Write adapter, found %s' % [c[0] for c in cands])
            return
        self.builder, self.b_wtr, self.cw = cands[0]
        for f in lib.adts[self.cw]['variants'][0]['fields']:
            ty = f['ty']
            if re.fullmatch(r'W(/#\d+)?', ty):
                self.cw_inner = f['name']
            elif ty in ('u64', 'usize'):
                self.cw_cnt = f['name']
            elif adt_base(ty) in lib.adts:
                self.cw_sum = f['name']
                self.summer = adt_base(ty)
        for n in ('cw_inner', 'cw_cnt', 'cw_sum'):
            if getattr(self, n) is None:
                self.err.append('counting writer field role %s not found' % n)

    def write_impl_fns(self):
        out = {}
        for f in self.lib.fn_list:
            if f.impl and f.impl.get('trait_path') == 'std::io::Write' and adt_base(f.impl['self_ty']) == self.cw:
                out[f.path.rsplit('::', 1)[-1]] = f
        return out

    def builder_methods(self):
        """inherent methods of the raw builder generic over W: io::Write"""
        out = []
        for f in self.lib.fn_list:
            if f.impl and not f.impl.get('trait_path') and adt_base(f.impl['self_ty']) == self.builder and f.kind == 'AssocFn':
                out.append(f)
        return out


def is_generic_writer_impl(f):
    """is f a method of an impl block generic over a writer (self type mentions a type parameter)"""
    return bool(f.impl) and bool(re.search(r'<W(/#\d+)?>', f.impl['self_ty']))


_STRAIGHT = {}


def straight_path(g):
    """the single returning path of a loop-free local helper (diverging assert paths ignored); for a fallible helper written with
    `?` the single path that returns Ok (its error exits are prefixes of that path); else None"""
    if g.path in _STRAIGHT:
        return _STRAIGHT[g.path]
    _STRAIGHT[g.path] = None
    if not g.loops():
        from paths import explore
        rets = [q for q in explore(g, max_visits=1, limit=64) if q.end == 'return']
        if len(rets) == 1:
            _STRAIGHT[g.path] = rets[0]
        elif 1 < len(rets) <= 16 and g.local_ty(0).startswith('std::result::Result<'):
            kinds = [(ret_kind(q.ret()), q) for q in rets]
            oks = [q for k, q in kinds if k == 'ok']
            if len(oks) == 1 and all(k in ('ok', 'residual', 'err') for k, _ in kinds):
                _STRAIGHT[g.path] = oks[0]
    return _STRAIGHT[g.path]


def path_calls(p, args=True, expand=True, _depth=0):
    """[(k, bid, callee, (arg exprs), term)] along a path; the last block's call is included only if the path continues after it.
    expand=True additionally lists, right after a call to a loop-free single-path LOCAL helper, the calls that helper makes, with the
    helper's parameters replaced by the caller's argument expressions and access paths (term['_locs']); extracting a few statements
    into a private method then leaves every event-based rule looking at the same events."""
    out = []
    n = len(p.blocks)
    crate = getattr(p.fn, 'crate', None)
    for k, bid in enumerate(p.blocks):
        t = p.fn.blocks[bid]['term']
        if t and t['k'] == 'call':
            if k == n - 1 and p.end != 'diverge':
                continue
            ce = p.sym.call_expr_at((k, 'T')) if (args or expand) else None
            callee = p.fn.callee(t)
            out.append((k, bid, callee, ce[2] if ce else None, t))
            if expand and crate is not None and isinstance(callee, str) and callee in crate.fns and _depth < 3 and callee != p.fn.path:
                g = crate.fns[callee]
                gp = straight_path(g)
                if gp is None:
                    continue
                if g.local_ty(0).startswith('std::result::Result<'):
                    # the caller's path must continue on the success edge of this call (or not inspect it at all)
                    import stdalg
                    from rules.streams import norm as _norm
                    me = _norm(ce)
                    failed = False
                    for d in p.cdecisions():
                        if d[0] >= k and d[2][0] == 'discr' and _norm(d[2][1]) == me and d[3] == 1:
                            failed = True
                    if failed:
                        continue
                from sym import subst, simplify_proj
                m = {i + 1: a for i, a in enumerate(ce[2])}
                clocs = [arg_loc(p.fn, t, i) for i in range(len(t['args']))]
                for (k2, b2, c2, a2, t2) in path_calls(gp, True, True, _depth + 1):
                    locs2 = []
                    for i in range(len(t2['args'])):
                        l = arg_loc(g, t2, i)
                        if l is not None and isinstance(l[0], int) and 1 <= l[0] <= g.arg_count:
                            base = clocs[l[0] - 1] if l[0] - 1 < len(clocs) else None
                            l = (tuple(base) + tuple(l[1:])) if base is not None else ('?helper', g.path) + tuple(l)
                        elif l is not None:
                            l = ('?helper', g.path) + tuple(l)
                        locs2.append(l)
                    tw = dict(t2)
                    tw['_locs'] = locs2
                    tw['_in'] = g.path
                    out.append((k, bid, c2, tuple(simplify_proj(subst(a, m)) for a in a2), tw))
    return out


def arg_loc(f, t, i):
    """access path of the i-th call argument (references resolved): (root local, field, ...) or None for constants"""
    if '_locs' in t:
        return t['_locs'][i] if i < len(t['_locs']) else None
    if i >= len(t['args']):
        return None
    a = t['args'][i]
    p = a.get('copy') or a.get('move')
    if p is None:
        return None
    loc = f.loc(p)
    rm = f.refmap()
    n = 0
    while len(loc) == 1 and loc[0] in rm and n < 20:
        loc = rm[loc[0]]
        n += 1
    return loc


def arg_locs(f, t):
    return [arg_loc(f, t, i) for i in range(len(t['args']))]


def ret_kind(e):
    """classify a returned Result expression: 'ok' | 'err' | 'residual' | 'passthrough:<callee>' | 'unknown'"""
    if e[0] == 'agg':
        if e[1].endswith('Result::Ok'):
            return 'ok'
        if e[1].endswith('Result::Err'):
            return 'err'
    if e[0] == 'call' and isinstance(e[1], str):
        if e[1] in SM.FROM_RESIDUAL or e[1].endswith('::from_residual'):
            return 'residual'
        return 'passthrough:' + e[1]
    return 'unknown'


def root_param(e):
    """the parameter an access-path expression is rooted in, with the field chain"""
    chain = []
    while isinstance(e, tuple):
        if e[0] == 'param':
            return e, list(reversed(chain))
        if e[0] in ('field',):
            chain.append(e[2])
            e = e[1]
        elif e[0] in ('variant', 'index', 'cast', 'len'):
            e = e[1]
        elif e[0] == 'after':
            e = e[3]
        else:
            return None, None
    return None, None


def calls_in_loops(f, pred):
    """call terminators of f that sit inside a loop body and whose callee satisfies pred: emissions a `for word in [a, b] { write(word) }`
    hides from rules that count straight-line calls on returning paths (such a rule reports undecided, not a violation)"""
    out = []
    loops = f.loops()
    if not loops:
        return out
    inloop = set()
    for body in loops.values():
        inloop |= set(body)
    for bid, t in f.calls():
        if bid in inloop and pred(f.callee(t) or f.callee_decl(t) or ''):
            out.append((bid, t))
    return out
