"""Role-based anchors shared by several properties (no private item is anchored by its name alone)."""
import re
import stdmodel as SM
from sym import fmt, walk
from paths import explore


def adt_base(ty):
    return re.sub(r'<.*$', '', ty.lstrip('&').replace("'{erased} ", '').replace('mut ', '').strip())


class Anchors:
    def __init__(self, lib):
        self.lib = lib
        self.err = []
        self.builder = None        # ADT path of the raw builder
        self.cw = None             # ADT path of the counting writer
        self.b_wtr = None          # builder field holding the counting writer
        self.cw_inner = self.cw_cnt = self.cw_sum = None
        self.summer = None         # ADT path of the rolling checksum type
        self._find()

    def _find(self):
        lib = self.lib
        cands = []
        for p, a in lib.adts.items():
            if a['kind'] != 'Struct':
                continue
            for f in a['variants'][0]['fields']:
                base = adt_base(f['ty'])
                inner = lib.adts.get(base)
                if inner and any(i['self_ty'].startswith(base) and i.get('trait_path') == 'std::io::Write' for i in lib.impls):
                    cands.append((p, f['name'], base))
        if len(cands) != 1:
            self.err.append('expected exactly one struct holding a local io::Write adapter, found %s' % [c[0] for c in cands])
            return
        self.builder, self.b_wtr, self.cw = cands[0]
        for f in lib.adts[self.cw]['variants'][0]['fields']:
            ty = f['ty']
            if re.fullmatch(r'W(/#\d+)?', ty):
                self.cw_inner = f['name']
            elif ty in ('u64', 'usize'):
                self.cw_cnt = f['name']
            elif adt_base(ty) in lib.adts:
                self.cw_sum = f['name']
                self.summer = adt_base(ty)
        for n in ('cw_inner', 'cw_cnt', 'cw_sum'):
            if getattr(self, n) is None:
                self.err.append('counting writer field role %s not found' % n)

    def write_impl_fns(self):
        out = {}
        for f in self.lib.fn_list:
            if f.impl and f.impl.get('trait_path') == 'std::io::Write' and adt_base(f.impl['self_ty']) == self.cw:
                out[f.path.rsplit('::', 1)[-1]] = f
        return out

    def builder_methods(self):
        """inherent methods of the raw builder generic over W: io::Write"""
        out = []
        for f in self.lib.fn_list:
            if f.impl and not f.impl.get('trait_path') and adt_base(f.impl['self_ty']) == self.builder and f.kind == 'AssocFn':
                out.append(f)
        return out


def is_generic_writer_impl(f):
    """is f a method of an impl block generic over a writer (self type mentions a type parameter)"""
    return bool(f.impl) and bool(re.search(r'<W(/#\d+)?>', f.impl['self_ty']))


def path_calls(p, args=True):
    """[(k, bid, callee, (arg exprs), term)] along a path; the last block's call is included only if the path continues after it"""
    out = []
    n = len(p.blocks)
    for k, bid in enumerate(p.blocks):
        t = p.fn.blocks[bid]['term']
        if t and t['k'] == 'call':
            if k == n - 1 and p.end != 'diverge':
                continue
            ce = p.sym.call_expr_at((k, 'T')) if args else None
            callee = p.fn.callee(t)
            out.append((k, bid, callee, ce[2] if ce else None, t))
    return out


def arg_loc(f, t, i):
    """access path of the i-th call argument (references resolved): (root local, field, ...) or None for constants"""
    if i >= len(t['args']):
        return None
    a = t['args'][i]
    p = a.get('copy') or a.get('move')
    if p is None:
        return None
    loc = f.loc(p)
    rm = f.refmap()
    n = 0
    while len(loc) == 1 and loc[0] in rm and n < 20:
        loc = rm[loc[0]]
        n += 1
    return loc


def arg_locs(f, t):
    return [arg_loc(f, t, i) for i in range(len(t['args']))]


def ret_kind(e):
    """classify a returned Result expression: 'ok' | 'err' | 'residual' | 'passthrough:<callee>' | 'unknown'"""
    if e[0] == 'agg':
        if e[1].endswith('Result::Ok'):
            return 'ok'
        if e[1].endswith('Result::Err'):
            return 'err'
    if e[0] == 'call' and isinstance(e[1], str):
        if e[1] in SM.FROM_RESIDUAL or e[1].endswith('::from_residual'):
            return 'residual'
        return 'passthrough:' + e[1]
    return 'unknown'


def root_param(e):
    """the parameter an access-path expression is rooted in, with the field chain"""
    chain = []
    while isinstance(e, tuple):
        if e[0] == 'param':
            return e, list(reversed(chain))
        if e[0] in ('field',):
            chain.append(e[2])
            e = e[1]
        elif e[0] in ('variant', 'index', 'cast', 'len'):
            e = e[1]
        elif e[0] == 'after':
            e = e[3]
        else:
            return None, None
    return None, None
