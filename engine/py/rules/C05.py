"""C05 — set operations over ordered streams equal their mathematical definitions (structural part)."""
from absint import Prover
from paths import explore
import stdalg
from sym import fmt, walk
from rules.common import path_calls, arg_loc, arg_locs, ret_kind
from rules.streams import norm, is_call

LEVEL = 'other'
ROLES = ['lib']
EXPLANATION = ('Decides the structural clauses, not equality with set theory for all tuples of streams: R05.1 slot linearity - every slot '
               'taken from the heap (or from the parked field) on a path is given back exactly once (refill) or parked, never dropped; '
               'R05.2 emit predicates - intersection emits iff the number of equal-key pops equals the number of INPUT STREAMS (length of '
               'the reader vector, exhausted streams included), symmetric difference iff that number is odd, union always; the counter '
               'starts at 1 and gains 1 per equal-key pop; R05.3 heap order is the reverse of (key, value), the two conditional pops test '
               '== and <=, difference drains with <=; R05.4 one (index, value) entry per popped slot, taken from THAT slot; difference '
               'reports index 0 with the first stream\'s value; R05.5 is_disjoint/is_subset/is_superset op<->predicate table; R05.6 '
               'wrappers delegate name-for-name, the set wrapper injects zero outputs.')
TRUSTED = ['BinaryHeap is a max-heap w.r.t. Ord', 'Option::map / unwrap_or / Ordering::reverse semantics']
ASSUMPTIONS = ['input streams yield strictly increasing keys (precondition of the property)']

OPS = {
    'union': "<raw::ops::Union<'f> as stream::Streamer<'a>>::next",
    'intersection': "<raw::ops::Intersection<'f> as stream::Streamer<'a>>::next",
    'symmetric_difference': "<raw::ops::SymmetricDifference<'f> as stream::Streamer<'a>>::next",
    'difference': "<raw::ops::Difference<'f> as stream::Streamer<'a>>::next",
}
HEAP = "raw::ops::StreamHeap::<'f>"
TAKERS = (HEAP + '::pop', HEAP + '::pop_if_equal', HEAP + '::pop_if_le')


def slot_of(call_expr):
    return ('okof', call_expr)        # canonical payload (stdalg): match / if let / `?` / unwrap all read this


def obtained_slots(f, p):
    """[(k, bid, kind, slot expr)] for slots obtained on the path (Some arm taken)"""
    out = []
    some = {}
    for d in p.cdecisions():
        e, val = d[2], d[3]
        if e[0] == 'discr' and e[1][0] == 'call':
            some[norm(e[1])] = val
    for (k, bid, callee, args, t) in path_calls(p):
        if callee in TAKERS or (isinstance(callee, str) and callee.endswith('Option::<T>::take') and arg_loc(f, t, 0) == (1, 'cur_slot')):
            ce = p.sym.call_expr_at((k, 'T'))
            if some.get(norm(ce)) == 1:
                kind = 'parked' if callee.endswith('::take') else callee.rsplit('::', 1)[-1]
                out.append((k, bid, kind, peel(slot_of(ce))))
    return out


def peel(e):
    """norm + look through Option plumbing: unwrap(as_ref(Some(x))) = x; payloads in canonical form"""
    e = norm(stdalg.canon_value(e))
    changed = True
    while changed:
        changed = False
        if is_call(e, 'Option::<T>::as_ref') or is_call(e, 'Option::<T>::as_mut'):
            e = e[2][0]
            changed = True
        elif is_call(e, 'Option::<T>::insert') and len(e[2]) == 2:
            e = norm(stdalg.canon_value(e[2][1]))          # `opt.insert(x)` hands back a reference to x in its new home
            changed = True
        elif (is_call(e, 'Option::<T>::unwrap') or is_call(e, 'Option::<T>::expect')) and e[2][0][0] in ('agg', 'call'):
            inner = e[2][0]
            if is_call(inner, 'Option::<T>::as_ref') or is_call(inner, 'Option::<T>::as_mut'):
                inner = inner[2][0]
            if inner[0] == 'agg' and inner[1].endswith('Option::Some'):
                e = inner[2][0][1]
                changed = True
    return e


def mentions_slot(e, s):
    return any(peel(x) == s for x in walk(e))


def outs_locs(f):
    """where the (index, value) entries go: the stream's own list, or a `&mut Vec<IndexedValue>` parameter of a heap helper"""
    o = {(1, 'outs')}
    for i in range(1, f.arg_count + 1):
        if 'Vec<raw::ops::IndexedValue' in f.local_ty(i):
            o.add((i,))
    return o


def r05_1_4(ctx, name, f):
    R1, R4 = 'R05.1', 'R05.4'
    OUTS = outs_locs(f)
    loops = f.loops()
    n = 0
    for p in explore(f, max_visits=1, havoc=True, limit=3000):
        slots = obtained_slots(f, p)
        if not slots:
            continue
        calls = path_calls(p)
        cut_loop = loops.get(p.blocks[-1], set()) if p.end == 'cut' else None
        for (k, bid, kind, s) in slots:
            if p.end == 'cut' and bid not in cut_loop:
                continue       # obtained before the loop this path is cut at: its fate lies beyond the cut
            if p.end == 'diverge':
                continue
            n += 1
            refills = [c for c in calls if c[2] == HEAP + '::refill' and c[0] > k and peel(c[3][1]) == s]
            parks = []
            for st in p.stores():
                if st[2] == (1, 'cur_slot') and st[0] >= k:
                    v = p.sym.rvalue_at(st[3]['rv'], (st[0], st[1]))
                    if v[0] == 'agg' and v[1].endswith('Option::Some') and peel(v[2][0][1]) == s:
                        parks.append(st)
            for c in calls:
                # `self.cur_slot.insert(slot)` / `.replace(slot)` park the slot as well
                if isinstance(c[2], str) and (c[2].endswith('Option::<T>::insert') or c[2].endswith('Option::<T>::replace')) and c[0] > k \
                        and arg_loc(f, c[4], 0) == (1, 'cur_slot') and peel(c[3][1]) == s:
                    parks.append(c)
            tot = len(refills) + len(parks)
            ctx.check(R1, tot == 1, '%s:%s-slot-returned' % (name, kind),
                      'a slot obtained by %s is given back %d times on a path (refilled %d, parked %d): a dropped slot silently ends that input stream, a duplicated one repeats it' % (kind, tot, len(refills), len(parks)),
                      fn=f, at=f.blocks[bid]['term'].get('span'))
            if name != 'difference' and kind != 'parked':
                pushes = [c for c in calls if isinstance(c[2], str) and c[2].endswith('::push') and arg_loc(f, c[4], 0) in OUTS and c[0] > k]
                mine = [c for c in pushes if is_call(c[3][1], 'Slot::indexed_value') and peel(c[3][1][2][0]) == s]
                ctx.check(R4, len(mine) == 1, '%s:%s-slot-reported' % (name, kind),
                          'the slot obtained by %s contributes %d (index, value) entries (exactly one, taken from that very slot, expected)' % (kind, len(mine)), fn=f, at=f.blocks[bid]['term'].get('span'))
    if n == 0:
        ctx.undecided(R1, name + ':no-slots', 'no slot-taking path recognised', fn=f)


def counter_locals(f):
    """loop-carried named usize / bool locals (candidates for the counter or parity of equal-key pops)"""
    c = []
    for h, targets in f.loop_havoc().items():
        for T, _ in targets:
            if len(T) == 1 and f.local_ty(T[0]) in ('usize', 'bool', 'u32', 'u64') and f.locals[T[0]].get('name'):
                c.append(T[0])
    return sorted(set(c))


def counter_facts(f):
    """{counter local: (initial constant, step kind)} for locals that are initialised with ONE constant and whose value at the end of
    every iteration that pops an equal-key slot is havoc+1 ('inc') / !havoc ('flip'); iterations without such a pop must not touch them"""
    out = {}
    for c in counter_locals(f):
        inits = set()
        init_blocks = set()
        for bid, b in f.blocks.items():
            if b['cleanup']:
                continue
            for st in b['stmts']:
                if st['k'] == 'assign' and not st['place']['proj'] and st['place']['local'] == c:
                    rv = st['rv']
                    if 'use' in rv and 'const' in rv['use']:
                        inits.add(int(rv['use']['const']['scalar'], 16))
                        init_blocks.add(bid)
        if len(inits) != 1:
            continue
        # the counter describes ONE candidate key: where the candidate is taken inside a retry loop, the counter must be initialised
        # inside that loop too (otherwise the agreement of earlier, rejected candidates is carried over)
        cand = [bid for bid, t in f.calls() if f.callee(t) == HEAP + '::pop']
        stale = [h for h, body in f.loops().items() if any(b_ in body for b_ in cand) and not any(b_ in body for b_ in init_blocks)]
        if stale:
            out[c] = (list(inits)[0], 'bad:the counter is initialised once, outside the loop that takes a new candidate key - counts of rejected candidates accumulate')
            continue
        kinds = set()
        for p in explore(f, max_visits=1, havoc=True, limit=3000):
            if p.end != 'cut':
                continue
            v = p.sym.loc_value_at((c,), (len(p.blocks) - 2, 'T'))
            if v[0] == 'havoc' and v[1] == (c,):
                kinds.add('same' if not [x for x in obtained_slots(f, p) if x[2] == 'pop_if_equal'] else 'stale')
                continue
            popped = [x for x in obtained_slots(f, p) if x[2] == 'pop_if_equal']
            if v[0] == 'bin' and v[1] == 'Add' and v[2][0] == 'havoc' and v[2][1] == (c,) and v[3] == ('const', 1) and len(popped) == 1:
                kinds.add('inc')
            elif v[0] == 'un' and v[1] == 'Not' and v[2][0] == 'havoc' and v[2][1] == (c,) and len(popped) == 1 and f.local_ty(c) == 'bool':
                kinds.add('flip')
            elif v[0] in ('const',) and v[1] in inits:
                kinds.add('same')      # outer-loop iteration re-initialising the counter
            else:
                kinds.add('other:' + fmt(v)[:60])
        kinds.discard('same')
        if len(kinds) == 1 and list(kinds)[0] in ('inc', 'flip'):
            out[c] = (list(inits)[0], list(kinds)[0])
        else:
            out[c] = (list(inits)[0], 'bad:' + ','.join(sorted(kinds)))
    return out


def drain_helpers(lib, f, depth=0):
    """local helper functions (not the primitive takers) called by f that obtain slots themselves"""
    out = []
    for bid, t in f.calls():
        c = f.callee(t)
        g = lib.fns.get(c)
        if g is None or c in TAKERS or c == HEAP + '::refill' or not c.startswith('raw::ops::') or g is f:
            continue
        if any((g.callee(t2) or '') in TAKERS for _, t2 in g.calls()) and g not in out:
            out.append(g)
    return out


def helper_summary(ctx, g):
    """a helper `fn(&mut heap, key, outs) -> count`: the returned value is init + (number of equal-key pops); None if it returns no count"""
    cf = counter_facts(g)
    base = None
    for p in explore(g, max_visits=1, havoc=True, limit=3000):
        if p.end != 'return':
            continue
        rv = p.ret()
        while rv[0] == 'cast':
            rv = rv[1]
        if rv[0] == 'havoc' and len(rv[1]) == 1 and rv[1][0] in cf and cf[rv[1][0]][1] == 'inc':
            b = cf[rv[1][0]][0]
            base = b if base in (None, b) else 'mixed'
        elif rv[0] == 'tuple' and not rv[1]:
            pass
        else:
            return None
    return base if isinstance(base, int) else None


def count_base(e, cf, summaries):
    """e = base + (number of equal-key pops for the candidate key) -> (base, kind), else None"""
    while e[0] == 'cast':
        e = e[1]
    if e[0] == 'havoc' and len(e[1]) == 1 and e[1][0] in cf and cf[e[1][0]][1] in ('inc', 'flip'):
        return cf[e[1][0]]
    if e[0] == 'call' and e[1] in summaries and summaries[e[1]] is not None:
        return (summaries[e[1]], 'inc')
    if e[0] == 'call' and isinstance(e[1], str) and e[1].endswith('::len') and e[2] and \
            any((x[0] == 'field' and x[2] == 'outs') or (x[0] in ('havoc', 'phi') and isinstance(x[1], tuple) and 'outs' in x[1]) for x in walk(e[2][0])):
        # the entry list itself as the counter: cleared per candidate, one entry per slot holding the key (that is R05.4, checked
        # separately), so its length is 1 + the number of equal-key pops
        return (1, 'inc')
    if e[0] == 'bin' and e[1] == 'Add':
        for a, b in ((e[2], e[3]), (e[3], e[2])):
            if b[0] == 'const':
                r = count_base(a, cf, summaries)
                if r is not None and r[1] == 'inc':
                    return (r[0] + b[1], 'inc')
    return None


def r05_2(ctx, name, f, pv, rdrs_field, summaries):
    R = 'R05.2'
    cf = counter_facts(f)
    emits = []
    for p in explore(f, max_visits=1, havoc=True, limit=3000):
        if p.end == 'return':
            rv = p.ret()
            if rv[0] == 'agg' and rv[1].endswith('Option::Some'):
                emits.append(p)
    if not emits:
        ctx.undecided(R, name + ':emit', 'no emitting path', fn=f)
        return

    def counting(e):
        return [x for x in walk(e) if count_base(x, cf, summaries) is not None]

    if name == 'union':
        bad = [d for p in emits for d in p.decisions if counting(d[2])]
        ctx.check(R, not bad, 'union:always', 'union must emit every popped key unconditionally', fn=f)
        return
    if name == 'difference':
        # emits iff no other stream holds the key: flag initialised true, cleared on equality
        ok = False
        for p in emits:
            eqs = [d for d in p.decisions if is_call(d[2], '::eq') or is_call(d[2], '::ne')]
            ok = ok or all((is_call(d[2], '::eq') and d[3] == 0) or (is_call(d[2], '::ne') and d[3] == 1) for d in eqs)
        ctx.check(R, ok, 'difference:unique', 'difference must emit a key of the first stream iff no drained slot of the other streams equals it', fn=f)
        # the flag itself: the emit is guarded by a bool that starts true for each candidate and is cleared exactly on the paths
        # where a drained slot's key EQUALS the candidate
        flags = set()
        for p in emits:
            for d in p.decisions:
                e = d[2]
                if e[0] == 'havoc' and len(e[1]) == 1 and f.local_ty(e[1][0]) == 'bool' and d[3] == 1:
                    flags.add(e[1][0])
        if len(flags) != 1:
            ctx.undecided(R, 'difference:flag', 'the emit of difference is not guarded by one loop-carried bool flag (%d found): form not decided' % len(flags), fn=f)
            return
        U = flags.pop()
        n_clear = 0
        for p in explore(f, max_visits=1, havoc=True, limit=3000):
            for k, bid in enumerate(p.blocks):
                for i, st in enumerate(f.blocks[bid]['stmts']):
                    if st['k'] == 'assign' and not st['place']['proj'] and st['place']['local'] == U:
                        v = p.sym.rvalue_at(st['rv'], (k, i))
                        if v == ('const', 0):
                            n_clear += 1
                            eqs = [d for d in p.decisions if d[0] <= k and (is_call(d[2], '::eq') or is_call(d[2], '::ne') or (d[2][0] == 'bin' and d[2][1] in ('Eq', 'Ne')))
                                   and any(is_call(x, 'Slot::input') for x in walk(d[2]))]
                            if not eqs:
                                ctx.violation(R, 'difference:flag', 'the "no other stream holds the key" flag is cleared on a path that does not compare the drained slot\'s key with the candidate: keys of the first stream disappear', fn=f, at=st.get('span'))
                            else:
                                e, o = eqs[-1][2], eqs[-1][3]
                                is_eq = is_call(e, '::eq') or (e[0] == 'bin' and e[1] == 'Eq')
                                ctx.check(R, is_eq == (o == 1), 'difference:flag', 'the "no other stream holds the key" flag must be cleared exactly when a drained slot\'s key EQUALS the candidate (here it is cleared when they differ): keys present in other streams are emitted, keys merely preceded by smaller keys are dropped', fn=f)
                        elif v == ('const', 1):
                            # re-armed for every candidate: the initialisation sits inside the candidate loop
                            in_loop = any(bid in body for body in f.loops().values())
                            ctx.check(R, in_loop, 'difference:flag-per-candidate', 'the flag is set to true outside the per-candidate loop: once one key was found in another stream every later key is dropped too', fn=f)
                        else:
                            ctx.undecided(R, 'difference:flag', 'the flag receives a value that is not a literal: %s' % fmt(v)[:60], fn=f)
        if n_clear == 0:
            ctx.violation(R, 'difference:flag', 'the flag guarding the emit of difference is never cleared: every key of the first stream is emitted', fn=f)
        return
    for c, (init, kind) in sorted(cf.items()):
        if kind.startswith('bad:'):
            ctx.violation(R, name + ':counter-step', 'each equal-key pop must add exactly 1 to the counter (or flip the parity flag) and nothing else may change it: %s' % kind[4:], fn=f)
    for p in emits:
        ds = [d for d in p.decisions if counting(d[2])]
        if not ds:
            if any(k.startswith('bad:') for _, k in cf.values()):
                continue
            ctx.violation(R, name + ':emit-predicate', 'a key is emitted without consulting the number of streams that hold it', fn=f)
            continue
        e, val = pv.inline(ds[-1][2]), ds[-1][3]
        while e[0] == 'cast':
            e = e[1]
        if e[0] == 'un' and e[1] == 'Not':
            e, val = e[2], 1 - val
        if name == 'intersection':
            ok = False
            if e[0] == 'bin' and e[1] in ('Lt', 'Ge', 'Eq', 'Ne', 'Gt', 'Le'):
                a, b = e[2], e[3]
                ca, cb = count_base(a, cf, summaries), count_base(b, cf, summaries)
                cnt_left = ca is not None
                cnt = ca or cb
                other = b if cnt_left else a
                is_k = is_call(other, 'Vec::<T, A>::len') and other[2][0][0] == 'field' and other[2][0][2] == rdrs_field
                op = e[1] if cnt_left else {'Lt': 'Gt', 'Gt': 'Lt', 'Le': 'Ge', 'Ge': 'Le', 'Eq': 'Eq', 'Ne': 'Ne'}[e[1]]
                holds = (op == 'Lt' and val == 0) or (op == 'Ge' and val == 1) or (op == 'Eq' and val == 1) or (op == 'Ne' and val == 0)
                ctx.check(R, cnt is not None and cnt == (1, 'inc'), name + ':counter-init',
                          'the number of streams holding the candidate key must count the slot just popped (1) plus one per equal-key pop: found base %s' % (cnt,), fn=f)
                ok = is_k and holds
                ctx.check(R, ok, 'intersection:emit-predicate',
                          'intersection must emit iff the key was popped from ALL input streams, i.e. counter = number of input streams (exhausted ones included); found: counter %s %s is %s' % (op, fmt(other)[:80], bool(val)),
                          fn=f, detail=fmt(e)[:160])
            else:
                ctx.undecided(R, 'intersection:emit-predicate', 'emit condition %s is not a comparison of the counter' % fmt(e)[:100], fn=f)
        else:
            ok = False
            cb = count_base(e, cf, summaries)
            if cb is not None and cb[1] == 'flip':
                # parity flag: starts as "1 pop is odd" (true) and flips per further pop
                init = cb[0]
                ok = (init == 1 and val == 1) or (init == 0 and val == 0)
                ctx.check(R, True, name + ':counter-init', 'parity flag', fn=f)
            elif e[0] == 'bin' and e[1] in ('Eq', 'Ne') and e[2][0] == 'bin' and e[2][1] in ('Rem', 'BitAnd') and e[2][3] in (('const', 2), ('const', 1)) and e[3][0] == 'const':
                cnt = count_base(e[2][2], cf, summaries)
                ctx.check(R, cnt == (1, 'inc'), name + ':counter-init',
                          'the number of streams holding the candidate key must count the slot just popped (1) plus one per equal-key pop: found base %s' % (cnt,), fn=f)
                is_zero_cmp = e[3][1] == 0
                truth = (e[1] == 'Eq') == bool(val)        # the relation "x % 2 == c" holds
                odd = (truth and not is_zero_cmp) or (not truth and is_zero_cmp)
                consistent = (e[2][1] == 'Rem' and e[2][3] == ('const', 2)) or (e[2][1] == 'BitAnd' and e[2][3] == ('const', 1))
                ok = odd and consistent and cnt is not None
            ctx.check(R, ok, 'symmetric_difference:emit-predicate', 'symmetric difference must emit iff the key is held by an ODD number of streams: %s is %s' % (fmt(e)[:80], bool(val)), fn=f)


def r05_key(ctx, name, f):
    """equal-key pops (and helpers that perform them) are asked about the key of the slot just popped"""
    R = 'R05.1'
    lib = ctx.lib
    if name == 'difference':
        return
    helpers = {g.path for g in drain_helpers(lib, f)}
    for p in explore(f, max_visits=1, havoc=True, limit=3000):
        slots = [x for x in obtained_slots(f, p) if x[2] == 'pop']
        for (k, bid, callee, args, t) in path_calls(p):
            if callee == HEAP + '::pop_if_equal' or callee in helpers:
                keyargs = [a for a in args[1:] if is_call(peel(a), 'Slot::input') or peel(a)[0] == 'param' or is_call(a, 'Slot::input')]
                key = args[1] if len(args) > 1 else None
                if key is None:
                    continue
                kk = norm(stdalg.canon_value(key))
                if kk[0] == 'param' and f.path not in OPS.values():
                    ok = True        # a helper's key parameter: bound at the call site in the stream, checked there
                elif is_call(kk, 'Slot::input'):
                    src = peel(kk[2][0])
                    ok = bool(slots) and any(src == s[3] and s[0] < k for s in slots)
                else:
                    ok = False
                if callee in helpers:
                    g = lib.fns[callee]
                    for i in range(1, g.arg_count + 1):
                        if (i,) in outs_locs(g):
                            ctx.check('R05.4', arg_loc(f, t, i - 1) in outs_locs(f), name + ':helper-outs', 'the helper must append its entries to the entry list of this stream', fn=f, at=t.get('span'))
                ctx.check(R, ok, name + ':equal-key-is-candidate', 'the heap is asked for further slots equal to %s, which is not the key of the slot just popped' % fmt(kk)[:80], fn=f, at=t.get('span'))
        if slots:
            pass


def r05_2_k(ctx, pv):
    """num_slots = number of input streams; the reader vector is the one handed to the heap constructor"""
    R = 'R05.2'
    lib = ctx.lib
    a = lib.adts.get('raw::ops::StreamHeap')
    rf = None
    if a:
        for fd in a['variants'][0]['fields']:
            if 'std::vec::Vec<std::boxed::Box<dyn' in fd['ty']:
                rf = fd['name']
    if rf is None:
        ctx.missing(R, 'anchor:readers', 'reader vector of the stream heap not found')
        return None
    new = lib.fn(HEAP + '::new')
    ok = False
    if new is not None:
        from sym import Sym
        sy = Sym(new)
        for bid, b in new.blocks.items():
            if b['cleanup']:
                continue
            for i, st in enumerate(b['stmts']):
                if st['k'] == 'assign' and isinstance(st['rv'].get('agg'), dict) and st['rv']['agg'].get('adt') == 'raw::ops::StreamHeap':
                    v = sy.rvalue(st['rv'], bid, i)
                    ok = dict(v[2]).get(rf) == ('param', new.local_name(1), 1)
    ctx.check(R, ok, 'readers-are-inputs', 'the heap\'s reader vector is not the vector of input streams it was constructed from', fn=new)
    # every input stream is primed once
    return rf


def chain_order(pc):
    """True / False / None: `cmp` written as a chain `X.input.cmp(Y.input)` then (on Equal) `X.output.cmp(Y.output)` is the REVERSE order
    (X = other, Y = self, no reverse()) / is not / the function is not such a chain"""
    first = second = None
    for p in explore(pc, max_visits=1):
        if p.end != 'return':
            continue
        rv = p.ret()
        while rv[0] == 'agg' and rv[1].endswith('Option::Some') and rv[2]:
            rv = rv[2][0][1]
        if not (rv[0] == 'call' and isinstance(rv[1], str) and rv[1].rsplit('::', 1)[-1] in ('cmp', 'partial_cmp') and len(rv[2]) == 2):
            return None
        d = [x for x in p.decisions if x[2][0] == 'discr' and x[2][1][0] == 'call' and isinstance(x[2][1][1], str) and x[2][1][1].rsplit('::', 1)[-1] in ('cmp', 'partial_cmp')]
        if not d:
            return None

        def sides(c):
            a, b = c[2]
            pa = {x[2] for x in walk(a) if x[0] == 'param'}
            pb = {x[2] for x in walk(b) if x[0] == 'param'}
            fa = [x[2] for x in walk(a) if x[0] == 'field']
            fb = [x[2] for x in walk(b) if x[0] == 'field']
            return pa, pb, fa, fb
        if d[-1][3] == 0:            # Equal: the second component decides
            second = sides(rv)
            first = sides(d[-1][2][1])
        else:
            if norm(rv) != norm(d[-1][2][1]):
                return None
    if first is None or second is None:
        return None
    ok1 = first[0] == {2} and first[1] == {1} and 'input' in first[2] and 'input' in first[3]
    ok2 = second[0] == {2} and second[1] == {1} and 'output' in second[2] and 'output' in second[3]
    return ok1 and ok2


def ord_spec(lib, e, flip=False):
    """[(field, reversed?)] for an Ordering written with Ordering::then / then_with / reverse over single-field comparisons
    (`a.input.cmp(&b.input).then(a.output.cmp(&b.output)).reverse()`); None when e is not of that form"""
    while e[0] == 'agg' and e[1].endswith('Option::Some') and e[2]:
        e = e[2][0][1]
    if is_call(e, 'Ordering::reverse') and len(e[2]) == 1:
        return ord_spec(lib, e[2][0], not flip)
    if is_call(e, 'Ordering::then') and len(e[2]) == 2:
        a, b = ord_spec(lib, e[2][0], flip), ord_spec(lib, e[2][1], flip)
        return None if a is None or b is None else a + b
    if is_call(e, 'Ordering::then_with') and len(e[2]) == 2 and e[2][1][0] == 'closure' and e[2][1][1] in lib.fns:
        import vsplit
        from sym import subst
        rr = [q.ret() for q in explore(lib.fns[e[2][1][1]], max_visits=1) if q.end == 'return']
        if len(rr) != 1:
            return None
        a, b = ord_spec(lib, e[2][0], flip), ord_spec(lib, vsplit.simp(subst(rr[0], {1: e[2][1]})), flip)
        return None if a is None or b is None else a + b
    if e[0] == 'call' and isinstance(e[1], str) and e[1].rsplit('::', 1)[-1] in ('cmp', 'partial_cmp') and len(e[2]) == 2 and not e[1].startswith('<raw::ops::Slot as'):
        a, b = e[2]
        pa = {x[2] for x in walk(a) if x[0] == 'param'}
        pb = {x[2] for x in walk(b) if x[0] == 'param'}
        fa = [x[2] for x in walk(a) if x[0] == 'field' and x[2] in ('input', 'output')]
        fb = [x[2] for x in walk(b) if x[0] == 'field' and x[2] in ('input', 'output')]
        if len(fa) != 1 or fa != fb:
            return None
        if pa == {1} and pb == {2}:
            return [(fa[0], flip)]
        if pa == {2} and pb == {1}:
            return [(fa[0], not flip)]
    return None


def r05_3(ctx):
    R = ctx.rule('R05.3', 'heap order = reverse of (key, value); pop_if_equal tests ==, pop_if_le tests <=; difference drains with <=', floor=4)
    lib = ctx.lib
    # both orderings the heap may consult (PartialOrd::partial_cmp and Ord::cmp) must be the REVERSE of (key, value); either may be
    # written in terms of the other, with `reverse()` or with swapped operands
    from absint import Prover
    for tr, key in (('std::cmp::PartialOrd>::partial_cmp', 'slot-order'), ('std::cmp::Ord>::cmp', 'slot-cmp')):
        pvs = Prover(lib)
        pc = lib.fn('<raw::ops::Slot as ' + tr)
        if pc is None:
            ctx.missing(R, 'anchor:' + key, 'Slot ordering (%s) not found' % tr)
            continue
        ch_ = chain_order(pc)
        if ch_ is not None:
            ctx.check(R, ch_, key, 'the heap must order slots by the REVERSE of (key, value) so that the smallest key is on top (lexicographic chain over input, output found in natural order)', fn=pc)
            continue
        for p in explore(pc, max_visits=1):
            if p.end != 'return':
                continue
            pvs._tmpl[pc.path] = None
            rv = pvs.inline(p.ret())
            if any(is_call(x, 'Ordering::then') or is_call(x, 'Ordering::then_with') for x in walk(rv)):
                spec = ord_spec(lib, rv)
                if spec is not None:
                    ctx.check(R, spec == [('input', True), ('output', True)], key, 'the heap must order slots by the REVERSE of (key, value) so that the smallest key is on top: found the chain %s' % (
                        ', '.join('%s %s' % (f_, 'reversed' if r_ else 'natural') for f_, r_ in spec)), fn=pc)
                    continue
            cmpc = [x for x in walk(rv) if x[0] == 'call' and isinstance(x[1], str) and x[1].rsplit('::', 1)[-1] in ('partial_cmp', 'cmp') and len(x[2]) == 2
                    and not x[1].startswith('<raw::ops::Slot as')]
            # keep only the outermost comparison of the (key, value) pairs
            cmpc = [x for x in cmpc if any(y[0] == 'field' and y[2] == 'input' for y in walk(x))][:1]
            rev = any((x[0] == 'cfn' and x[1].endswith('Ordering::reverse')) or is_call(x, 'Ordering::reverse') for x in walk(rv))
            for x in walk(rv):
                if x[0] == 'closure' and x[1] in lib.fns:
                    cf = lib.fns[x[1]]
                    rets = [q.ret() for q in explore(cf, max_visits=1) if q.end == 'return']
                    if len(rets) == 1 and is_call(rets[0], 'Ordering::reverse') and rets[0][2][0][0] == 'param':
                        rev = True
            ok = False
            why = fmt(rv)[:160]
            if len(cmpc) == 1:
                a, b = cmpc[0][2]

                def side(t):
                    ps = {x[2] for x in walk(t) if x[0] == 'param'}
                    fs = [x[2] for x in walk(t) if x[0] == 'field']
                    return ps, fs
                (pa, fa), (pb, fb) = side(a), side(b)
                key_first = fa[:1] == ['input'] and fb[:1] == ['input'] and 'output' in fa and 'output' in fb
                natural = pa == {1} and pb == {2}
                swapped = pa == {2} and pb == {1}
                ok = key_first and ((natural and rev) or (swapped and not rev))
            if not ok and len(cmpc) != 1:
                # lexicographic chain: match a.input.cmp(&b.input) { Equal => a.output.cmp(&b.output), unequal => unequal }
                chain = chain_order(pc)
                if chain is not None:
                    ok = chain
                    why = 'lexicographic chain over (input, output)'
                elif chain is None and not cmpc:
                    ctx.undecided(R, key, 'the ordering of slots is written in a form the rule does not follow: %s' % why, fn=pc)
                    break
            ctx.check(R, ok, key, 'the heap must order slots by the REVERSE of (key, value) so that the smallest key is on top: %s' % why, fn=pc)
    # conditional pops
    for helper, want in (('pop_if_equal', 'eq'), ('pop_if_le', 'le')):
        f = lib.fn(HEAP + '::' + helper)
        if f is None:
            ctx.missing(R, 'anchor:' + helper, helper + ' not found')
            continue
        from callgraph import CallGraph
        cg = CallGraph(lib)
        found = []
        for path in sorted(cg.reachable([f.path], stop=[HEAP + '::pop'])):
            g = lib.fns.get(path)
            if g is None or not (path.startswith(HEAP + '::')):
                continue
            from sym import Sym as _Sym
            sy_ = _Sym(g)
            for bid_, t in g.calls():
                cal = g.callee(t) or ''
                m = cal.rsplit('::', 1)[-1]
                if m in ('eq', 'ne', 'le', 'lt', 'ge', 'gt') and 'cmp' in cal:
                    # relation between the TOP SLOT's key and the probe key, whichever way round it is written
                    try:
                        a_ = sy_.call_expr(bid_)[2]
                    except Exception:
                        a_ = ()
                    if len(a_) == 2:
                        s0 = any(is_call(x, 'Slot::input') for x in walk(a_[0]))
                        s1 = any(is_call(x, 'Slot::input') for x in walk(a_[1]))
                        if s1 and not s0:
                            m = {'le': 'ge', 'ge': 'le', 'lt': 'gt', 'gt': 'lt'}.get(m, m)
                    found.append(m)
        ctx.check(R, found == [want], helper, '%s must pop iff top.key %s key (comparisons found: %s)' % (helper, {'eq': '==', 'le': '<='}[want], found), fn=f)
    d = lib.fn(OPS['difference'])
    if d is not None:
        drains = [d.callee(t) for _, t in d.calls() if (d.callee(t) or '').startswith(HEAP + '::pop')]
        ctx.check(R, drains == [HEAP + '::pop_if_le'], 'difference-drains-le', 'difference must drain every slot of the other streams whose key is <= the candidate (found %s)' % drains, fn=d)


def r05_4_difference(ctx):
    R = 'R05.4'
    lib = ctx.lib
    f = lib.fn(OPS['difference'])
    if f is None:
        return
    for p in explore(f, max_visits=1, havoc=True, limit=2000):
        if p.end != 'return':
            continue
        rv = p.ret()
        if not (rv[0] == 'agg' and rv[1].endswith('Option::Some')):
            continue
        calls = path_calls(p)
        pushes = [c for c in calls if isinstance(c[2], str) and c[2].endswith('::push') and arg_loc(f, c[4], 0) == (1, 'outs')]
        nxt = [c for c in calls if isinstance(c[2], str) and c[2].endswith('Streamer::next')]
        ok = False
        if len(pushes) == 1 and pushes[0][3][1][0] == 'agg':
            fd = dict(pushes[0][3][1][2])
            ok = fd.get('index') == ('const', 0) and is_call(fd.get('value'), 'Output::value') and any(is_call(x, 'Streamer::next') for x in walk(fd['value']))
        ctx.check(R, ok, 'difference:entry', 'difference must report exactly {index 0, value of the first stream} for an emitted key', fn=f)
        clears = [c for c in calls if isinstance(c[2], str) and c[2].endswith('::clear') and arg_loc(f, c[4], 0) == (1, 'outs')]
        ctx.check(R, len(clears) >= 1, 'difference:outs-cleared', 'the entry list is not cleared per candidate key', fn=f)
        break


def r05_4_clear(ctx, name, f):
    R = 'R05.4'
    for p in explore(f, max_visits=1, havoc=True, limit=3000):
        if p.end != 'return':
            continue
        rv = p.ret()
        if not (rv[0] == 'agg' and rv[1].endswith('Option::Some')):
            continue
        tup = rv[2][0][1]
        outs = tup[1][1] if tup[0] == 'tuple' and len(tup[1]) > 1 else None
        ok = outs is not None and any(x[0] in ('havoc', 'after', 'field') for x in walk(outs))
        break
    # cleared exactly once per candidate key: the clear precedes the first push in the outer iteration
    ok = False
    for p in explore(f, max_visits=1, havoc=True, limit=3000):
        calls = path_calls(p)
        sl = [s for s in obtained_slots(f, p) if s[2] == 'pop']
        if not sl:
            continue
        k0 = sl[0][0]
        clears = [c for c in calls if isinstance(c[2], str) and c[2].endswith('::clear') and arg_loc(f, c[4], 0) == (1, 'outs') and c[0] > k0]
        pushes = [c for c in calls if isinstance(c[2], str) and c[2].endswith('::push') and arg_loc(f, c[4], 0) == (1, 'outs') and c[0] > k0]
        if pushes:
            ok = len(clears) == 1 and clears[0][0] < pushes[0][0]
            ctx.check(R, ok, name + ':outs-cleared', 'the entry list must be cleared once per candidate key, before its first entry (clears after pop: %d)' % len(clears), fn=f)
            return
    ctx.undecided(R, name + ':outs-cleared', 'no candidate-key path found', fn=f)


def r05_5(ctx):
    R = ctx.rule('R05.5', 'is_disjoint = intersection empty; is_subset = |intersection| = own len; is_superset = |union| = own len', floor=3)
    lib = ctx.lib
    table = {'is_disjoint': 'intersection', 'is_subset': 'intersection', 'is_superset': 'union'}
    for name, op in table.items():
        f = lib.fn('raw::Fst::<D>::' + name)
        if f is None:
            ctx.missing(R, 'anchor:' + name, name + ' not found')
            continue
        opcalls = [f.callee(t).rsplit('::', 1)[-1] for _, t in f.calls() if (f.callee(t) or '').startswith("raw::ops::OpBuilder::<'f>::") and f.callee(t).rsplit('::', 1)[-1] in ('union', 'intersection', 'difference', 'symmetric_difference')]
        good_op = opcalls == [op]
        shape = False
        if name == 'is_disjoint':
            for p in explore(f, max_visits=1):
                if p.end == 'return':
                    rv = p.ret()
                    shape = is_call(rv, 'Option::<T>::is_none') and any(is_call(x, 'Streamer<\'a>>::next') or is_call(x, '::next') for x in walk(rv))
        else:
            for p in explore(f, max_visits=1, havoc=True):
                if p.end == 'return':
                    rv = p.ret()
                    if rv[0] == 'bin' and rv[1] == 'Eq':
                        sides = [rv[2], rv[3]]
                        has_len = any(is_call(s, 'Fst::<D>::len') and s[2][0][0] == 'param' for s in sides)
                        has_cnt = any(s[0] == 'havoc' for s in sides)
                        shape = has_len and has_cnt
            # the counter gains exactly 1 per emitted key
            inc = False
            for p in explore(f, max_visits=1, havoc=True):
                if p.end == 'cut':
                    for l in [l for l in f.locals if f.local_ty(l) == 'usize' and f.locals[l].get('name')]:
                        v = p.sym.loc_value_at((l,), (len(p.blocks) - 2, 'T'))
                        if v[0] == 'bin' and v[1] == 'Add' and v[2][0] == 'havoc' and v[3] == ('const', 1):
                            inc = True
            shape = shape and inc
            if good_op and not shape:
                # recognised-but-wrong forms are violations; a form the rule does not follow (a count-down, a fold, ...) is undecided
                wrong = None
                for p in explore(f, max_visits=1, havoc=True):
                    if p.end != 'return':
                        continue
                    rv = p.ret()
                    drained = [d for d in p.cdecisions() if d[2][0] == 'discr' and (is_call(d[2][1], "Streamer<'a>>::next") or is_call(d[2][1], '::next'))]
                    if rv[0] == 'const' and drained and drained[-1][3] == 1:
                        wrong = 'answers %s as soon as the operation yields a key, without counting' % ('true' if rv[1] else 'false')
                    if rv[0] == 'const' and not drained:
                        wrong = 'answers a constant'
                    if rv[0] == 'bin' and rv[1] in ('Eq', 'Ne', 'Lt', 'Le', 'Gt', 'Ge') and any(s_[0] == 'havoc' for s_ in (rv[2], rv[3])):
                        if rv[1] != 'Eq' and any(is_call(s_, 'Fst::<D>::len') for s_ in (rv[2], rv[3])):
                            wrong = 'compares the count with %s using %s' % (fmt(rv[3] if rv[2][0] == 'havoc' else rv[2])[:40], rv[1])
                if wrong is None:
                    ctx.undecided(R, name, '%s counts the keys of the %s in a form the rule does not follow' % (name, op), fn=f)
                    continue
        ctx.check(R, good_op and shape, name, '%s must be decided by %s (found ops %s, shape ok: %s)' % (name, {'is_disjoint': 'the intersection being empty', 'is_subset': 'the size of the intersection equalling own len()', 'is_superset': 'the size of the union equalling own len()'}[name], opcalls, shape), fn=f)
    # set/map wrappers delegate
    for w, inner in (("inner_set::Set::<D>", 'raw::Fst::<D>::'),):
        for name in table:
            f = lib.fn('%s::%s' % (w, name))
            if f is None:
                ctx.missing(R, 'anchor:%s::%s' % (w, name), 'wrapper predicate not found')
                continue
            cs = [f.callee(t) for _, t in f.calls() if (f.callee(t) or '').startswith(inner + 'is_')]
            ctx.check(R, cs == [inner + name], 'wrapper:' + name, 'Set::%s must delegate to Fst::%s (found %s)' % (name, name, cs), fn=f)


def r05_7(ctx):
    """every stream handed to an operation builder takes part in the operation: add / push / extend / from_iter hand each argument
    (each item of the iterator) on, down to the vector of streams"""
    R = ctx.rule('R05.7', 'registration: every stream given to an OpBuilder (add / push / extend / from_iter) reaches the list of input streams', floor=12)
    lib = ctx.lib
    from rules import cli
    fns = [f for f in lib.fn_list if f.kind != 'Closure' and not f.from_expansion and 'OpBuilder' in f.path and f.path.rsplit('::', 1)[-1] in ('add', 'push', 'extend', 'from_iter')]
    if len(fns) < 12:
        ctx.missing(R, 'anchor:registration', 'only %d registration methods of the operation builders found' % len(fns))
    for f in fns:
        name = f.path.rsplit('::', 1)[-1]
        lost = cli.params_handed_on(f)
        for i, nm in lost:
            ctx.violation(R, 'arg:%s' % f.path, '%s takes `%s` and hands it to nothing on some path: that stream silently does not take part in the operation' % (name, nm), fn=f)
        if not lost:
            ctx.ok(R, 'arg:' + f.path, None, fn=f)
        if f.loops():
            ok, bad, n = cli.loop_items(f)
            for h in sorted(bad):
                ctx.violation(R, 'item:%s' % f.path, '%s iterates over the streams it is given and drops one without registering it' % name, fn=f, at=f.line_of(h))
            for h in sorted(ok - bad):
                ctx.ok(R, 'item:%s@%s' % (f.path, h), None, fn=f)
    # the innermost push stores into the vector the heap is later built from
    base = lib.fn("raw::ops::OpBuilder::<'f>::push")
    if base is not None:
        stores = [t for _, t in base.calls() if (base.callee(t) or '').endswith('Vec::<T, A>::push') and arg_loc(base, t, 0) == (1, 'streams')]
        ctx.check(R, len(stores) == 1, 'raw-push', 'the raw OpBuilder::push must append exactly one boxed stream to its stream list (found %d)' % len(stores), fn=base)


def r05_8(ctx):
    """no key of an input stream is skipped: what refill takes from a stream goes onto the heap; what difference takes from its first
    stream becomes the candidate"""
    R = ctx.rule('R05.8', 'no input key is skipped: refill pushes whatever the stream yields; difference turns every key of its first stream into the candidate', floor=2)
    lib = ctx.lib
    from rules import cli
    rf = lib.fn(HEAP + '::refill')
    if rf is None:
        ctx.missing(R, 'anchor:refill', 'refill not found')
    else:
        n, bad = cli.taken_reaches(rf, lambda c: isinstance(c[1], str) and c[1].endswith('::next'),
                                   lambda c: isinstance(c[2], str) and c[2].endswith('BinaryHeap::<T, A>::push') or (isinstance(c[2], str) and c[2].endswith('BinaryHeap::<T>::push')))
        if n == 0:
            ctx.undecided(R, 'refill', 'no path of refill takes an item from a stream in a recognised form', fn=rf)
        else:
            ctx.check(R, not bad, 'refill', 'refill takes a (key, value) from the stream and, on some path, does not put the slot back on the heap with it: that key (the empty key, a repeated key) silently drops out of the operation', fn=rf)
    df = lib.fn(OPS['difference'])
    if df is not None:
        n, bad = cli.taken_reaches(df, lambda c: isinstance(c[1], str) and c[1].endswith('::next') and not any(is_call(x, 'pop') for x in walk(c)),
                                   lambda c: isinstance(c[2], str) and c[2].rsplit('::', 1)[-1] in ('extend', 'extend_from_slice', 'clone_from', 'clone_into') and any(l is not None and l[:2] == (1, 'key') for l in arg_locs(df, c[4])))
        if n == 0:
            ctx.undecided(R, 'difference-candidate', 'no path of difference takes a key from its first stream in a recognised form', fn=df)
        else:
            ctx.check(R, not bad, 'difference-candidate', 'difference takes a key from its first stream and, on some path, moves on without making it the candidate: that key (the empty key at the start) is never emitted', fn=df)


def r05_6(ctx):
    R = ctx.rule('R05.6', 'wrapper delegation for OpBuilder methods and result streams; the set wrapper injects zero outputs', floor=12)
    lib = ctx.lib
    for mod, lt in (('inner_map', "'m"), ('inner_set', "'s")):
        for m in ('union', 'intersection', 'difference', 'symmetric_difference'):
            f = lib.fn("%s::OpBuilder::<%s>::%s" % (mod, lt, m))
            if f is None:
                ctx.missing(R, 'anchor:%s::OpBuilder::%s' % (mod, m), 'wrapper op not found')
                continue
            cs = [f.callee(t).rsplit('::', 1)[-1] for _, t in f.calls() if (f.callee(t) or '').startswith("raw::ops::OpBuilder::<'f>::")]
            ctx.check(R, cs == [m], 'op:%s::%s' % (mod, m), 'wrapper %s must build the raw %s (found %s)' % (m, m, cs), fn=f)
        # result streams forward to the raw stream of the same name
        for ty in ('Union', 'Intersection', 'Difference', 'SymmetricDifference'):
            fs = [g for g in lib.fn_list if g.path.endswith('::next') and g.impl and g.impl['self_ty'].startswith('%s::%s<' % (mod, ty))]
            for g in fs:
                cs = [g.callee(t) for _, t in g.calls() if (g.callee(t) or '').startswith('<raw::ops::')]
                ctx.check(R, len(cs) == 1 and ('::' + ty + '<') in cs[0], 'stream:%s::%s' % (mod, ty), 'wrapper stream %s must pull from the raw %s (found %s)' % (ty, ty, cs), fn=g)
    # the adaptor that turns a key stream into a (key, output) stream for the raw set operations: every item it yields must be
    # (the inner key, Output::zero()) - whether written with Option::map and a closure or with `?` and a tuple
    import vsplit
    z = [g for g in lib.fn_list if g.impl and g.impl.get('trait_path') == 'stream::Streamer' and g.path.endswith('::next') and 'StreamZeroOutput' in g.impl['self_ty']]
    if not z:
        ctx.missing(R, 'anchor:zero-output-adaptor', 'the set wrapper\'s key -> (key, zero output) stream adaptor was not found')
    else:
        somes = []
        for vp in vsplit.vpaths(lib, z[0], enter=False):
            rv = vp.ret()
            if rv[0] == 'agg' and rv[1].endswith('Option::Some'):
                t = rv[2][0][1]
                somes.append(t[0] == 'tuple' and len(t[1]) == 2 and is_call(t[1][1], 'Output::zero') and any(is_call(x, '::next') for x in walk(t[1][0])))
            elif not (rv[0] == 'agg' and rv[1].endswith('Option::None')) and not is_call(rv, '::from_residual'):
                somes.append(None)
        if somes and all(x is not None for x in somes):
            ctx.check(R, all(somes), 'zero-outputs', 'the set wrapper must pair every key with a zero output', fn=z[0])
        else:
            ctx.undecided(R, 'zero-outputs', 'the items yielded by the set wrapper\'s stream adaptor could not be reconstructed', fn=z[0])


def r05_9(ctx):
    """the key a slot hands out is the key it was given: where the slot keeps keys in two places (an inline buffer for short keys, a
    spill vector for long ones) setter and getter must draw the line at the same length"""
    R = ctx.rule('R05.9', 'slot key storage: the getter reads the place the setter wrote, for every key length', floor=1)
    lib = ctx.lib
    get = [f for f in lib.fn_list if f.path.startswith('raw::ops::Slot::') and f.arg_count == 1 and f.local_ty(0).endswith('[u8]') and f.kind != 'Closure']
    put = [f for f in lib.fn_list if f.path.startswith('raw::ops::Slot::') and f.arg_count == 2 and f.local_ty(0) == '()' and f.local_ty(2).endswith('[u8]') and f.kind != 'Closure']
    if len(get) != 1 or len(put) != 1:
        ctx.undecided(R, 'slot-storage', 'getter / setter of the slot key not identified (%d / %d)' % (len(get), len(put)))
        return
    get, put = get[0], put[0]
    import operator as _op
    OPS = {'Eq': _op.eq, 'Ne': _op.ne, 'Lt': _op.lt, 'Le': _op.le, 'Gt': _op.gt, 'Ge': _op.ge}

    def classify(f, place_of):
        """[(predicate over the key length, storage field)] per returning path; None if a branch is not a length-vs-constant test"""
        out = []
        for p in explore(f, max_visits=1, havoc=True, limit=200):
            if p.end != 'return':
                continue
            tests = []
            for d in p.decisions:
                e, val = d[2], d[3]
                if e[0] == 'bin' and e[1] in OPS and val in (0, 1):
                    a, b_ = e[2], e[3]
                    ca = lib.const_scalar(a[1]) if a[0] == 'citem' else (a[1] if a[0] == 'const' else None)
                    cb = lib.const_scalar(b_[1]) if b_[0] == 'citem' else (b_[1] if b_[0] == 'const' else None)
                    if cb is not None and ca is None:
                        tests.append((lambda n, o=OPS[e[1]], c=cb, v=val: bool(o(n, c)) == bool(v)))
                        continue
                    if ca is not None and cb is None:
                        tests.append((lambda n, o=OPS[e[1]], c=ca, v=val: bool(o(c, n)) == bool(v)))
                        continue
                if any(x[0] == 'call' and isinstance(x[1], str) and x[1].endswith('::next') for x in walk(e)) or any(x[0] == 'havoc' for x in walk(e)):
                    continue          # loop plumbing of a copy
                return None
            out.append((tests, place_of(f, p)))
        return out

    def put_place(f, p):
        fs = set()
        for (k, i, loc, st) in p.stores():
            if loc[:1] == (1,) and len(loc) > 1:
                fs.add(loc[1])
        for (k, bid, callee, args, t) in path_calls(p, expand=False):
            l0 = arg_loc(f, t, 0)
            if l0 is not None and l0[:1] == (1,) and len(l0) > 1 and isinstance(callee, str) and callee.rsplit('::', 1)[-1] in (
                    'extend', 'extend_from_slice', 'copy_from_slice', 'clone_from_slice', 'push', 'clear', 'index_mut', 'clone_into', 'resize', 'truncate'):
                fs.add(l0[1])
        return frozenset(fs)

    def get_place(f, p):
        return frozenset(x[2] for x in walk(p.ret()) if x[0] == 'field' and x[1][0] == 'param')
    slot_adt = lib.adts.get('raw::ops::Slot') or {}
    data_fields = {fd['name'] for v_ in slot_adt.get('variants', [])[:1] for fd in v_['fields'] if fd['ty'].startswith(('std::vec::Vec<', '[', 'std::boxed::Box<[', 'smallvec', 'std::string::String'))}
    _pp, _gp = put_place, get_place
    put_place = lambda f_, p_: frozenset(x for x in _pp(f_, p_) if x in data_fields)
    get_place = lambda f_, p_: frozenset(x for x in _gp(f_, p_) if x in data_fields)
    cp, cg = classify(put, put_place), classify(get, get_place)
    if cp is None or cg is None:
        ctx.undecided(R, 'slot-storage', 'the slot key accessors branch on something that is not a length compared with a constant', fn=get)
        return
    if len(cg) <= 1 and len(cp) <= 1:
        ctx.check(R, True, 'slot-storage', '', fn=get)
        return
    bad = None
    for n in range(0, 600):
        w = [pl for ts, pl in cp if all(t(n) for t in ts)]
        r = [pl for ts, pl in cg if all(t(n) for t in ts)]
        if len(w) != 1 or len(r) != 1:
            continue
        data_w = {x for x in w[0]}
        if not (r[0] & data_w):
            bad = (n, sorted(w[0]), sorted(r[0]))
            break
    ctx.check(R, bad is None, 'slot-storage', 'for a key of %s bytes the slot stores it in %s but hands out %s: set operations emit a stale or garbage key of exactly that length' % (bad if bad is not None else ('?', '?', '?')), fn=get)


def run(ctx):
    lib = ctx.lib
    pv = Prover(lib)
    ctx.rule('R05.1', 'slot linearity: a slot taken from the heap or the parked field is refilled or parked exactly once', floor=10)
    ctx.rule('R05.2', 'emit predicates: intersection iff counter = number of input streams; symmetric difference iff odd; union always; counter starts at 1, +1 per equal-key pop', floor=8)
    ctx.rule('R05.4', 'outs discipline: cleared once per candidate key, one (index, value) entry per popped slot taken from that slot', floor=8)
    rf = ctx.step(r05_2_k, ctx, pv)
    summaries = {}
    # the slot bookkeeping rules classify slots by the primitive that produced them; when those primitives were redesigned (merged
    # behind a mode parameter, renamed beyond the alias pass) nothing about slots can be decided
    prim_missing = [q for q in TAKERS + (HEAP + '::refill',) if lib.fn(q) is None]
    if prim_missing:
        ctx.missing('R05.1', 'anchor:heap-primitives', 'heap primitives not found: %s' % [q.rsplit('::', 1)[-1] for q in prim_missing])
        ctx.step(r05_5, ctx)
        ctx.step(r05_6, ctx)
        ctx.step(r05_7, ctx)
        ctx.step(r05_8, ctx)
        return
    for name, path in OPS.items():
        f = lib.fn(path)
        if f is None:
            continue
        for g in drain_helpers(lib, f):
            if g.path not in summaries:
                summaries[g.path] = helper_summary(ctx, g)
                ctx.step(r05_1_4, ctx, 'helper:' + g.path.rsplit('::', 1)[-1], g)
                ctx.step(r05_key, ctx, 'helper:' + g.path.rsplit('::', 1)[-1], g)
    for name, path in OPS.items():
        f = lib.fn(path)
        if f is None:
            ctx.missing('R05.1', 'anchor:' + name, '%s stream not found' % name)
            continue
        ctx.step(r05_1_4, ctx, name, f)
        ctx.step(r05_key, ctx, name, f)
        ctx.step(r05_2, ctx, name, f, pv, rf, summaries)
        if name != 'difference':
            ctx.step(r05_4_clear, ctx, name, f)
    ctx.step(r05_4_difference, ctx)
    ctx.step(r05_3, ctx)
    ctx.step(r05_9, ctx)
    # operations run over whatever streams they are given, range streams included: a range wrapper that sets another bound than its name
    # says (gt delegating to ge) changes the operand sets (R03.2, the 16 wrapper setters, shared with C03)
    import rules.C03 as C03
    ctx.step(C03.r03_2, ctx)
    ctx.step(r05_5, ctx)
    ctx.step(r05_6, ctx)
    ctx.step(r05_7, ctx)
    ctx.step(r05_8, ctx)
