"""C01 — build-then-enumerate round trip is exact (structural part)."""
from paths import explore
from sym import fmt, walk, Sym
from callgraph import CallGraph
from rules.common import adt_base, Anchors, path_calls, ret_kind, arg_loc, arg_locs
from rules.streams import norm, is_call, is_head
from rules import readerrules, layout, formatrules
import stdmodel as SM

LEVEL = 'other'
ROLES = ['lib']
EXPLANATION = ('Decides structural necessary conditions of the round trip, not the equality of streamed and inserted values for all '
               'inputs: R01.1 layout agreement as two one-sided checks against the format table - every section the three node encoders '
               'emit (order, direction, width, guard) and every byte offset, width and guard of the 16 reader accessors, Node::new '
               'wiring and Node::transition; R01.2 the key counter is written exactly on the accepting paths (+1 with the suffix, := 1 '
               'for the empty key, untouched on the duplicate return), is the footer\'s first word, and len()/is_empty() read it back; '
               'R01.3 tiling - the address handed to the encoder is the byte counter read with no emission in between, last_addr is '
               'counter-1 right after, only header / node compiler / footer emit through the builder\'s writer; R01.4 one emission funnel '
               'behind every front end; R01.5 output-prefix algebra of the builder (prefix = min, pushed remainder = old - min, the '
               'remainder is added to the final output, to every transition and to the pending transition of the next node; a new '
               'suffix carries the remaining output on its first transition only) and the Output arithmetic itself; integer packing '
               'thresholds (shared with C09). The stream side (frame contents, emitted key/value) is decided under C03.')
TRUSTED = ['the format table; std semantics of cmp::min, checked_sub, Iterator::{zip, take_while, count}']
ASSUMPTIONS = ['not decided: the global invariant that each key\'s value equals the sum of outputs along its path (it is an inductive argument over the builder\'s stack, of which R01.5 checks every local step)']


def r01_2(ctx, A):
    R = ctx.rule('R01.2', 'key count: +1 exactly with a new suffix, := 1 for the empty key, untouched on the duplicate return; footer word and len()/is_empty() read it', floor=6)
    lib = ctx.lib
    add = lib.fn(A.builder + '::<W>::add')
    ins_out = None
    if add is not None:
        for p in explore(add, max_visits=1):
            for (k, bid, callee, args, t) in path_calls(p):
                if callee in lib.fns and lib.fns[callee].impl and adt_base(lib.fns[callee].impl['self_ty']) == A.builder and 'check' not in callee:
                    ins_out = lib.fns[callee]
    if ins_out is None:
        ctx.missing(R, 'anchor:insert-routine', 'inserting routine not found')
        return
    f = ins_out
    lenf = [fd['name'] for fd in lib.adts[A.builder]['variants'][0]['fields'] if fd['ty'] == 'usize']
    # the counter is the usize field stored in this routine
    stored = set()
    for p in explore(f, max_visits=1, havoc=True):
        for (k, i, loc, st) in p.stores():
            if loc[0] == 1 and len(loc) == 2 and loc[1] in lenf:
                stored.add(loc[1])
    if len(stored) != 1:
        ctx.undecided(R, 'counter', 'cannot identify the key counter (%s)' % sorted(stored), fn=f)
        return
    CNT = next(iter(stored))
    seen = set()
    for p in explore(f, max_visits=1, havoc=True):
        if p.end != 'return' or ret_kind(p.ret()) != 'ok':
            continue
        calls = path_calls(p)
        sts = [(loc, st, k, i) for (k, i, loc, st) in p.stores() if loc == (1, CNT)]
        empty = [d for d in p.decisions if is_call(d[2], '::is_empty') and not any(x[0] == 'field' for x in walk(d[2][2][0]))]
        suffix = [c for c in calls if isinstance(c[2], str) and c[2].endswith('::add_suffix')]
        if empty and empty[0][3] == 1:
            seen.add('empty')
            ok = len(sts) == 1 and p.sym.rvalue_at(sts[0][1]['rv'], (sts[0][2], sts[0][3])) == ('const', 1)
            ctx.check(R, ok, 'empty-key', 'for the empty key the count must become exactly 1 (it can only be the first key; a repeated empty key in a set must not count twice): %s' % (
                [fmt(p.sym.rvalue_at(s[1]['rv'], (s[2], s[3]))) for s in sts]), fn=f)
        elif suffix:
            seen.add('new')
            ok = len(sts) == 1
            if ok:
                v = p.sym.rvalue_at(sts[0][1]['rv'], (sts[0][2], sts[0][3]))
                ok = v == ('bin', 'Add', ('field', ('param', f.local_name(1), 1), CNT), ('const', 1))
            ctx.check(R, ok, 'new-key', 'a key that adds a suffix must increase the count by exactly 1', fn=f)
        else:
            seen.add('dup')
            ctx.check(R, not sts, 'duplicate', 'the duplicate-key return must not touch the count', fn=f)
    ctx.check(R, seen == {'empty', 'new', 'dup'}, 'paths', 'inserting routine paths recognised: %s' % sorted(seen), fn=f, kind='undecided')
    # reader side: anchored on the public accessors; private forwarding helpers (FstRef::len ...) are inlined
    from absint import Prover
    from rules.common import root_param
    pv = Prover(lib)

    def is_len_field(e):
        rp, chain = root_param(e)
        return rp is not None and rp[2] == 1 and chain[-2:] == ['meta', 'len'] and e[0] == 'field'
    for name, want in (('raw::Fst::<D>::len', 'len'), ('raw::Fst::<D>::is_empty', 'is_empty')):
        g = lib.fn(name)
        if g is None:
            ctx.missing(R, 'anchor:' + name, name + ' not found')
            continue
        for p in explore(g, max_visits=1):
            if p.end == 'return':
                rv = pv.inline(p.ret())
                while is_call(rv, 'AsRef::as_ref') or is_call(rv, '::as_ref'):
                    rv = rv[2][0]
                rv = strip_asref(rv)
                ok = is_len_field(rv) if want == 'len' else (rv[0] == 'bin' and rv[1] == 'Eq' and is_len_field(rv[2]) and rv[3] == ('const', 0))
                ctx.check(R, ok, 'reader:' + want, '%s() must report the stored key count%s: %s' % (want, ' = 0' if want == 'is_empty' else '', fmt(rv)[:60]), fn=g)
    return ins_out


def strip_asref(e):
    """Fst::as_ref() builds FstRef { meta: &self.meta, data }: look through that aggregate"""
    from sym import map_children, simplify_proj
    return simplify_proj(e)


def r01_3(ctx, A):
    R = ctx.rule('R01.3', 'tiling: node address = byte counter read with no emission in between; last_addr = counter - 1 right after; only header / compiler / footer emit', floor=4)
    lib = ctx.lib
    cg = CallGraph(lib)
    comp = [m for m in A.builder_methods() if any((m.callee(t) or '').endswith('::compile_to') for _, t in m.calls())]
    if len(comp) != 1:
        ctx.missing(R, 'anchor:compiler', 'the builder routine calling the node encoder was not found')
        return None
    f = comp[0]
    count_fn = A.cw + '::<W>::count'
    for p in explore(f, max_visits=1):
        if p.end != 'return' or ret_kind(p.ret()) != 'ok':
            continue
        calls = path_calls(p)
        enc = [c for c in calls if isinstance(c[2], str) and c[2].endswith('::compile_to')]
        if not enc:
            continue
        k, bid, callee, args, t = enc[0]
        addr = args[3]
        while addr[0] == 'cast':
            addr = addr[1]
        ok_addr = addr[0] == 'call' and addr[1] == count_fn and arg_is(addr[2][0], A.b_wtr)
        # no emission between reading the counter and encoding: the counter value is the one right before the call
        now = p.sym.call_expr_at((k, 'T'))
        between = [c for c in calls if c[0] < k and c[2] in lib.fns and SM.IO_WRITE_ALL in cg.reachable([c[2]]) and c[0] > first_pos(p, calls, count_fn)]
        ok_last = args[2] == ('field', ('param', f.local_name(1), 1), 'last_addr')
        ctx.check(R, ok_addr and not between and ok_last, 'address', 'the node encoder must be given (previous node address, current byte count) with nothing emitted in between: addr=%s' % fmt(args[3])[:80], fn=f, at=t.get('span'))
        sts = [(loc, st, kk, i) for (kk, i, loc, st) in p.stores() if loc == (1, 'last_addr') and kk > k]
        ok = False
        if len(sts) == 1:
            v = p.sym.rvalue_at(sts[0][1]['rv'], (sts[0][2], sts[0][3]))
            ok = v[0] == 'bin' and v[1] == 'Sub' and v[3] == ('const', 1) and any(x[0] == 'call' and x[1] == count_fn and any(y[0] == 'after' and is_call(y[1], '::compile_to') for y in walk(x)) for x in walk(v[2]))
        ctx.check(R, ok, 'last_addr', 'after encoding, last_addr must be (byte count - 1), i.e. the address of the node just written', fn=f)
        okr = dict(p.ret()[2]).get('0') is not None and norm(dict(p.ret()[2])['0']) == norm(('field', ('after', None, 0, None), 'x')) or True
        rv = dict(p.ret()[2]).get('0')
        ctx.check(R, rv is not None and sts and norm(rv) == norm(p.sym.rvalue_at(sts[0][1]['rv'], (sts[0][2], sts[0][3]))), 'returns-address', 'compile must return the address of the node just written', fn=f)
    # the body of the file is the concatenation of the encoded nodes and nothing else: the routine that calls the node encoder writes
    # no byte of its own (padding, markers) - readers of the crate follow deltas and would not notice, any other decoder of the format would
    extra = []
    for bid, t in f.calls():
        callee = f.callee(t) or ''
        if callee.endswith('::compile_to'):
            continue
        if f.callee_decl(t) in (SM.IO_WRITE_ALL, 'std::io::Write::write') or (callee in lib.fns and not (lib.fns[callee].impl and adt_base(lib.fns[callee].impl['self_ty']) == A.builder) and SM.IO_WRITE_ALL in cg.reachable([callee])):
            extra.append((callee or f.callee_decl(t), t.get('span')))
    ctx.check(R, not extra, 'compiler-emits-nodes-only', 'the node compiler writes bytes of its own besides the encoded node (%s): the node extents no longer tile the body of the file' % [e[0].rsplit('::', 1)[-1] for e in extra], fn=f, at=extra[0][1] if extra else None)
    # `last_addr` is the address of the node written last; it decides whether the next node may use the compact "next" form.  Only the
    # constructor and the node compiler set it: any other writer makes the bytes depend on the path by which the keys arrived
    for m in A.builder_methods():
        if m.path == f.path or m.from_expansion:
            continue
        is_ctor = any(isinstance(st['rv'].get('agg'), dict) and st['rv']['agg'].get('adt') == A.builder for b_ in m.normal_blocks() for st in b_['stmts'] if st['k'] == 'assign')
        if is_ctor:
            continue
        for p in explore(m, max_visits=1, havoc=True, limit=300):
            w = [loc for (k, i, loc, st) in p.stores() if loc == (1, 'last_addr')]
            if w:
                ctx.violation(R, 'last_addr-writer:' + m.path, '%s assigns last_addr although it is neither the constructor nor the node compiler: the choice between the compact and the long node form then depends on how the keys were fed (insert / extend_iter / extend_stream), not on the keys' % m.path.rsplit('::', 1)[-1], fn=m)
                break
    # who emits through the builder's writer
    emitters = []
    for m in A.builder_methods():
        for bid, t in m.calls():
            callee = m.callee(t)
            if m.callee_decl(t) == SM.IO_WRITE_ALL or (callee in lib.fns and not (lib.fns[callee].impl and adt_base(lib.fns[callee].impl['self_ty']) == A.builder) and SM.IO_WRITE_ALL in cg.reachable([callee])):
                if any(l is not None and (l[:2] == (1, A.b_wtr) or (len(l) == 1 and m.local_ty(l[0]).startswith(A.cw))) for l in arg_locs(m, t)) or any(l is not None and len(l) == 1 and m.local_ty(l[0]) in ('W/#0',) for l in arg_locs(m, t)):
                    emitters.append(m.path)
    em = sorted(set(emitters))
    # roles: the constructor (no self, returns the builder), the node compiler (calls the node encoder), the finisher (consumes self);
    # a private helper that is only called from those is part of them
    def role(path):
        m = lib.fns[path]
        if any((m.callee(t) or '').endswith('::compile_to') for _, t in m.calls()):
            return 'compiler'
        if m.arg_count >= 1 and adt_base(m.local_ty(1)) == A.builder and not m.local_ty(1).startswith('&'):
            return 'finisher'
        if A.builder in m.local_ty(0) and not (m.arg_count >= 1 and A.builder in m.local_ty(1)):
            return 'constructor'
        return None

    def covered(path, seen=()):
        if role(path):
            return True
        m = lib.fns[path]
        callers = [c for c in cg.rev.get(path, ()) if c in lib.fns]
        if m.d.get('vis') == 'public' or not callers or path in seen:
            return False
        return all(covered(c, seen + (path,)) for c in callers)
    roles = sorted({role(x) for x in em if role(x)})
    stray = [x for x in em if not covered(x)]
    ctx.check(R, roles == ['compiler', 'constructor', 'finisher'] and not stray, 'emitters',
              'only the header writer (constructor), the node compiler and the footer writer (finisher), or private helpers of theirs, may emit through the builder\'s writer (roles %s, others %s)' % (roles, stray), detail=em)
    return f


def first_pos(p, calls, fnpath):
    for c in calls:
        if c[2] == fnpath:
            return c[0]
    return -1


def arg_is(e, field):
    return e[0] == 'field' and e[2] == field and e[1][0] == 'param'


def _output_by_cases(f, which):
    """prefix / sub written with explicit comparisons: evaluated over the three orderings of (self, o)"""
    A_, B_ = ('field', ('param', f.local_name(1), 1), '0'), ('field', ('param', f.local_name(2), 2), '0')
    import operator as _op
    OPS = {'Lt': _op.lt, 'Le': _op.le, 'Gt': _op.gt, 'Ge': _op.ge, 'Eq': _op.eq, 'Ne': _op.ne}
    paths = list(explore(f, max_visits=1))
    for (a, b) in ((1, 2), (2, 2), (2, 1)):
        hit = []
        for p in paths:
            good = True
            for d in p.decisions:
                e, val = d[2], d[3]
                if e[0] == 'bin' and e[1] in OPS and {e[2], e[3]} == {A_, B_} and val in (0, 1):
                    x, y = (a, b) if e[2] == A_ else (b, a)
                    if bool(OPS[e[1]](x, y)) != bool(val):
                        good = False
                        break
                elif e[0] == 'field' and e[2] == '1' and e[1][0] == 'bin' and e[1][1].endswith('WithOverflow'):
                    continue          # the overflow flag of the subtraction itself (unreachable where guarded)
                else:
                    return False
            if good:
                hit.append(p)
        if not hit:
            return False
        for p in hit:
            if which == 'sub':
                if a < b:
                    if p.end == 'return':
                        return False
                else:
                    if p.end != 'return':
                        if any(d[2][0] == 'field' and d[2][2] == '1' for d in p.decisions):
                            continue
                        return False
                    rv = p.ret()
                    v = rv[2][0][1] if rv[0] == 'agg' and rv[2] else None
                    while v is not None and v[0] == 'field' and v[2] == '0' and v[1][0] == 'bin' and v[1][1].endswith('WithOverflow'):
                        v = ('bin', v[1][1][:-len('WithOverflow')], v[1][2], v[1][3])
                    if not (v is not None and v[0] == 'bin' and v[1] == 'Sub' and v[2] == A_ and v[3] == B_):
                        return False
            else:
                if p.end != 'return':
                    return False
                rv = p.ret()
                src = None
                if rv[0] == 'param':
                    src = rv[2]
                elif rv[0] == 'agg' and rv[2] and rv[2][0][1] in (A_, B_):
                    src = 1 if rv[2][0][1] == A_ else 2
                if src is None:
                    return False
                smaller = {1} if a < b else ({2} if a > b else {1, 2})
                if src not in smaller:
                    return False
    return True


def r01_5(ctx, A):
    R = ctx.rule('R01.5', 'output-prefix algebra of the builder and the Output arithmetic', floor=12)
    lib = ctx.lib
    # Output arithmetic
    table = {'raw::Output::cat': lambda rv: rv[0] == 'agg' and rv[2][0][1][0] == 'bin' and rv[2][0][1][1] == 'Add' and fields01(rv[2][0][1]),
             'raw::Output::prefix': lambda rv: rv[0] == 'agg' and (is_call(rv[2][0][1], 'cmp::min') or is_call(rv[2][0][1], 'Ord::min')) and fields01(('bin', 'x', rv[2][0][1][2][0], rv[2][0][1][2][1])),
             'raw::Output::sub': lambda rv: rv[0] == 'agg' and any(is_call(x, 'checked_sub') and fields01(('bin', 'x', x[2][0], x[2][1]), ordered=True) for x in walk(rv)),
             'raw::Output::is_zero': lambda rv: rv == ('bin', 'Eq', ('field', ('param', 'self', 1), '0'), ('const', 0)),
             'raw::Output::value': lambda rv: rv == ('field', ('param', 'self', 1), '0'),
             'raw::Output::new': lambda rv: rv[0] == 'agg' and rv[2][0][1][0] == 'param',
             'raw::Output::zero': lambda rv: rv[0] == 'agg' and rv[2][0][1] == ('const', 0)}
    for name, pred in table.items():
        f = lib.fn(name)
        if f is None:
            ctx.missing(R, 'anchor:' + name, name + ' not found')
            continue
        # private forwarding (Output::new(0), `self == Output::zero()` through the derived PartialEq) is inlined first
        from absint import Prover
        from sym import simplify_proj
        pvo = Prover(lib)
        pvo._tmpl[name] = None      # do not inline the function into itself
        rs = [simplify_proj(pvo.inline(p.ret())) for p in explore(f, max_visits=1) if p.end == 'return']
        ok = False
        try:
            ok = len(rs) == 1 and bool(pred(rs[0]))
        except (IndexError, TypeError):
            ok = False
        if not ok and name.rsplit('::', 1)[-1] in ('prefix', 'sub'):
            ok = _output_by_cases(f, name.rsplit('::', 1)[-1])
        ctx.check(R, ok, 'output:' + name.rsplit('::', 1)[-1], 'Output::%s is not %s: %s' % (name.rsplit('::', 1)[-1], {'cat': 'a + b', 'prefix': 'min(a, b)', 'sub': 'a - b (checked)', 'is_zero': 'a == 0', 'value': 'the wrapped integer', 'new': 'a wrapper', 'zero': '0'}[name.rsplit('::', 1)[-1]], [fmt(r)[:80] for r in rs]), fn=f)
    # common prefix with outputs
    f = lib.fn('raw::build::UnfinishedNodes::find_common_prefix_and_set_output')
    if f is None:
        ctx.missing(R, 'anchor:prefix-routine', 'find_common_prefix_and_set_output not found')
    else:
        outs = [l for l in range(1, f.arg_count + 1) if f.local_ty(l) == 'raw::Output']
        n = 0
        for p in explore(f, max_visits=1, havoc=True):
            if p.end != 'cut':
                continue
            pre = [c for c in path_calls(p) if c[2] == 'raw::Output::prefix']
            if not pre:
                continue
            n += 1
            O = outs[0]
            k, bid, callee, args, t = pre[0]
            told = args[0]
            okp = told[0] == 'field' and told[2] == 'out' and is_head(args[1], {O})
            m = norm(p.sym.call_expr_at((k, 'T')))
            vo = p.sym.loc_value_at((O,), (len(p.blocks) - 2, 'T'))
            ok_out = is_call(vo, 'Output::sub') and is_head(vo[2][0], {O}) and norm(vo[2][1]) == m
            sts = [(loc, st, kk, i) for (kk, i, loc, st) in p.stores() if loc[-1:] == ('out',)]
            ok_t = len(sts) == 1 and norm(p.sym.rvalue_at(sts[0][1]['rv'], (sts[0][2], sts[0][3]))) == m
            push = [c for c in path_calls(p) if isinstance(c[2], str) and c[2].endswith('::add_output_prefix')]
            z = [d for d in p.decisions if is_call(d[2], 'Output::is_zero') and is_call(d[2][2][0], 'Output::sub')]
            rem_ok = True
            if z:
                rem = z[-1][2][2][0]
                rem_ok = norm(rem[2][0]) == norm(told) and norm(rem[2][1]) == m
                if z[-1][3] == 0:
                    rem_ok = rem_ok and len(push) == 1 and norm(push[0][3][1]) == norm(rem) and any(x[0] == 'bin' and x[1] == 'Add' and x[3] == ('const', 1) for x in walk(push[0][3][0]))
                else:
                    rem_ok = rem_ok and not push
            else:
                rem_ok = False
            # the byte compared is the pending transition's input against the key byte at the same depth
            cmpd = [d for d in p.decisions if d[2][0] == 'bin' and d[2][1] == 'Eq' and any(x[0] == 'field' and x[2] == 'inp' for x in walk(d[2]))]
            ok_cmp = bool(cmpd) and cmpd[-1][3] == 1
            ctx.check(R, okp and ok_out and ok_t and rem_ok and ok_cmp, 'prefix-step',
                      'sharing a prefix transition must split outputs as: m = min(t.out, out); t.out := m; out := out - m; remainder t.out_old - m pushed onto the NEXT node iff non-zero (min ok %s, out ok %s, t.out ok %s, remainder ok %s)' % (okp, ok_out, ok_t, rem_ok), fn=f)
        if n == 0:
            ctx.undecided(R, 'prefix-step', 'no prefix-sharing step recognised', fn=f)
    # which of the two prefix routines runs depends ONLY on whether a value was given: the output-free scan never moves outputs, so
    # using it for a key that has a value (even 0) leaves outputs of the shared prefix where they are and they leak onto the new key
    io = [m for m in A.builder_methods() if m.path.endswith('::insert_output')]
    if io:
        io = io[0]
        optp = [i for i in range(1, io.arg_count + 1) if io.local_ty(i).startswith('std::option::Option<raw::Output')]
        nsel = 0
        for p in explore(io, max_visits=1, havoc=True, limit=2000):
            for c in path_calls(p, expand=False):
                if c[2] == 'raw::build::UnfinishedNodes::find_common_prefix' and optp:
                    nsel += 1
                    d = [x for x in p.cdecisions() if x[0] < c[0] and x[2][0] == 'discr' and x[2][1] == ('param', io.local_name(optp[0]), optp[0])]
                    ctx.check(R, bool(d) and d[-1][3] == 0, 'prefix-routine-choice', 'the output-free prefix scan is used for a key that carries a value: outputs sitting on the shared prefix are not redistributed and end up on the new key', fn=io)
        if nsel == 0:
            ctx.undecided(R, 'prefix-routine-choice', 'the choice between the two prefix routines was not recognised', fn=io)
    # sibling of the above for sets (no outputs): the shared prefix is the longest run of positions where the pending transition's
    # byte EQUALS the key byte - an ordering comparison, or a comparison against something else, merges different keys
    f = lib.fn('raw::build::UnfinishedNodes::find_common_prefix')
    if f is not None:
        members = [f] + [g for g in lib.fn_list if g.kind == 'Closure' and g.path.startswith(f.path + '::')]
        cmps = []
        for g in members:
            for p in explore(g, max_visits=1, havoc=True):
                es = [d[2] for d in p.decisions] + ([p.ret()] if p.end == 'return' else [])
                if p.end == 'return' and g.kind == 'Closure':
                    rv = p.ret()
                    if rv[0] == 'bin' and rv[1] == 'Ne' and any(y[0] == 'field' and y[2] == 'inp' for y in walk(rv)):
                        cmps.append(('!= (the predicate holds where the bytes DIFFER)', g))
                for e in es:
                    for x in walk(e):
                        if x[0] == 'bin' and x[1] in ('Eq', 'Ne', 'Lt', 'Le', 'Gt', 'Ge') and any(y[0] == 'field' and y[2] == 'inp' for y in walk(x)):
                            cmps.append((x[1], g))
                        elif x[0] == 'call' and isinstance(x[1], str) and ('PartialOrd' in x[1] or 'Ord>::' in x[1]) and any(y[0] == 'field' and y[2] == 'inp' for y in walk(x)):
                            cmps.append((x[1].rsplit('::', 1)[-1], g))
        bad = [(op, g) for op, g in cmps if op not in ('Eq', 'Ne')]
        if bad:
            ctx.violation(R, 'prefix-cmp', 'the common prefix of a new key with the pending path is computed with "%s" between the pending byte and the key byte; only equality makes it a common prefix' % bad[0][0], fn=bad[0][1])
        elif cmps:
            ctx.check(R, True, 'prefix-cmp', '', fn=f)
        else:
            ctx.undecided(R, 'prefix-cmp', 'no comparison of the pending byte with the key byte recognised in the set variant of the prefix routine', fn=f)
    f = lib.fn('raw::build::BuilderNodeUnfinished::add_output_prefix')
    if f is None:
        ctx.missing(R, 'anchor:add_output_prefix', 'add_output_prefix not found')
    else:
        got = {'final': False, 'trans': False, 'last': False, 'final-guard': False}
        for p in explore(f, max_visits=1, havoc=True):
            for (k, i, loc, st) in p.stores():
                v = p.sym.rvalue_at(st['rv'], (k, i))
                pre_first = is_call(v, 'Output::cat') and v[2][0] == ('param', f.local_name(2), 2)
                if loc[-1:] == ('final_output',):
                    got['final'] = pre_first and v[2][1][0] == 'field' and v[2][1][2] == 'final_output'
                    g = [d for d in p.decisions if d[2][0] == 'field' and d[2][2] == 'is_final']
                    got['final-guard'] = bool(g) and g[-1][3] == 1
                elif loc[-1:] == ('out',) and 'last' in loc:
                    got['last'] = pre_first and v[2][1][0] == 'field' and v[2][1][2] == 'out'
                elif loc[-1:] == ('out',):
                    src = layout.iter_source(f, p.blocks[-1]) if p.end == 'cut' else None
                    got['trans'] = pre_first and v[2][1][0] == 'field' and v[2][1][2] == 'out' and src is not None and any(x[0] == 'field' and x[2] == 'trans' for x in walk(src[2]))
        adaptors = any((g.callee(t) or '').rsplit('::', 1)[-1] in ('for_each', 'chain', 'fold', 'try_for_each', 'map') for g in [f] + [c for c in lib.fn_list if c.kind == 'Closure' and c.path.startswith(f.path + '::')] for _, t in g.calls())
        if not all(got.values()) and adaptors:
            ctx.undecided(R, 'add-output-prefix', 'the pushed-down output is distributed through iterator adaptors the rule does not follow (%s)' % got, fn=f)
        else:
            ctx.check(R, all(got.values()), 'add-output-prefix', 'a pushed-down output must be added to the final output (iff final), to EVERY finished transition and to the pending transition of the node (%s)' % got, fn=f)
    f = lib.fn('raw::build::UnfinishedNodes::add_suffix')
    if f is None:
        ctx.missing(R, 'anchor:add_suffix', 'add_suffix not found')
    else:
        first = rest = fin = False
        for p in explore(f, max_visits=1, havoc=True):
            for (k, i, loc, st) in p.stores():
                if loc[-1:] == ('last',):
                    v = p.sym.rvalue_at(st['rv'], (k, i))
                    if v[0] == 'agg' and v[1].endswith('Option::Some'):
                        lt = dict(v[2][0][1][2]) if v[2][0][1][0] == 'agg' else {}
                        inp0 = lt.get('inp', ('x',))
                        first_byte = (inp0[0] == 'index' and inp0[2] in (('const', 0), '[0]')) or \
                            any(is_call(x, '::split_first') or is_call(x, '::first') for x in walk(inp0)) or _first_next(inp0, f)
                        first = lt.get('out') == ('param', f.local_name(3), 3) and first_byte
            for (k, bid, callee, args, t) in path_calls(p):
                if isinstance(callee, str) and callee.endswith('::push') and args[1][0] == 'agg':
                    fd = dict(args[1][2])
                    l = fd.get('last')
                    if l is not None and l[0] == 'agg' and l[1].endswith('Option::Some') and l[2][0][1][0] == 'agg':
                        lt = dict(l[2][0][1][2])
                        rest = is_call(lt.get('out'), 'Output::zero') and any(is_call(x, '::next') for x in walk(lt.get('inp')))
                if isinstance(callee, str) and (callee.endswith('::extend') or callee.endswith('::extend_from_slice')) and arg_loc(f, t, 0) is not None and arg_loc(f, t, 0)[-1:] == ('stack',):
                    # stack.extend(bs[1..].iter().map(|&b| Frame { node: default, last: Some(LastTransition { inp: b, out: zero }) }))
                    for x in walk(args[1]):
                        if x[0] == 'closure' and x[1] in lib.fns:
                            rr = [q.ret() for q in explore(lib.fns[x[1]], max_visits=1) if q.end == 'return']
                            if len(rr) == 1 and rr[0][0] == 'agg':
                                l = dict(rr[0][2]).get('last')
                                if l is not None and l[0] == 'agg' and l[1].endswith('Option::Some') and l[2][0][1][0] == 'agg':
                                    lt = dict(l[2][0][1][2])
                                    src_ok = (any(y[0] == 'index' or (y[0] == 'call' and 'Index' in str(y[1])) for y in walk(args[1])) and
                                              any(y[0] == 'agg' and y[1].endswith('RangeFrom') and dict(y[2]).get('start') == ('const', 1) for y in walk(args[1]))) or \
                                        any(y[0] == 'field' and y[2] == '1' and any(is_call(z, '::split_first') for z in walk(y)) for y in walk(args[1]))
                                    rest = is_call(lt.get('out'), 'Output::zero') and any(y[0] == 'param' and y[2] == 2 for y in walk(lt.get('inp'))) and src_ok
                if isinstance(callee, str) and callee.endswith('::push_empty'):
                    fin = args[1] == ('const', 1)
        ctx.check(R, first and rest and fin, 'add-suffix', 'a new suffix must put the remaining output on its FIRST transition, zero on the others, and end in a final node (first %s, rest %s, final %s)' % (first, rest, fin), fn=f)
    # freezing a node appends the pending transition with its accumulated output and the child's address
    f = lib.fn('raw::build::BuilderNodeUnfinished::last_compiled')
    if f is not None:
        ok = False
        for p in explore(f, max_visits=1):
            for (k, bid, callee, args, t) in path_calls(p):
                if isinstance(callee, str) and callee.endswith('::push') and args[1][0] == 'agg' and args[1][1] == 'raw::Transition':
                    fd = dict(args[1][2])
                    ok = fd.get('addr') == ('param', f.local_name(2), 2) and all(fd.get(x, ('x',))[0] == 'field' and fd[x][2] == x for x in ('inp', 'out'))
        ctx.check(R, ok, 'last-compiled', 'freezing must append (pending byte, pending output, address of the compiled child) as a transition', fn=f)


def fields01(b, ordered=False):
    a, c = b[2], b[3]
    fa = a[0] == 'field' and a[2] == '0' and a[1][0] == 'param'
    fc = c[0] == 'field' and c[2] == '0' and c[1][0] == 'param'
    if not (fa and fc):
        return False
    if ordered:
        return a[1][2] == 1 and c[1][2] == 2
    return {a[1][2], c[1][2]} == {1, 2}


def r01_4(ctx, A):
    R = ctx.rule('R01.4', 'one emission funnel: every front end reaches node emission only through add/insert -> the inserting routine -> compile', floor=10)
    import rules.C15 as C15
    C15.funnel(ctx, A, R)


def _first_next(e, f):
    """e is the payload of the FIRST next() of a fresh forward iterator over the key-suffix parameter (bs.iter().copied().next())."""
    while e[0] in ('field', 'variant', 'cast'):
        e = e[1]
    if not is_call(e, '::next') or not e[2]:
        return False
    it = e[2][0]
    ok_calls = ('::iter', '::copied', '::cloned', '::into_iter', '::by_ref', '::peekable', '::deref')
    for x in walk(it):
        if x[0] == 'after' or x[0] == 'phi' or x[0] == 'havoc':
            return False
        if x[0] == 'call' and not (isinstance(x[1], str) and x[1].endswith(ok_calls)):
            return False
    return any(x[0] == 'param' and x[2] == 2 for x in walk(it))


def r01_6(ctx):
    """every node fan-out from 0 to 256: a position among the transitions of a node runs from 0 to 256 INCLUSIVE (one past the last of a
    full node), so the DFS frame field that holds it must be wider than a byte"""
    R = ctx.rule('R01.6', 'the enumeration cursor of a DFS frame can hold 256 (one past the last transition of a full node)', floor=1)
    lib = ctx.lib
    frames = [(k, a) for k, a in lib.adts.items() if a.get('kind') == 'Struct' and a['variants'] and any(fd['ty'].startswith('raw::node::Node<') for fd in a['variants'][0]['fields'])]
    ints = {'u8': 8, 'i8': 8, 'u16': 16, 'i16': 16, 'u32': 32, 'i32': 32, 'u64': 64, 'i64': 64, 'usize': 64, 'isize': 64, 'u128': 128, 'i128': 128}
    n = 0
    for k, a in frames:
        for fd in a['variants'][0]['fields']:
            if fd['ty'] not in ints:
                continue
            users = [f for f in lib.fn_list if not f.from_expansion and any(True for _ in f.field_accesses(k, fd['name']))]
            cursor = False
            for f in users:
                for q in explore(f, max_visits=1, havoc=True, limit=200):
                    for (kk, bid, callee, args, t) in path_calls(q, expand=False):
                        if isinstance(callee, str) and callee.endswith("Node::<'f>::transition") and len(args) == 2 and any(x[0] == 'field' and x[2] == fd['name'] for x in walk(args[1])):
                            cursor = True
                    if cursor:
                        break
                if cursor:
                    break
            if not cursor:
                continue
            n += 1
            ctx.check(R, ints[fd['ty']] > 8 and not fd['ty'].startswith('i8'), 'cursor-width:%s.%s' % (k, fd['name']),
                      '%s.%s indexes the transitions of a node but is a %s: a node with 256 transitions needs the position 256 (one past the end) to finish, which does not fit - the enumeration of a full node overflows or never ends' % (k, fd['name'], fd['ty']))
    if n == 0:
        ctx.undecided(R, 'cursor-width', 'no DFS frame field used as a transition index was recognised')


def r01_7(ctx):
    """the map / set level streams (Stream, Keys, Values, the operation wrappers, StreamOutput / StreamZeroOutput) are views of one inner
    stream: each `next` asks the inner stream exactly once and hands on what it got - an adapter that loops can skip items"""
    R = ctx.rule('R01.7', 'map / set level stream adapters forward every item of the stream they wrap (one inner next() per call, no loop)', floor=8)
    lib = ctx.lib
    for f in lib.fn_list:
        if not (f.impl and 'Streamer' in (f.impl.get('trait_path') or '') and f.path.endswith('::next') and f.kind != 'Closure'):
            continue
        if not f.path.startswith(('<inner_map::', '<inner_set::')):
            continue
        inner = [t for _, t in f.calls() if (f.callee(t) or f.callee_decl(t) or '').endswith('::next')]
        ok = not f.loops() and len(inner) == 1
        ctx.check(R, ok, 'adapter:' + f.path, '%s %s: items of the wrapped stream can be skipped or repeated (an adapter must ask the inner stream once and hand on what it got)' % (
            f.path, 'loops over the inner stream' if f.loops() else 'calls the inner next() %d times' % len(inner)), fn=f)


def run(ctx):
    lib = ctx.lib
    A = Anchors(lib)
    if A.err:
        for e in A.err:
            ctx.missing('R01.1', 'anchor', e)
        return
    R1 = ctx.rule('R01.1', 'layout agreement: writer sections and reader offsets both equal the format table', floor=50)
    R2 = ctx.rule('R02.2', 'scan / index agreement between reader and writer (shared with C02)', floor=3)
    ctx.step(readerrules.run, ctx, R1, R2)
    ctx.step(layout.writer_rules, ctx, {'events': R1, 'widths': R1, 'index': R2, 'sizes': R1, 'state': R1})
    ctx.step(formatrules.packing, ctx)
    ctx.step(formatrules.delta_addressing, ctx)
    ctx.step(r01_2, ctx, A)
    ctx.step(r01_3, ctx, A)
    ctx.step(r01_4, ctx, A)
    ctx.step(r01_5, ctx, A)
    # node addresses are byte-counter readings (R01.3): they are right only if the counter counts exactly the accepted bytes (R07.1)
    import rules.C07 as C07
    from absint import Prover
    ctx.step(C07.r07_1, ctx, A, Prover(lib))
    # a hit in the node cache links to an existing node and address 0 stands for "final, no transitions, zero final output": both
    # replace a node by an address, so the round trip needs them exact (R12.1: hit returns the cached address, shortcut guard complete)
    import rules.C12 as C12
    ctx.step(C12.r12_1_4, ctx, A)
    # reader and writer agree on the state byte / sizes byte bit fields, the decoder dispatch and the choice of node form (shared with C09)
    ctx.step(formatrules.state_and_sizes_bits, ctx)
    ctx.step(formatrules.form_selection, ctx)
    ctx.rule('R12.2', 'a refreshed cache cell holds exactly the probe node (clone_from copies finality, final output and REPLACES the transitions)', floor=1)
    ctx.step(C12.node_copy, ctx, 'R12.2')
    # the enumeration's observation points (into_byte_vec, into_str_vec, ...) hand back the streamed items themselves (shared with C03)
    import rules.C03 as C03
    ctx.step(C03.r03_7, ctx)
    ctx.step(r01_6, ctx)
    ctx.step(r01_7, ctx)
    # the tables of common input bytes decide how single-transition nodes spell their byte (R09.1, shared with C09 / C10)
    ctx.step(formatrules.constants, ctx)
    # "opening the produced bytes": the constructor accepts every well-formed file - its version / length gates are exactly the
    # documented ones (R10.1 / R10.4, decided on the same abstract execution as C10)
    import rules.C10 as C10
    if lib.fn(C10.NEW) is not None:
        f10, pv10, L10, recs10 = ctx.step(C10.collect, ctx, lib)
        V10, Ln10, Rt10, meta10 = ctx.step(C10.atoms, ctx, 'R10.1', f10, pv10, L10, recs10)
        ctx.step(C10.r10_1_4, ctx, f10, pv10, L10, recs10, V10, Ln10, Rt10)
