"""C19 — unsorted CLI builds are independent of batching, threads and scheduling (structural part)."""
from paths import explore
from sym import fmt, walk, Sym
from callgraph import CallGraph
from rules.common import path_calls, ret_kind, arg_loc
from rules.streams import norm, is_call
import rules.C11 as C11
import stdmodel as SM

LEVEL = 'other'
ROLES = ['bin']
SELECTIONS = ['ws']
EXPLANATION = ('Decides structural necessary conditions in fst-bin, not equality of outputs over schedules as an observation: R19.1 the '
               'temporary file names of the two phases come from templates with different literal prefixes, one placeholder fed by the '
               'batch index resp. two placeholders fed by (generation, index) separated by a non-numeric literal; index is the enumerate '
               'counter itself and the generation a counter incremented once per round - so names are injective in (phase, generation, '
               'index); R19.2 merger algebra: the registered value mergers are the recognised associative-commutative forms (+, max, '
               'min) and the union fold is seeded with the first value (never a constant); R19.3 duplicate policy: equal keys are '
               'resolved only by applying the merger (in-batch and across batches), no de-duplication of (key, value) pairs, no builder '
               'error swallowed; R19.4 no shared mutable state: no static mut / interior-mutable static, no unsafe impl Send/Sync, the '
               'result collector drops its sender before draining.')
TRUSTED = ['crossbeam channel semantics; associativity/commutativity of +, max, min on u64 (overflow aside)']
ASSUMPTIONS = ['u64 addition does not overflow for the given values']

KV = '<merge::KvBatch as merge::Batchable>::create_fst'
UN = '<merge::UnionBatch as merge::Batchable>::create_fst'
MERGE = 'merge::Merger::<I>::merge'


def parse_template(hexs):
    """new-style fmt template bytes -> list of ('lit', text) | ('arg',)"""
    b = bytes.fromhex(hexs)
    out = []
    i = 0
    while i < len(b):
        x = b[i]
        if x == 0:
            break
        if x & 0x80:
            out.append(('arg',))
            i += 1
        else:
            out.append(('lit', b[i + 1:i + 1 + x].decode('utf8', 'replace')))
            i += 1 + x
    return out


def templates(f):
    """[(pieces, [arg exprs])] for format!-style calls in f"""
    out = []
    for p in explore(f, max_visits=1, havoc=True, limit=400):
        for (k, bid, callee, args, t) in path_calls(p):
            if isinstance(callee, str) and callee.endswith("fmt::Arguments::<'a>::new") and args and args[0][0] == 'cbytes':
                pieces = parse_template(args[0][1])
                vals = []
                if args[1][0] == 'array':
                    for a in args[1][1]:
                        vals.append(a[2][0] if a[0] == 'call' else a)
                key = (args[0][1], tuple(fmt(v) for v in vals))
                if not any(o[2] == key for o in out):
                    out.append((pieces, vals, key))
        if out:
            break
    return out


def r19_1(ctx):
    R = ctx.rule('R19.1', 'temporary file names are injective in (phase, generation, index)', floor=5)
    b = ctx.bin
    kv, un, mg = b.fn(KV), b.fn(UN), b.fn(MERGE)
    if not (kv and un and mg):
        ctx.missing(R, 'anchor:merge', 'merge pipeline functions not found')
        return
    tk = [t for t in templates(kv) if any(x == ('arg',) for x in t[0])]
    tu = [t for t in templates(un) if any(x == ('arg',) for x in t[0])]
    okk = len(tk) == 1 and [x[0] for x in tk[0][0]] == ['lit', 'arg'] and len(tk[0][1]) == 1 and tk[0][1][0][0] == 'field' and tk[0][1][0][2] == 'index'
    ctx.check(R, okk, 'batch-template', 'first-phase temp files must be named <literal><batch index>: %s' % [(t[0], [fmt(v) for v in t[1]]) for t in tk], fn=kv)
    oku = False
    if len(tu) == 1:
        pcs, vals, _ = tu[0]
        kinds = [x[0] for x in pcs]
        fields = [v[2] if v[0] == 'field' else None for v in vals]
        sep_ok = kinds == ['lit', 'arg', 'lit', 'arg'] and pcs[2][1] and not any(ch.isdigit() for ch in pcs[2][1])
        oku = sep_ok and sorted(fields) == ['gen', 'index']
    ctx.check(R, oku, 'union-template', 'union-phase temp files must be named <literal><generation><non-numeric literal><index>: %s' % [(t[0], [fmt(v) for v in t[1]]) for t in tu], fn=un)
    if okk and oku:
        a, c = tk[0][0][0][1], tu[0][0][0][1]
        ctx.check(R, not a.startswith(c) and not c.startswith(a), 'prefixes-differ', 'the two phases\' name prefixes (%r, %r) must not be prefixes of one another' % (a, c), fn=un)
    # provenance of index / generation in merge()
    seen = {}
    gen_l = None
    for p in explore(mg, max_visits=1, havoc=True, limit=6000):
        for (k, bid, callee, args, t) in path_calls(p):
            if isinstance(callee, str) and callee.endswith('Sorters::<B>::create_fst') and args[1][0] == 'agg':
                fd = dict(args[1][2])
                name = args[1][1].rsplit('::', 1)[-1]
                idx = fd.get('index')
                ok_idx = idx is not None and idx[0] == 'field' and idx[2] == '0' and any(is_call(x, '::next') for x in walk(idx))
                if not ok_idx and idx is not None and idx[0] == 'havoc' and len(idx[1]) == 1 and p.end == 'cut':
                    # manual counter: `let mut index = 0; for .. { use(index); index += 1; }` - its value at the end of this very
                    # iteration must be the value used plus one
                    v = p.sym.loc_value_at((idx[1][0],), (len(p.blocks) - 2, 'T'))
                    ok_idx = v[0] == 'bin' and v[1] == 'Add' and v[2][0] == 'havoc' and v[2][1] == idx[1] and v[3] == ('const', 1)
                elif not ok_idx and idx is not None and idx[0] == 'havoc' and p.end != 'cut':
                    continue      # judged on the path that closes the iteration
                seen.setdefault(name, []).append((ok_idx, fd.get('gen')))
    for name in ('KvBatch', 'UnionBatch'):
        v = seen.get(name)
        if not v:
            ctx.undecided(R, 'index:' + name, '%s construction not found in merge()' % name, fn=mg)
            continue
        ctx.check(R, all(x[0] for x in v), 'index:' + name, 'the index of a %s must be the enumerate counter of its batch itself (not a function of it): names of different batches of one round would collide' % name, fn=mg)
    ub = seen.get('UnionBatch')
    if ub:
        g = ub[0][1]
        okg = g is not None and g[0] == 'havoc' and len(g[1]) == 1
        step = False
        if okg:
            gl = g[1][0]
            for p in explore(mg, max_visits=1, havoc=True, limit=6000):
                if p.end == 'cut':
                    v = p.sym.loc_value_at((gl,), (len(p.blocks) - 2, 'T'))
                    if v == ('bin', 'Add', ('havoc', (gl,), v[2][2] if v[0] == 'bin' and v[2][0] == 'havoc' else None, v[2][3] if v[0] == 'bin' and v[2][0] == 'havoc' else None), ('const', 1)):
                        step = True
                    elif v[0] == 'bin' and v[1] == 'Add' and v[2][0] == 'havoc' and v[2][1] == (gl,) and v[3] == ('const', 1):
                        step = True
        if not (okg and step) and g is not None:
            # `for gen in 0.. { .. }`: the item of an integer range iterator stepping by one
            rng_item = g[0] == 'field' and g[2] == '0' and g[1][0] == 'variant' and g[1][2] == 'Some' and is_call(g[1][1], '::next') and 'ops::Range' in str(g[1][1][1]) and 'StepBy' not in str(g[1][1][1])
            if rng_item:
                okg = step = True
        ctx.check(R, okg and step, 'generation', 'the generation must be a counter that grows by one per union round: %s' % fmt(g)[:60], fn=mg)


def closure_form(b, path):
    f = b.fns.get(path)
    if f is None:
        return None
    rs = [p.ret() for p in explore(f, max_visits=1) if p.end == 'return']
    if len(rs) != 1:
        return None
    r = rs[0]
    if r[0] == 'bin' and r[1] == 'Add' and {r[2][0], r[3][0]} == {'param'}:
        return '+'
    if is_call(r, 'cmp::max') and all(a[0] == 'param' for a in r[2]):
        return 'max'
    if is_call(r, 'cmp::min') and all(a[0] == 'param' for a in r[2]):
        return 'min'
    return fmt(r)[:60]


def merger_forms(b, e, depth=0):
    """recognised algebraic forms of every function value that may flow into expression e"""
    out = []
    for x in walk(e):
        if x[0] == 'closure':
            out.append(closure_form(b, x[1]))
        elif x[0] == 'cfn':
            nm = x[1]
            out.append('max' if nm.endswith('cmp::max') or nm.endswith('Ord::max') else 'min' if nm.endswith('cmp::min') or nm.endswith('Ord::min') else
                       '+' if nm.endswith('Add>::add') or nm.endswith('u64>::wrapping_add') else nm[:60])
        elif x[0] == 'call' and isinstance(x[1], str) and x[1] in b.fns and depth < 3 and 'fn(' in b.fns[x[1]].local_ty(0).replace('FnDef', ''):
            g = b.fns[x[1]]
            for q in explore(g, max_visits=1, limit=200):
                if q.end == 'return':
                    out.extend(merger_forms(b, q.ret(), depth + 1))
    return out


def acc_folds(b, g):
    """loop-form folds in g: [(seed expr or None, applies_merger)] for loop-carried u64 accumulators combined through a dyn Fn"""
    res = []
    loops = g.loop_havoc()
    accs = sorted({T[0] for h, ts in loops.items() for T, _ in ts if len(T) == 1 and g.local_ty(T[0]) == 'u64'})
    for a in accs:
        step_ok = False
        step_blocks = set()
        for p in explore(g, max_visits=1, havoc=True, limit=2000):
            if p.end != 'cut':
                continue
            v = p.sym.loc_value_at((a,), (len(p.blocks) - 2, 'T'))
            if is_call(v, 'Fn::call') or is_call(v, 'FnMut::call_mut'):
                hv = [x for x in walk(v) if x[0] == 'havoc' and x[1] == (a,)]
                step_ok = step_ok or bool(hv)
                if hv:
                    step_blocks.add(v[3][1] if len(v) > 3 and v[3] else None)
        if not step_ok:
            continue
        # the value the accumulator has when the (innermost) loop performing the step is entered
        seeds = []
        sy = Sym(g)
        inner = [body_ for h_, body_ in g.loops().items() if any(sb in body_ for sb in step_blocks if sb is not None)]
        body = min(inner, key=len) if inner else (set().union(*g.loops().values()) if g.loops() else set())
        for bid, bl in g.blocks.items():
            if bl['cleanup'] or bid in body:
                continue
            for i, st in enumerate(bl['stmts']):
                if st['k'] == 'assign' and not st['place']['proj'] and st['place']['local'] == a:
                    seeds.append(sy.rvalue(st['rv'], bid, i))
        res.append((seeds, True))
    return res


def const_like(e):
    while e[0] == 'cast':
        e = e[1]
    return e[1] if e[0] == 'const' else None


def seed_is_element(e):
    return e[0] != 'const' and any(is_call(x, '::next') or is_call(x, '::split_first') or is_call(x, '::first') or x[0] == 'index' for x in walk(e))


def r19_2(ctx):
    R = ctx.rule('R19.2', 'merger algebra: registered mergers are +, max, min; the union fold is seeded with the first value', floor=4)
    b = ctx.bin
    f = b.fn('cmd::map::Args::run_unsorted')
    if f is None:
        ctx.missing(R, 'anchor:run_unsorted', 'map command\'s unsorted path not found')
    else:
        forms = []
        for p in explore(f, max_visits=1, havoc=True, limit=4000):
            for (k, bid, callee, args, t) in path_calls(p):
                if isinstance(callee, str) and callee.endswith('::value_merger') and callee.startswith('merge::'):
                    for a in args[1:]:
                        forms.extend(merger_forms(b, a))
        fs = sorted(set(x for x in forms if x))
        ctx.check(R, bool(fs) and set(fs) <= {'+', 'max', 'min'}, 'registered-mergers', 'every value merger must be associative and commutative (recognised: +, max, min), found %s' % fs, fn=f, detail=fs)
    un = b.fn(UN)
    if un is None:
        ctx.missing(R, 'anchor:union', 'union batch not found')
        return
    n = 0
    for p in explore(un, max_visits=1, havoc=True, limit=4000):
        for (k, bid, callee, args, t) in path_calls(p):
            if isinstance(callee, str) and callee.endswith('::fold'):
                n += 1
                init = args[1]
                seeded = (init[0] == 'field' and init[1][0] == 'variant' and init[1][2] == 'Some' and any(is_call(x, '::next') for x in walk(init))) or \
                    (init[0] != 'const' and any(is_call(x, '::split_first') or is_call(x, '::first') for x in walk(init)))
                by_index = [x for x in walk(init) if x[0] == 'index' and (x[2] in (('const', 0), '[0]'))]
                if not seeded and by_index:
                    # `fold(outputs[0].value, ..)`: fine only if the fold then runs over the REST
                    recv = args[0]
                    rest = any(is_call(x, 'Iterator::skip') for x in walk(recv)) or any(x[0] == 'agg' and x[1].endswith('ops::RangeFrom') and dict(x[2]).get('start') == ('const', 1) for x in walk(recv))
                    ctx.check(R, rest, 'fold-seed', 'the fold over the values of one key is seeded with element 0 and then runs over ALL elements: the first value is merged twice (sum doubles it)', fn=un, at=t.get('span'))
                    continue
                if not seeded and init[0] != 'const' and const_like(init) is None:
                    ctx.undecided(R, 'fold-seed', 'the seed of the fold over the values of one key is neither a constant nor recognisably the first value: %s' % fmt(init)[:60], fn=un, at=t.get('span'))
                    continue
                ctx.check(R, seeded, 'fold-seed', 'the fold over the values of one key must start from the first value, not from %s: a constant seed is not neutral for every merger (0 is absorbing for min)' % fmt(init)[:60], fn=un, at=t.get('span'))
                clo = [x for x in args if x[0] == 'closure']
                ok = False
                if clo and clo[0][1] in b.fns:
                    cf = b.fns[clo[0][1]]
                    rs = [q.ret() for q in explore(cf, max_visits=1) if q.end == 'return']
                    ok = len(rs) == 1 and is_call(rs[0], 'Fn::call') and len([a for a in walk(rs[0]) if a[0] == 'param']) >= 2
                if not clo and len(args) == 3 and any(y[0] == 'field' and y[2] == 'value_merger' for y in walk(args[2])):
                    ok = True           # `values.fold(first, value_merger)`: the configured merger itself is the folding function
                ctx.check(R, ok, 'fold-applies-merger', 'each further value must be combined through the configured merger', fn=un)
    helper_fold = set()
    if n == 0:
        # loop form, possibly in a private helper: acc = first value; for each further value: acc = merger(acc, value)
        cg = CallGraph(b)
        cands = [un] + [b.fns[q] for q in sorted(cg.reachable([un.path])) if q in b.fns and q.startswith('merge::') and q != un.path and '{closure' not in q]
        for g in cands:
            for seeds, applies in acc_folds(b, g):
                n += 1
                helper_fold.add(g.path)
                ok = bool(seeds) and all(seed_is_element(x) for x in seeds)
                ctx.check(R, ok, 'fold-seed', 'the fold over the values of one key must start from the first value, not from %s: a constant seed is not neutral for every merger (0 is absorbing for min)' % [fmt(x)[:40] for x in seeds], fn=g)
                ctx.check(R, applies, 'fold-applies-merger', 'each further value must be combined through the configured merger', fn=g)
    if n == 0:
        ctx.undecided(R, 'fold-seed', 'no fold over the per-key values found in the union batch (shape left the recognised family)', fn=un)
    # the merged value is what gets inserted
    vals = []
    iter_vals = []
    for p in explore(un, max_visits=1, havoc=True, limit=4000):
        if p.end == 'cut' and helper_fold == {un.path}:
            # loop form inside this function (possibly an inlined helper): over all paths with a merger configured the inserted value
            # is the accumulator, except where the value list was found empty
            ins = [c for c in path_calls(p) if isinstance(c[2], str) and c[2].endswith('Builder::<W>::insert')]
            mg = [d for d in p.cdecisions() if d[2][0] == 'discr' and any(y[0] == 'field' and y[2] == 'value_merger' for y in walk(d[2][1]))]
            if ins and mg and mg[-1][3] == 1:
                v = ins[0][3][2]
                empty = any(d[2][0] == 'discr' and d[3] == 0 and (is_call(d[2][1], '::split_first') or is_call(d[2][1], '::first') or is_call(d[2][1], '::next')) for d in p.cdecisions())
                vals.append((any(x[0] in ('havoc', 'phi') or is_call(x, 'Fn::call') for x in walk(v)) or seed_is_element(v), empty, v))
            continue
        if p.end == 'cut':
            ins = [c for c in path_calls(p) if isinstance(c[2], str) and c[2].endswith('Builder::<W>::insert')]
            mg = [d for d in p.cdecisions() if d[2][0] == 'discr' and d[2][1][0] == 'field' and d[2][1][2] == 'value_merger']
            if ins and not mg and any(x[0] == 'call' and x[1] in helper_fold for x in walk(ins[0][3][2])):
                v = ins[0][3][2]
                hc = [x for x in walk(v) if x[0] == 'call' and x[1] in helper_fold][0]
                ok = any(y[0] == 'field' and y[2] == 'value_merger' for a in hc[2] for y in walk(a))
                ctx.check(R, ok, 'inserted-is-merged', 'with a merger configured the value inserted for a key must be the fold of all its values: %s' % fmt(v)[:80], fn=un)
                break
            if ins and mg and mg[-1][3] == 1:
                v = ins[0][3][2]
                ok = any(is_call(x, '::fold') or is_call(x, '::reduce') for x in walk(v)) or any(x[0] == 'havoc' for x in walk(v)) and bool(helper_fold)
                empty = any(d[2][0] == 'discr' and d[3] == 0 and (is_call(d[2][1], '::split_first') or is_call(d[2][1], '::first') or is_call(d[2][1], '::next')) and
                            any(is_call(y, "Streamer<'a>>::next") for y in walk(d[2][1][2][0])) for d in p.cdecisions())
                iter_vals.append((ok, empty, v, [d for d in p.decisions][-1:] ))
    if iter_vals:
        bad = [(v, ds) for ok, empty, v, ds in iter_vals if not ok and not empty]
        ctx.check(R, any(ok for ok, _, _, _ in iter_vals) and not bad, 'inserted-is-merged',
                  'with a merger configured the value inserted for a key must be the fold of all its values on every path; found %s (under %s): a shortcut that bypasses the merger is wrong for mergers that are not idempotent (sum)' % (
                      fmt(bad[0][0])[:60] if bad else 'no fold', fmt(bad[0][1][0][2])[:60] if bad and bad[0][1] else '-'), fn=un)
    _finish_inserted(ctx, R, un, vals)


def _finish_inserted(ctx, R, un, vals):
    if vals:
        ok = any(a for a, e, v in vals) and all(a or e for a, e, v in vals)
        bad = [fmt(v)[:40] for a, e, v in vals if not (a or e)]
        ctx.check(R, ok, 'inserted-is-merged', 'with a merger configured the value inserted for a key must be the fold of all its values: %s' % bad, fn=un)


def r19_lossless(ctx):
    """every intermediate result of a round must go into some batch of the next: no lossy slicing of the work list"""
    R = 'R19.3'
    b = ctx.bin
    mg = b.fn(MERGE)
    if mg is None:
        return
    lossy = ('<impl [T]>::chunks_exact', '<impl [T]>::rchunks_exact', '<impl [T]>::array_chunks', 'Vec::<T, A>::truncate', 'Iterator::take', 'Iterator::skip', 'Iterator::step_by',
             'Vec::<T, A>::dedup', 'Vec::<T, A>::dedup_by', 'Vec::<T, A>::dedup_by_key')
    cg = CallGraph(b)
    fns = [mg] + [b.fns[q] for q in sorted(cg.reachable([mg.path])) if q in b.fns and q.startswith('merge::') and q != mg.path]
    bad = []
    for g in fns:
        for _, t in g.calls():
            c = g.callee(t) or ''
            if c.endswith(lossy):
                bad.append((g, t, c))
    for g, t, c in bad:
        ctx.violation(R, 'lossy:' + c.rsplit('::', 1)[-1], 'the merge pipeline slices its work list with %s, which drops items (a remainder, a prefix, every n-th): keys of whole batches disappear depending on --fd-limit / --batch-size' % c.rsplit('::', 1)[-1], fn=g, at=t.get('span'))
    ctx.check(R, not bad, 'lossless-batching', 'lossy slicing in the merge pipeline', fn=mg)


def r19_3(ctx):
    R = ctx.rule('R19.3', 'duplicate policy: equal keys are resolved only by the merger; no pair de-duplication; no builder error swallowed', floor=4)
    b = ctx.bin
    kv = b.fn(KV)
    if kv is None:
        ctx.missing(R, 'anchor:kvbatch', 'first-phase batch not found')
        return
    ded = [(f, t) for f in b.fn_list if f.path.startswith('merge::') or f.path.startswith('<merge::') for _, t in f.calls() if (f.callee(t) or '').rsplit('::', 1)[-1] in ('dedup', 'dedup_by', 'dedup_by_key')]

    def merging_dedup(f, t):
        # `kvs.dedup_by(|next, kept| { if same key { kept.1 = merger(kept.1, next.1) } same key })`: the in-place form of the merge loop -
        # the closure compares the KEYS (.0) and applies the configured merger to the values
        if (f.callee(t) or '').rsplit('::', 1)[-1] != 'dedup_by':
            return False
        kids = [g_ for g_ in b.fn_list if g_.kind == 'Closure' and g_.path.startswith(f.path + '::{closure')]
        for g_ in kids:
            cs = [(g_.callee(t2) or g_.callee_decl(t2) or '') for _, t2 in g_.calls()]
            applies = any(c.endswith(('Fn::call', 'FnMut::call_mut')) for c in cs)
            whole_rows = any('tuple::<impl' in c for c in cs)
            keys = any(c.rsplit('::', 1)[-1] in ('eq', 'ne') for c in cs) and any(True for bid, idx, pl, how in g_.places() if any(pr == '0' or (isinstance(pr, dict) and pr.get('name') == '0') for pr in pl['proj']))
            if applies and keys and not whole_rows and g_.local_ty(0) == 'bool':
                return True
        return False
    ded = [(f, t) for f, t in ded if not merging_dedup(f, t)]
    for f, t in ded:
        ctx.violation(R, 'dedup:' + f.path, 'identical (key, value) rows are collapsed before the merger sees them: two rows a,5 in one batch count once, in two batches twice - the result depends on the batch size', fn=f, at=t.get('span'))
    ctx.check(R, not ded, 'no-dedup', 'de-duplication in the merge pipeline')
    n = 0
    cg = CallGraph(b)
    cands = [kv] + [b.fns[q] for q in sorted(cg.reachable([kv.path])) if q in b.fns and q.startswith('merge::') and q != kv.path and '{closure' not in q]

    def merger_opt(g, e):
        """is e the optional merger: the batch's field or a helper parameter typed Option<&dyn Fn..>"""
        for x in walk(e):
            if x[0] == 'field' and x[2] == 'value_merger':
                return True
            if x[0] == 'param' and 'dyn' in g.local_ty(x[2]) and 'Fn' in g.local_ty(x[2]):
                return True
        return False
    for g in cands:
        if g is not kv:
            # the helper must be handed this batch's merger
            handed = False
            for p in explore(kv, max_visits=1, havoc=True, limit=400):
                for c in path_calls(p):
                    if c[2] == g.path and any(y[0] == 'field' and y[2] == 'value_merger' for a in c[3] for y in walk(a)):
                        handed = True
                if handed:
                    break
            if not handed:
                continue
        for p in explore(g, max_visits=1, havoc=True, limit=4000):
            if p.end != 'cut':
                continue
            eqd = [d for d in p.decisions if is_call(d[2], '::eq') and any(x[0] == 'call' and isinstance(x[1], str) and x[1].endswith('last_mut') for x in walk(d[2]))]
            if not eqd or eqd[-1][3] != 1:
                continue
            mg = [d for d in p.cdecisions() if d[2][0] == 'discr' and merger_opt(g, d[2][1])]
            pushes = [c for c in path_calls(p) if isinstance(c[2], str) and c[2].endswith('::push')]
            if mg and mg[-1][3] == 1:
                n += 1
                st = [(loc, s_, k, i) for (k, i, loc, s_) in p.stores() if loc[-1:] == ('1',)]
                ok = False
                if len(st) == 1:
                    v = p.sym.rvalue_at(st[0][1]['rv'], (st[0][2], st[0][3]))
                    ok = is_call(v, 'Fn::call') and any(x[0] == 'field' and x[2] == '1' and any(is_call(y, 'last_mut') for y in walk(x)) for x in walk(v)) and any(x[0] == 'field' and x[2] == '1' and any(is_call(y, '::next') for y in walk(x)) for x in walk(v))
                ctx.check(R, ok and not pushes, 'in-batch-merge', 'a key repeated within one batch must have its values combined by the merger (kept value := merger(kept value, new value)), exactly like keys repeated across batches', fn=g)
    if n == 0:
        # is the merger applied at all in the first phase?  (then the form of the repeated-key test is one the rule does not follow)
        applied = False
        for g in cands + [b.fns[q] for q in b.fns if '{closure' in q and any(q.startswith(c.path + '::') for c in cands)]:
            for _, t in g.calls():
                c = g.callee(t) or g.callee_decl(t) or ''
                if c.endswith('Fn::call') or c.endswith('FnMut::call_mut') or c.endswith('FnOnce::call_once'):
                    applied = True
        if applied:
            ctx.undecided(R, 'in-batch-merge', 'the first-phase batch applies the merger, but the repeated-key test is not in a recognised form', fn=kv)
            return
        ctx.violation(R, 'in-batch-merge', 'no path of the first-phase batch combines the values of a repeated key with the merger: in-batch repeats are resolved differently from cross-batch repeats', fn=kv)
    # builder errors propagate
    for f in (kv, b.fn(UN)):
        if f is None:
            continue
        for bid, t, local, ty in C11.result_locals_from_calls(f):
            callee = f.callee(t) or ''
            if 'Builder' in callee:
                v = {x for x, _ in C11.classify(ctx, f, local, bid)}
                if 'matched' in v:
                    nerr, bad = C11.match_check(f, bid)
                    v.discard('matched')
                    v.add('matched-bad' if (bad or nerr == 0) else 'ok')
                ctx.check(R, v == {'ok'}, 'propagates:%s@%s' % (callee.rsplit('::', 1)[-1], f.path), 'an error of %s is not propagated (%s): a key rejected by the builder silently disappears' % (callee, sorted(v)), fn=f, at=t.get('span'))


def r19_4(ctx):
    R = ctx.rule('R19.4', 'no shared mutable state: no mutable statics, no unsafe impl Send/Sync, sender dropped before draining', floor=3)
    b = ctx.bin
    bad = [s for s in b.statics if s['mutable'] or s['interior_mut']]
    ctx.check(R, not bad, 'statics', 'fst-bin has mutable / interior-mutable statics: %s' % [s['path'] for s in bad], detail='%d statics' % len(b.statics))
    ss = [i for i in b.impls if i.get('trait_path') in ('std::marker::Send', 'std::marker::Sync') and not i['from_expansion']]
    ctx.check(R, not ss, 'send-sync', 'fst-bin declares unsafe impl Send/Sync: %s' % [(i['self_ty'], i['trait_path']) for i in ss])
    f = b.fn('merge::Sorters::<B>::results')
    if f is None:
        ctx.missing(R, 'anchor:results', 'result collector not found')
        return
    ok = False
    for p in explore(f, max_visits=1, havoc=True):
        cs = path_calls(p)
        dr = [c for c in cs if isinstance(c[2], str) and c[2].endswith('mem::drop') and c[3][0][0] == 'field' and c[3][0][2] == 'send']
        it = [c for c in cs if isinstance(c[2], str) and c[2].endswith('IntoIterator>::into_iter') and c[3][0][0] == 'field' and c[3][0][2] == 'results']
        if dr and it:
            ok = dr[0][0] < it[0][0]
    ctx.check(R, ok, 'drop-before-drain', 'the collector must drop its sender before draining the result channel (otherwise the workers never finish)', fn=f)


def r19_5(ctx):
    """the concatenating input readers end only when the list of input files is exhausted"""
    R = ctx.rule('R19.5', 'input concatenation: the row iterator ends only when no input file is left (an exhausted or empty file is skipped)', floor=2)
    b = ctx.bin
    its = [f for f in b.fn_list if f.impl and f.impl.get('trait_path') == 'std::iter::Iterator' and f.path.endswith('::next') and 'util::Concat' in f.path and f.kind != 'Closure']
    if not its:
        ctx.missing(R, 'anchor:concat', 'concatenating input iterators not found')
        return
    def is_inputs(x):
        return (x[0] == 'field' and x[2] == 'inputs') or (x[0] in ('havoc', 'phi') and isinstance(x[1], tuple) and 'inputs' in x[1])
    for f in its:
        n = 0
        for p in explore(f, max_visits=1, havoc=True, limit=2000):
            if p.end != 'return':
                continue
            rv = p.ret()
            if rv[0] == 'agg' and rv[1].endswith('Option::Some'):
                continue
            n += 1
            pops = [d for d in p.cdecisions() if d[2][0] == 'discr' and any(is_call(x, '::pop') or is_call(x, '::next') or is_call(x, '::is_empty') for x in walk(d[2])) and
                    any(is_inputs(x) for x in walk(d[2]))]
            if rv[0] == 'agg' and rv[1].endswith('Option::None'):
                exhausted = any(d[3] == 0 for d in pops if not any(is_call(x, '::is_empty') for x in walk(d[2]))) or any(d[3] == 1 for d in pops if any(is_call(x, '::is_empty') for x in walk(d[2])))
                ctx.check(R, exhausted, 'end:%s' % f.path, 'the iterator reports the end of the input on a path where the list of input files was not found empty: the rows of all later files are dropped', fn=f)
            elif is_call(rv, 'from_residual') and any(is_call(x, '::pop') and any(is_inputs(y) for y in walk(x)) for x in walk(rv)):
                ctx.check(R, True, 'end:%s' % f.path, '', fn=f)         # `self.inputs.pop()?`
            elif any((is_call(x, 'read_row') or is_call(x, 'Iterator::next') or is_call(x, '::next') or is_call(x, 'and_then')) for x in walk(rv)) and not any(is_inputs(x) for x in walk(rv)):
                ctx.violation(R, 'end:%s' % f.path, 'the iterator returns what the CURRENT file yields (%s) without looking at the remaining files: an empty file in the middle ends the whole input and every later file is silently dropped' % fmt(rv)[:60], fn=f)
            else:
                ctx.undecided(R, 'end:%s' % f.path, 'a returning path of the concatenating iterator is not in a recognised form: %s' % fmt(rv)[:60], fn=f)
        if n == 0:
            ctx.undecided(R, 'end:%s' % f.path, 'no ending path found', fn=f)
        # a row the current file yielded is handed out: an iteration that got one and goes round again (skipping "blank" or otherwise
        # unwanted rows) drops input - the empty line IS the empty key
        for p in explore(f, max_visits=1, havoc=True, limit=2000):
            if p.end != 'cut':
                continue
            def draws(x):
                if is_call(x, '::next') or is_call(x, 'read_row') or is_call(x, '::read_record') or is_call(x, '::read_byte_record'):
                    return True
                if x[0] == 'closure' and x[1] in b.fns:
                    return any((b.fns[x[1]].callee(t_) or '').rsplit('::', 1)[-1] in ('next', 'read_row', 'read_record', 'read_byte_record') for _, t_ in b.fns[x[1]].calls())
                return False
            got = [d for d in p.cdecisions() if d[2][0] == 'discr' and d[3] == 1 and d[2][1][0] == 'call' and any(draws(x) for x in walk(d[2][1]))
                   and not any(is_inputs(x) or is_call(x, 'get_buf_reader') or is_call(x, '::pop') for x in walk(d[2]))]
            if got:
                ctx.violation(R, 'row-dropped:%s' % f.path, 'the iterator draws a row from the current file and goes on to the next one without handing it out (%s): rows of the input are silently skipped' % (
                    fmt(p.decisions[-1][2])[:80] if p.decisions else ''), fn=f)
                break


def r19_5b(ctx):
    """the CSV readers hand over keys as written: a reader configured to trim fields, to treat some lines as comments or to use another
    delimiter changes which keys (and how many rows) the build sees"""
    R = ctx.rule('R19.5', 'input concatenation: the row iterator ends only when no input file is left (an exhausted or empty file is skipped)', floor=2)
    b = ctx.bin
    ALTER = {'trim': 'fields are trimmed: keys that differ only in surrounding white space collapse into one',
             'comment': 'lines starting with the comment byte are dropped: keys starting with it disappear',
             'delimiter': 'another delimiter splits rows differently', 'quote': 'another quote character', 'quoting': 'quoting disabled / changed', 'escape': 'an escape character is interpreted inside keys',
             'terminator': 'another record terminator', 'ascii': 'ASCII separators', 'double_quote': 'doubled quotes handled differently'}
    n = 0
    for f in b.fn_list:
        if f.from_expansion:
            continue
        for _, t in f.calls():
            cal = f.callee(t) or ''
            if cal.startswith('csv::ReaderBuilder::'):
                m = cal.rsplit('::', 1)[-1]
                n += 1
                if m in ALTER:
                    ctx.violation(R, 'csv-config:%s@%s' % (m, f.path), 'the CSV reader of %s is configured with %s(): %s - the keys of the result are no longer exactly the input keys' % (f.path.rsplit('::', 2)[-2] if '::' in f.path else f.path, m, ALTER[m]), fn=f, at=t.get('span'))
                elif m not in ('new', 'has_headers', 'from_reader', 'from_path', 'buffer_capacity', 'flexible'):
                    ctx.undecided(R, 'csv-config:%s@%s' % (m, f.path), 'the CSV reader is configured with %s(), which the rule does not know' % m, fn=f, at=t.get('span'))
                else:
                    ctx.ok(R, 'csv-config:%s@%s#%s' % (m, f.path, t.get('span')), None, f, t.get('span'))


def r19_6(ctx):
    """the worker pool has exactly `threads` workers: one is spawned per iteration of a loop over 0..threads.  With fewer (a loop from
    1) `--threads 1` has no worker at all and the rendezvous channel has no receiver: the unsorted build panics / hangs."""
    R = ctx.rule('R19.6', 'worker pool: one worker per iteration of 0..threads', floor=1)
    b = ctx.bin
    from rules import layout
    cands = [f for f in b.fn_list if f.path.startswith('merge::Sorters') and f.path.endswith('::new') and f.kind != 'Closure']
    if not cands:
        ctx.missing(R, 'anchor:sorters', 'worker pool constructor not found')
        return
    f = cands[0]
    spawn_loops = []
    for h, body in f.loops().items():
        if any((f.callee(t) or '').endswith('thread::spawn') for bid, t in f.calls() if bid in body):
            spawn_loops.append(h)
    if not spawn_loops:
        ctx.undecided(R, 'pool-size', 'no loop spawning workers found in the pool constructor', fn=f)
        return
    for h in spawn_loops:
        src = layout.iter_source(f, h)
        rng = [x for x in walk(src[2])] if src else []
        rg = [x for x in rng if x[0] == 'agg' and x[1].endswith('ops::Range')]
        inc = [x for x in rng if x[0] == 'agg' and x[1].endswith('ops::RangeInclusive')] or [x for x in rng if x[0] == 'call' and isinstance(x[1], str) and x[1].endswith('RangeInclusive::<Idx>::new')]
        if rg and src[0] == 'fwd':
            d = dict(rg[0][2])
            st, en = d.get('start'), d.get('end')
            tp = ('param', f.local_name(1), 1)
            if st is not None and st[0] == 'const' and en == tp:
                ctx.check(R, st[1] == 0, 'pool-size', 'the pool spawns a worker for each of %d..threads: with --threads %d there is no worker at all (the batches are sent into a channel nobody reads)' % (st[1], st[1]), fn=f)
                continue
        ctx.undecided(R, 'pool-size', 'the loop that spawns the workers is not a plain `for _ in 0..threads`', fn=f)


def r19_7(ctx):
    """conservation in the pipeline: every item a loop of the merge pipeline takes from its source (rows, batches, per-worker result
    lists, union entries) is handed on - to a push / insert / send / merger call or a store.  An iteration that takes an item and lets
    it fall on the floor loses keys without any error."""
    R = ctx.rule('R19.7', 'pipeline conservation: every item taken from a source inside the merge pipeline is handed on in the same iteration', floor=8)
    b = ctx.bin
    from rules import cli
    scope = [f for f in b.fn_list if not f.from_expansion and (f.path.startswith(('merge::', '<merge::')) or f.path.startswith(('cmd::map::Args::run', 'cmd::set::Args::run')))]
    n = 0
    for f in scope:
        ok, bad, k = cli.loop_items(f)
        n += k
        for h in sorted(bad):
            ctx.violation(R, 'dropped:%s' % f.path, 'an iteration of a pipeline loop takes an item from its source and hands it to nothing (no push / insert / send / merge of it on that path): the keys it carries vanish silently', fn=f, at=f.line_of(h))
        for h in sorted(ok - bad):
            ctx.ok(R, 'loop:%s@%s' % (f.path, h), None, fn=f)
    ctx.count('pipeline_iterations', n)


def r19_8(ctx):
    """the batcher hands over its last, partially filled batch when the input ends"""
    R = ctx.rule('R19.8', 'the last partial batch is sent when the input is exhausted', floor=1)
    b = ctx.bin
    cl = [f for f in b.fn_list if f.kind == 'Closure' and f.path.startswith('merge::batcher::')]
    if not cl:
        ctx.missing(R, 'anchor:batcher', 'batching thread not found')
        return
    f = cl[0]
    n = 0
    for p in explore(f, max_visits=1, havoc=True, limit=3000):
        if p.end != 'return':
            continue
        ends = [d for d in p.cdecisions() if d[2][0] == 'discr' and is_call(d[2][1], '::next') and d[3] == 0]
        if not ends:
            continue            # left through the error arm
        k_e = ends[-1][0]
        emp = [d for d in p.decisions if d[0] > k_e and any(is_call(x, '::is_empty') or is_call(x, '::len') for x in walk(d[2]))]
        sends = [c for c in path_calls(p, expand=False) if c[0] > k_e and isinstance(c[2], str) and c[2].endswith('::send')]
        n += 1
        if emp:
            e, o = emp[-1][2], emp[-1][3]
            neg = False
            while e[0] == 'un' and e[1] == 'Not':
                e, neg = e[2], not neg
            if is_call(e, '::is_empty'):
                nonempty = (bool(o) != neg) is False
                ctx.check(R, bool(sends) == nonempty, 'remainder', 'when the input ends the batcher %s its remaining batch on the path where that batch is %s: the last (partial) batch of every build is lost' % (
                    'sends' if sends else 'does not send', 'non-empty' if nonempty else 'empty'), fn=f)
            elif e[0] == 'bin' and e[1] in ('Eq', 'Ne', 'Lt', 'Le', 'Gt', 'Ge') and ((is_call(e[2], '::len') and e[3][0] == 'const') or (is_call(e[3], '::len') and e[2][0] == 'const')):
                import operator as _op
                ops = {'Eq': _op.eq, 'Ne': _op.ne, 'Lt': _op.lt, 'Le': _op.le, 'Gt': _op.gt, 'Ge': _op.ge}
                if is_call(e[2], '::len'):
                    pred = lambda n_: ops[e[1]](n_, e[3][1])
                else:
                    pred = lambda n_: ops[e[1]](e[2][1], n_)
                taken = {n_ for n_ in range(0, 6) if bool(pred(n_)) == (bool(o) != neg)}
                want = set(range(1, 6)) if sends else {0}
                ctx.check(R, taken == want, 'remainder', 'when the input ends the batcher %s its remaining batch for lengths %s (it must send exactly the non-empty ones): a last batch of a size the test excludes is lost' % (
                    'sends' if sends else 'drops', sorted(taken)), fn=f)
            else:
                ctx.undecided(R, 'remainder', 'the test guarding the final send is not `is_empty()`', fn=f)
        else:
            ctx.check(R, bool(sends), 'remainder', 'when the input ends the batcher does not send the batch it has been filling', fn=f)
    if n == 0:
        ctx.undecided(R, 'remainder', 'no path on which the input ends was recognised', fn=f)


def _stores_of(f, p):
    out = []
    for (k, i, loc, st) in p.stores():
        out.append((k, loc, p.sym.rvalue_at(st['rv'], (k, i))))
    return out


def r19_9(ctx):
    """wiring of the merge pipeline (fst-bin has no tests of its own, so each of these is visible only here): the chosen merger reaches
    both phases, batches are sorted and their builders finished, full batches and worker results are sent, the last FST becomes the
    output, and --max / --min select max / min"""
    R = ctx.rule('R19.9', 'pipeline wiring: merger stored and handed to both phases; batches sorted, builders finished; batches / results sent; final result copied to the output; --max/--min select max/min', floor=12)
    b = ctx.bin
    # (a) the setter stores its argument
    f = b.fn('merge::Merger::<I>::value_merger')
    if f is None:
        ctx.missing(R, 'anchor:value_merger', 'merger setter not found')
    else:
        ok = False
        for p in explore(f, max_visits=1, havoc=True):
            if p.end == 'return':
                ok = any(loc[:2] == (1, 'value_merger') and v[0] == 'agg' and v[1].endswith('Option::Some') and any(x == ('param', f.local_name(2), 2) for x in walk(v)) for k, loc, v in _stores_of(f, p)) or \
                    any(x[0] == 'agg' and dict(x[2]).get('value_merger', ('?',))[0] == 'agg' and any(y == ('param', f.local_name(2), 2) for y in walk(dict(x[2])['value_merger'])) for x in walk(p.ret()) if x[0] == 'agg' and x[1].startswith('merge::Merger'))
        ctx.check(R, ok, 'setter:value_merger', 'Merger::value_merger must store the given function as the merger (Some(f)): otherwise equal keys are resolved by whichever batch comes last', fn=f)
    # (b) both phases get self.value_merger; items of the batchers become the batches' contents
    mg = b.fn(MERGE)
    if mg is None:
        ctx.missing(R, 'anchor:merge', 'merge routine not found')
    else:
        seen = {}
        finals = []
        for p in explore(mg, max_visits=1, havoc=True, limit=4000):
            for (k, bid, callee, args, t) in path_calls(p, expand=False):
                if isinstance(callee, str) and callee.endswith('::create_fst') and len(args) == 2 and args[1][0] == 'agg':
                    fd = dict(args[1][2])
                    kind = args[1][1].rsplit('::', 1)[-1]
                    vm = fd.get('value_merger')
                    okm = vm is not None and any((x[0] == 'field' and x[2] == 'value_merger') or (x[0] in ('havoc', 'phi') and isinstance(x[1], tuple) and 'value_merger' in x[1]) for x in walk(vm))
                    payload = fd.get('kvs') or fd.get('fsts')
                    okp = payload is not None and any(is_call(x, '::next') for x in walk(payload))
                    seen[kind] = (okm, okp)
            if p.end == 'return' and ret_kind(p.ret()) == 'ok':
                cs = path_calls(p, expand=False)
                copies = [c for c in cs if isinstance(c[2], str) and (c[2].endswith('fs::copy') or c[2].endswith('fs::rename'))]
                creates = [c for c in cs if isinstance(c[2], str) and c[2].endswith('fs::File::create')]
                fin = [c for c in cs if isinstance(c[2], str) and c[2].endswith('::finish')]

                def out_arg(c, i):
                    return any((x[0] == 'field' and x[2] == 'output') or (x[0] in ('havoc', 'phi') and isinstance(x[1], tuple) and 'output' in x[1]) for x in walk(c[3][i]))
                finals.append(any(len(c[3]) == 2 and out_arg(c, 1) and any(is_call(x, '::pop') or is_call(x, '::remove') or is_call(x, '::into_iter') or x[0] == 'index' for x in walk(c[3][0])) for c in copies) or
                              (any(out_arg(c, 0) for c in creates) and bool(fin)))
        for kind in ('KvBatch', 'UnionBatch'):
            if kind in seen:
                ctx.check(R, seen[kind][0], 'merger-reaches:' + kind, 'the %s phase is not given the merger the user selected (self.value_merger): equal keys are resolved differently in the two phases' % kind, fn=mg)
                ctx.check(R, seen[kind][1], 'payload:' + kind, 'the %s is not filled with the batch the batcher just produced' % kind, fn=mg)
            else:
                ctx.undecided(R, 'merger-reaches:' + kind, 'construction of %s in the merge routine not recognised' % kind, fn=mg)
        if finals:
            ctx.check(R, all(finals), 'final-output', 'a successful return of merge() neither copies the last remaining FST to the requested output nor writes an empty FST there: the command succeeds without producing its result', fn=mg)
        else:
            ctx.undecided(R, 'final-output', 'no successful path of merge() recognised', fn=mg)
    # (c) first-phase batches are sorted before insertion; every temp builder is finished on success
    for name, need_sort in ((KV, True), (UN, False)):
        g = b.fn(name)
        if g is None:
            continue
        for p in explore(g, max_visits=1, havoc=True, limit=2000):
            if p.end != 'return' or ret_kind(p.ret()) != 'ok':
                continue
            cs = path_calls(p)
            fin = [c for c in cs if isinstance(c[2], str) and (c[2].endswith('Builder::<W>::finish') or c[2].endswith('Builder::<W>::into_inner'))]
            ctx.check(R, bool(fin), 'finished:' + name, 'a batch FST is reported as written on a path that never finishes its builder: the file has no footer and cannot be opened by the next phase', fn=g)
            if need_sort:
                srt = [c for c in cs if isinstance(c[2], str) and c[2].rsplit('::', 1)[-1] in ('sort', 'sort_unstable', 'sort_by', 'sort_unstable_by', 'sort_by_key')]
                ins = [c for c in cs if isinstance(c[2], str) and c[2].endswith('Builder::<W>::insert')]
                okp = bool(srt) and (not ins or srt[0][0] < ins[0][0])
                if not okp:
                    # a path that skips the sort: acceptable only behind a STRICT "already in order" test (a non-strict one lets
                    # repeated keys through unmerged)
                    tests = [c for c in path_calls(p, expand=False) if isinstance(c[2], str) and c[2].rsplit('::', 1)[-1] in ('all', 'is_sorted', 'is_sorted_by', 'is_sorted_by_key', 'any')]
                    ops = set()
                    for c in tests:
                        for x in walk(('tuple', tuple(c[3]))):
                            if x[0] == 'closure' and x[1] in b.fns:
                                for q in explore(b.fns[x[1]], max_visits=1):
                                    if q.end == 'return':
                                        for y in walk(q.ret()):
                                            if y[0] == 'call' and isinstance(y[1], str) and y[1].rsplit('::', 1)[-1] in ('lt', 'le', 'gt', 'ge'):
                                                ops.add(y[1].rsplit('::', 1)[-1])
                                            if y[0] == 'bin' and y[1] in ('Lt', 'Le', 'Gt', 'Ge'):
                                                ops.add(y[1].lower())
                    if ops and ops <= {'lt', 'gt'}:
                        okp = True
                    elif ops:
                        ctx.violation(R, 'sorted:' + name, 'a batch skips sorting AND merging when its keys are in non-decreasing order (%s): a batch that repeats a key hands the duplicate to the builder (or resolves it differently from other batch sizes)' % sorted(ops), fn=g)
                        continue
                ctx.check(R, okp, 'sorted:' + name, 'the rows of a batch are inserted without having been sorted first: the build fails with OutOfOrder (or, for input that happens to be sorted per batch, depends on the batch size)', fn=g)
    # (c') a test over adjacent rows that decides whether a batch needs merging must look at the KEYS: two rows with the same key and
    # different values are a repeat, although they are not equal rows
    for name in (KV, UN):
        g = b.fn(name)
        if g is None:
            continue
        for cl in [h for h in b.fn_list if h.kind == 'Closure' and h.path.startswith(name + '::')]:
            rowcmp = [h_ for _, t in cl.calls() for h_ in [cl.callee(t) or ''] if 'tuple::<impl' in h_ and h_.rsplit('::', 1)[-1] in ('eq', 'ne', 'lt', 'le', 'gt', 'ge')]
            if not rowcmp:
                continue
            # only predicates (closures returning bool) are tests; comparators handed to a sort return Ordering
            if cl.local_ty(0) != 'bool':
                continue
            # a test whose one outcome only panics is an assertion about the rows, not a choice between two ways of building
            ends = {}
            for q in explore(g, max_visits=1, havoc=True, limit=3000):
                for d in q.decisions:
                    if any(x[0] == 'closure' and x[1] == cl.path for x in walk(d[2])) and d[3] in (0, 1):
                        ends.setdefault(d[3], set()).add(q.end)
            if ends and any(not (es & {'return', 'cut'}) for es in ends.values()):
                continue
            ctx.violation(R, 'repeat-test:' + name, 'a test over the rows of a batch compares whole (key, value) rows (%s): a key repeated with a different value is not recognised as a repeat and reaches the builder unmerged (DuplicateKey, or a result that depends on the batch size)' % rowcmp[0].rsplit('::', 1)[-1], fn=cl)
    # (d) what is collected is sent on
    for f in b.fn_list:
        if f.kind == 'Closure' and f.path.startswith('merge::Sorters') and '::new::' in f.path and f.path.count('{closure') == 1:
            oks = []
            for p in explore(f, max_visits=1, havoc=True, limit=500):
                if p.end == 'return':
                    oks.append(any(isinstance(c[2], str) and c[2].endswith('::send') for c in path_calls(p, expand=False)))
            ctx.check(R, bool(oks) and all(oks), 'worker-sends', 'a worker thread ends without sending the results it collected: the main thread sees no results and writes an EMPTY output', fn=f)
        if f.kind == 'Closure' and f.path.startswith('merge::batcher::'):
            bad = False
            n_full = 0
            for p in explore(f, max_visits=1, havoc=True, limit=3000):
                if p.end != 'cut':
                    continue
                full = [d for d in p.decisions if d[2][0] == 'bin' and d[2][1] in ('Ge', 'Gt', 'Lt', 'Le', 'Eq') and any(is_call(x, '::len') for x in walk(d[2]))]
                if not full:
                    continue
                # the iteration that replaces the batch by a fresh one must have sent the old one
                k_nx = max([c[0] for c in path_calls(p, expand=False) if isinstance(c[2], str) and c[2].endswith('::next')] or [-1])
                fresh = [c for c in path_calls(p, expand=False) if c[0] > k_nx and isinstance(c[2], str) and (c[2].endswith('::with_capacity') or c[2].endswith('Vec::<T>::new'))]
                snd = [c for c in path_calls(p, expand=False) if isinstance(c[2], str) and c[2].endswith('::send')]
                if fresh:
                    n_full += 1
                    if not snd:          # (before or after: `mem::replace(&mut batch, fresh)` moves the full batch out first)
                        bad = True
            if n_full:
                ctx.check(R, not bad, 'batch-sent', 'a full batch is replaced by a fresh one without having been sent: its rows are lost', fn=f)
    # a field handed to a local function goes to the parameter of the same name if there is one (`batcher(.., self.fd_limit, self.threads)`
    # against `fn batcher(it, threads, batch_size)` runs the union rounds with the thread count as batch size)
    for g in b.fn_list:
        if not g.path.startswith(('merge::', '<merge::')) or g.from_expansion:
            continue
        for bid, t in g.calls():
            cal = g.callee(t)
            h = b.fns.get(cal) if isinstance(cal, str) else None
            if h is None or not cal.startswith('merge::'):
                continue
            pnames = [h.local_name(i) for i in range(1, h.arg_count + 1)]
            for ai, a in enumerate(t['args']):
                l = arg_loc(g, t, ai)
                fld = None
                if l is not None and len(l) == 2 and l[0] == 1 and isinstance(l[1], str):
                    fld = l[1]
                else:
                    pl = a.get('copy') or a.get('move')
                    if pl is not None and not pl['proj']:
                        # a temporary holding `self.field` (possibly cast)
                        for dd in g.defs():
                            if dd.target == (pl['local'],) and dd.kind == 'assign':
                                st_ = g.blocks[dd.bid]['stmts'][dd.idx]
                                src = st_['rv'].get('use') or st_['rv'].get('a')
                                sp = (src or {}).get('copy') or (src or {}).get('move') if isinstance(src, dict) else None
                                if sp is not None:
                                    ll = g.loc(sp)
                                    if len(ll) == 2 and ll[0] == 1 and isinstance(ll[1], str):
                                        fld = ll[1]
                if fld is not None and fld in pnames and ai < len(pnames) and pnames[ai] != fld:
                    ctx.violation(R, 'swapped-args:%s->%s' % (g.path, cal), '`self.%s` is passed to %s as its parameter `%s`, although %s has a parameter named `%s`: two arguments of the same type are swapped' % (fld, cal.rsplit('::', 1)[-1], pnames[ai], cal.rsplit('::', 1)[-1], fld), fn=g, at=t.get('span'))
    sc = b.fn('merge::Sorters::<B>::create_fst')
    if sc is not None:
        from rules import cli
        ctx.check(R, not cli.params_handed_on(sc), 'dispatch', 'Sorters::create_fst does not hand the batch to a worker', fn=sc)
    # options are read under their own names (`min: m.is_present("max")` makes --min sum and --max win twice)
    from rules import cli as _cli
    for an in ('cmd::map::Args::new', 'cmd::set::Args::new'):
        af = b.fn(an)
        if af is not None:
            if _cli.flag_names(ctx, R, af) == 0:
                ctx.undecided(R, 'flag:' + an, 'argument parsing of the command not recognised', fn=af)
    # (e) --max / --min select max / min, the default is +
    ru = b.fn('cmd::map::Args::run_unsorted')
    if ru is not None:
        table = {}
        for p in explore(ru, max_visits=1, havoc=True, limit=4000):
            flags = {}
            for d in p.decisions:
                e = d[2]
                if e[0] == 'field' and e[2] in ('max', 'min') and d[3] in (0, 1):
                    flags[e[2]] = d[3]
            for (k, bid, callee, args, t) in path_calls(p):
                if isinstance(callee, str) and callee.endswith('::value_merger') and callee.startswith('merge::'):
                    for a in args[1:]:
                        for fm in merger_forms(b, a):
                            table.setdefault((flags.get('max'), flags.get('min')), set()).add(fm)
        want = {(1, None): {'max'}, (1, 0): {'max'}, (1, 1): {'max'}, (0, 1): {'min'}, (0, 0): {'+'}}
        if table:
            wrong = {k: v for k, v in table.items() if k in want and v != want[k]}
            ctx.check(R, not wrong, 'flag-wiring', '--max must select max, --min min, neither the sum: %s' % {str(k): sorted(v) for k, v in wrong.items()}, fn=ru)
        else:
            ctx.undecided(R, 'flag-wiring', 'merger selection in the map command not recognised', fn=ru)


def run(ctx):
    if ctx.bin is None:
        ctx.missing('R19.1', 'anchor:bin', 'fst-bin facts missing')
        return
    ctx.step(r19_1, ctx)
    ctx.step(r19_2, ctx)
    ctx.step(r19_3, ctx)
    ctx.step(r19_lossless, ctx)
    ctx.step(r19_4, ctx)
    ctx.step(r19_5, ctx)
    ctx.step(r19_5b, ctx)
    ctx.step(r19_6, ctx)
    ctx.step(r19_7, ctx)
    ctx.step(r19_8, ctx)
    ctx.step(r19_9, ctx)
