"""C08 — checksums certify the bytes (structural part)."""
import json, os, struct, sys
from absint import Prover, Linearizer
from lin import Lin, entails_eq
from paths import explore
import stdalg
from sym import fmt, walk
from rules.common import adt_base, Anchors, path_calls, ret_kind, arg_locs, arg_loc
from rules.C07 import slice_parts
from rules.streams import norm, is_call
import rules.C07 as C07

LEVEL = 'other'
NEED_FIXTURE = True
ROLES = ['lib']
EXPLANATION = ('Decides: R08.1 the 17 x 256 lookup tables compiled into the library equal the CRC-32C tables generated independently '
               '(bitwise, reflected polynomial 0x82F63B78) - read back as compile-time constants; R08.2 the masking is rotate-right 15 '
               'plus 0xA282EAD8 (bit provenance of the reconstructed expression); R08.3 the 16-byte fast path pairs table k with byte '
               '15-k (k < 12) and with byte k-12 of (crc XOR first word) (k >= 12), advances by 16 under the guard len >= 16, the tail '
               'step is TABLE[(crc ^ b) & 0xFF] ^ (crc >> 8), with pre- and post-inversion; R08.4 the checksum is read after both footer '
               'words went through the counting writer and that very value is the trailing word; verify() hashes exactly [0, len-4) from '
               'the empty state and succeeds only when it equals the stored word; R07.1 (shared) the rolling checksum covers exactly the '
               'bytes the sink accepted. "One altered byte is never certified" then follows from the burst-error property of a degree-32 '
               'CRC composed with a bijective mask - cited mathematics, not re-derived.')
TRUSTED = ['burst-error detection theorem for CRC-32C; slicing-by-16 identity for tables built as T[k][i] = (T[k-1][i] >> 8) ^ T[0][T[k-1][i] & 0xFF]']
ASSUMPTIONS = ['a rewrite of the CRC loop outside the table-driven family is reported as undecided (stated limit)']

sys.path.insert(0, os.path.join(os.path.dirname(os.path.abspath(__file__)), '..', '..', '..', 'spec'))
import crc32c as SPEC  # noqa: E402

SLICE16 = 'raw::crc32::crc32c_slice16'


def r08_1(ctx):
    R = ctx.rule('R08.1', 'TABLE and TABLE16 equal the independently generated CRC-32C tables', floor=17)
    lib = ctx.lib
    tb = lib.const_bytes('raw::crc32_table::TABLE')
    t16 = lib.const_bytes('raw::crc32_table::TABLE16')
    if tb is None or t16 is None or len(tb) != 1024 or len(t16) != 16 * 1024:
        ctx.missing(R, 'anchor:tables', 'CRC tables not found as compile-time constants (TABLE %s bytes, TABLE16 %s bytes)' % (len(tb) if tb else None, len(t16) if t16 else None))
        return
    want = SPEC.table()
    got = list(struct.unpack('<256I', tb))
    bad = [i for i in range(256) if got[i] != want[i]]
    ctx.check(R, not bad, 'TABLE', 'TABLE differs from the CRC-32C table at %d entries (first: [%s] = %#x, expected %#x): another polynomial or generator' % (
        len(bad), bad[0] if bad else '-', got[bad[0]] if bad else 0, want[bad[0]] if bad else 0), detail='TABLE[1] = %#x' % got[1])
    w16 = SPEC.table16()
    for k in range(16):
        g = list(struct.unpack('<256I', t16[k * 1024:(k + 1) * 1024]))
        bad = [i for i in range(256) if g[i] != w16[k][i]]
        ctx.check(R, not bad, 'TABLE16[%d]' % k, 'TABLE16[%d] differs from the slicing table at %d entries' % (k, len(bad)))


def bits_of(e, src):
    """bit provenance of a u32 expression: list of 32 entries, each ('s', i) (bit i of src), 0, 1 or None"""
    if e == src:
        return [('s', i) for i in range(32)]
    if e[0] == 'const':
        return [(e[1] >> i) & 1 for i in range(32)]
    if e[0] == 'cast':
        return bits_of(e[1], src)
    if e[0] == 'call' and isinstance(e[1], str):
        m = e[1].rsplit('::', 1)[-1]
        if m in ('wrapping_shr', 'wrapping_shl', 'rotate_right', 'rotate_left') and e[2][1][0] == 'const':
            a = bits_of(e[2][0], src)
            n = e[2][1][1] % 32
            if a is None:
                return None
            if m == 'wrapping_shr':
                return [a[i + n] if i + n < 32 else 0 for i in range(32)]
            if m == 'wrapping_shl':
                return [a[i - n] if i - n >= 0 else 0 for i in range(32)]
            if m == 'rotate_right':
                return [a[(i + n) % 32] for i in range(32)]
            return [a[(i - n) % 32] for i in range(32)]
        return None
    if e[0] == 'bin' and e[1] in ('Shr', 'Shl') and e[3][0] == 'const':
        a = bits_of(e[2], src)
        n = e[3][1]
        if a is None or n >= 32:
            return None
        return [a[i + n] if i + n < 32 else 0 for i in range(32)] if e[1] == 'Shr' else [a[i - n] if i - n >= 0 else 0 for i in range(32)]
    if e[0] == 'bin' and e[1] in ('BitOr', 'BitXor'):
        a, b = bits_of(e[2], src), bits_of(e[3], src)
        if a is None or b is None:
            return None
        out = []
        for x, y in zip(a, b):
            if x == 0:
                out.append(y)
            elif y == 0:
                out.append(x)
            else:
                out.append(None)
        return out
    return None


def r08_2(ctx, A):
    R = ctx.rule('R08.2', 'masking = rotate-right(sum, 15) wrapping-plus 0xA282EAD8', floor=1)
    lib = ctx.lib
    fs = [f for f in lib.fn_list if f.impl and f.impl['self_ty'] == A.summer and f.local_ty(0) == 'u32' and f.arg_count == 1 and f.kind == 'AssocFn']
    if len(fs) != 1:
        ctx.missing(R, 'anchor:masked', 'the function reading the rolling sum into a u32 was not found (%d candidates)' % len(fs))
        return None
    f = fs[0]
    for p in explore(f, max_visits=1):
        if p.end != 'return':
            continue
        rv = p.ret()
        ok = False
        why = fmt(rv)[:160]
        add = None
        if is_call(rv, 'wrapping_add'):
            add = (rv[2][0], rv[2][1])
        elif rv[0] == 'bin' and rv[1] in ('Add', 'AddUnchecked'):
            add = (rv[2], rv[3])
        if add:
            x, k = add if add[1][0] == 'const' else (add[1], add[0])
            src = None
            for y in walk(x):
                if y[0] == 'field' and y[1][0] == 'param':
                    src = y
            b = bits_of(x, src) if src is not None else None
            ok = k == ('const', 0xA282EAD8) and b is not None and b == [('s', (i + 15) % 32) for i in range(32)]
            why = 'constant %s, bit map %s' % (fmt(k), 'rotr15' if ok else (b[:4] if b else None))
        ctx.check(R, ok, 'mask', 'the stored checksum is not the Snappy-style mask of the CRC: %s' % why, fn=f, detail=fmt(rv)[:160])
    return f


def xor_terms(e):
    if e[0] == 'bin' and e[1] == 'BitXor':
        return xor_terms(e[2]) + xor_terms(e[3])
    return [e]


def unmask(e):
    """(x, True) for `x & 0xFF` (either operand order, through casts), else (e, False)"""
    y = e
    while y[0] == 'cast':
        y = y[1]
    if y[0] == 'bin' and y[1] == 'BitAnd':
        for a, b in ((y[2], y[3]), (y[3], y[2])):
            if b == ('const', 0xFF):
                while a[0] == 'cast':
                    a = a[1]
                return a, True
    return e, False


def strip_cast(e):
    while e[0] == 'cast':
        e = e[1]
    return e


def le_byte(e):
    """`x.to_le_bytes()[j]` (array pattern `let [c0, c1, c2, c3] = x.to_le_bytes()` included) read as `(x >> 8j) as u8`"""
    inner = e
    casts = []
    while inner[0] == 'cast':
        casts.append(inner)
        inner = inner[1]
    if inner[0] in ('index', 'field') and is_call(inner[1], '::to_le_bytes') and inner[1][2]:
        j = inner[2]
        if isinstance(j, tuple) and j[0] == 'const':
            j = j[1]
        elif isinstance(j, str) and j.strip('[]').isdigit():
            j = int(j.strip('[]'))
        else:
            return e
        x = inner[1][2][0]
        sh = x if j == 0 else ('bin', 'Shr', x, ('const', 8 * j))
        out = ('cast', sh, 'u8', 'IntToInt', 'u32')
        for c in reversed(casts):
            out = ('cast', out) + tuple(c[2:])
        return out
    return e


def r08_3(ctx):
    R = ctx.rule('R08.3', 'slice-by-16 lane pairing, 16-byte advance under len >= 16, table-driven tail step, pre/post inversion', floor=20)
    lib = ctx.lib
    f = lib.fn(SLICE16)
    if f is None:
        # by role: the function indexing TABLE16
        cands = [g for g in lib.fn_list if any('crc32_table::TABLE16' in str(st['rv']) for b in g.normal_blocks() for st in b['stmts'] if st['k'] == 'assign')]
        if len(cands) != 1:
            ctx.missing(R, 'anchor:crc-loop', 'function indexing TABLE16 not found')
            return None
        f = cands[0]
    crc_l = [l for l in f.locals if f.local_ty(l) == 'u32' and f.locals[l].get('name') and l > f.arg_count]
    if len(crc_l) > 1:
        # the running crc is the one carried around the loops AND initialised before them (locals of an inlined block helper
        # live inside one iteration only)
        bodies = set().union(*f.loops().values()) if f.loops() else set()
        carried = {T[0] for h, ts in f.loop_havoc().items() for T, _ in ts if len(T) == 1}
        outside = {d.target[0] for d in f.defs() if d.kind in ('assign', 'call') and len(d.target) == 1 and d.bid not in bodies}
        crc_l = [l for l in crc_l if l in carried and l in outside]
    buf_l = [l for l in range(1, f.arg_count + 1) if f.local_ty(l).endswith('[u8]')]
    if len(crc_l) != 1 or len(buf_l) != 1:
        ctx.undecided(R, 'locals', 'cannot identify the running crc / buffer variables (%s / %s)' % (crc_l, buf_l), fn=f)
        return f
    C, B = crc_l[0], buf_l[0]

    # `for block in buf.chunks_exact(16)` (with `.remainder()` for the tail): every block is 16 consecutive bytes of the buffer
    chunk_calls = [t for _, t in f.calls() if (f.callee(t) or '').endswith('<impl [T]>::chunks_exact')]
    chunked = False
    if len(chunk_calls) == 1:
        from sym import Sym as _Sym
        sy_ = _Sym(f)
        bidc = next(b for b, t in f.calls() if t is chunk_calls[0])
        cargs = sy_.call_expr(bidc)[2]
        chunked = len(cargs) == 2 and cargs[1] == ('const', 16) and any(x == ('param', f.local_name(B), B) for x in walk(cargs[0]))

    def is_block(e):
        return chunked and e[0] == 'field' and e[2] == '0' and e[1][0] == 'variant' and e[1][2] == 'Some' and is_call(e[1][1], '::next')

    def head(l):
        def h(e):
            if e[0] == 'havoc' and e[1] == (l,):
                return True
            if l == B and is_block(e):
                return True
            # the first 16 bytes of the remaining buffer handed to a block helper: rest.split_at(16).0, &rest[..16], &rest[0..16]
            if l == B and e[0] == 'field' and e[2] == '0' and is_call(e[1], '::split_at') and h(e[1][2][0]) and e[1][2][1] == ('const', 16):
                return True
            if l == B and is_call(e, 'Index<I> for [T]>::index') and h(e[2][0]) and e[2][1][0] == 'agg':
                fd = dict(e[2][1][2])
                if e[2][1][1].endswith('RangeTo') and fd.get('end') == ('const', 16):
                    return True
                if e[2][1][1].endswith('ops::Range') and fd.get('start') == ('const', 0) and fd.get('end') == ('const', 16):
                    return True
            return False
        return h
    from absint import Prover
    pvi = Prover(lib)
    # the buffer cursor: the slice parameter itself or the local that walks over it
    bl = [l for l in f.locals if l > f.arg_count and f.local_ty(l).endswith('[u8]') and f.locals[l].get('name') and any((l,) == T for h_, ts in f.loop_havoc().items() for T, _ in ts)]
    if not any((B,) == T for h_, ts in f.loop_havoc().items() for T, _ in ts) and bl:
        # the one whose remaining length guards the 16-byte loop
        guards = set()
        for p in explore(f, max_visits=1, havoc=True, limit=200):
            for d in p.decisions:
                if d[2][0] == 'bin' and d[2][3] in (('const', 16), ('const', 15)):
                    for x in walk(d[2][2]):
                        if x[0] == 'havoc' and len(x[1]) == 1 and x[1][0] in bl:
                            guards.add(x[1][0])
        if len(guards) == 1:
            B = list(guards)[0]

    def once(x):
        """substitute a local single-path block helper (crc, chunk) -> crc' by its body"""
        if x[0] == 'call' and isinstance(x[1], str) and x[1] in lib.fns and lib.fns[x[1]].local_ty(0) == 'u32':
            t = pvi.inline_template(x[1])
            if t is not None:
                from sym import subst, simplify_proj
                return simplify_proj(subst(t, {i + 1: a for i, a in enumerate(x[2])}))
        return x
    seen_fast = seen_tail = False
    for p in explore(f, max_visits=1, havoc=True, limit=200):
        if p.end == 'cut':
            endpos = (len(p.blocks) - 2, 'T')
            vc = once(p.sym.loc_value_at((C,), endpos))
            vb = p.sym.loc_value_at((B,), endpos)
            terms = xor_terms(vc)
            terms = [(t[0], t[1], le_byte(t[2])) if t[0] == 'index' and isinstance(t[2], tuple) else t for t in terms]
            t16 = [t for t in terms if t[0] == 'index' and t[1][0] == 'index' and t[1][1] == ('citem', 'raw::crc32_table::TABLE16')]
            if t16:
                seen_fast = True
                guard = [d for d in p.decisions if d[2][0] == 'bin' and d[2][1] in ('Ge', 'Lt', 'Gt', 'Le') and any(x[0] == 'call' and x[1].endswith('::len') for x in walk(d[2]))]
                okg = any((d[2][1] == 'Ge' and d[2][3] == ('const', 16) and d[3] == 1) or (d[2][1] == 'Lt' and d[2][3] == ('const', 16) and d[3] == 0) or (d[2][1] == 'Gt' and d[2][3] == ('const', 15) and d[3] == 1) for d in guard)
                ctx.check(R, okg or chunked, 'fast-guard', 'the 16-byte step must run only while at least 16 bytes remain', fn=f)
                hb = lambda e: e[0] == 'havoc' and e[1] == (B,)
                okadv = (is_call(vb, 'Index<I> for [T]>::index') and hb(vb[2][0]) and vb[2][1][0] == 'agg' and vb[2][1][1].endswith('RangeFrom') and dict(vb[2][1][2]).get('start') == ('const', 16)) \
                    or (vb[0] == 'field' and vb[2] == '1' and is_call(vb[1], '::split_at') and hb(vb[1][2][0]) and vb[1][2][1] == ('const', 16))
                ctx.check(R, okadv or chunked, 'fast-advance', 'the 16-byte step must advance the buffer by exactly 16 bytes: %s' % fmt(vb)[:100], fn=f)
                lanes = {}
                for t in t16:
                    k = t[1][2]
                    lanes.setdefault(k[1] if k[0] == 'const' else None, []).append(strip_cast(t[2]))
                ctx.check(R, sorted(k for k in lanes if k is not None) == list(range(16)) and None not in lanes and len(terms) == 16 and all(len(v) == 1 for v in lanes.values()), 'fast-lanes', 'the fast path must XOR exactly one look-up from each of the 16 tables (found lanes %s, %d terms)' % (sorted(lanes, key=str), len(terms)), fn=f)
                for k in range(16):
                    idx = lanes.get(k, [None])[0]
                    if idx is None:
                        continue
                    if k < 12:
                        ok = idx[0] == 'index' and head(B)(idx[1]) and idx[2] == ('const', 15 - k)
                        want = 'buf[%d]' % (15 - k)
                    else:
                        sh = 8 * (15 - k)
                        x = unmask(idx)[0]
                        if sh:
                            ok = x[0] == 'bin' and x[1] == 'Shr' and x[3] == ('const', sh)
                            x = x[2] if ok else x
                        else:
                            ok = True
                        x = unmask(x)[0]
                        # x must be head(crc) ^ read_u32_le(head(buf))
                        xt = xor_terms(x)
                        ok = ok and len(xt) == 2 and any(head(C)(y) for y in xt) and any(is_call(y, 'read_u32_le') and head(B)(y[2][0]) for y in xt)
                        # the u8 truncation selects one byte
                        full = lanes[k][0]
                        want = 'byte %d of (crc ^ first word)' % (k - 12 if False else 3 - (k - 12))
                    ctx.check(R, ok, 'lane-%d' % k, 'table %d must be indexed by %s, found %s' % (k, want, fmt(idx)[:80]), fn=f)
                # the index is truncated to u8 for the crc lanes
                for t in t16:
                    k = t[1][2][1] if t[1][2][0] == 'const' else None
                    if k is not None and k >= 12:
                        casts = []
                        x = t[2]
                        while x[0] == 'cast':
                            casts.append(x[2])
                            x = x[1]
                        x, masked = unmask(x)
                        while x[0] == 'cast':
                            casts.append(x[2])
                            x = x[1]
                        top = x[0] == 'bin' and x[1] == 'Shr' and x[3] == ('const', 24)       # a u32 shifted right by 24 is already one byte
                        ctx.check(R, 'u8' in casts or masked or top, 'lane-%d-byte' % k, 'the crc lane %d index is not truncated to one byte' % k, fn=f)
            else:
                tt = [t for t in terms if t[0] == 'index' and t[1] == ('citem', 'raw::crc32_table::TABLE')]
                if tt:
                    seen_tail = True
                    idx = strip_cast(tt[0][2])
                    xt = xor_terms(idx)
                    crc_t = lambda y: strip_cast(unmask(y)[0])[0] == 'havoc' and strip_cast(unmask(y)[0])[1] == (C,)
                    ok_idx = len(xt) == 2 and any(crc_t(y) for y in xt) and any(is_item(y) and not crc_t(y) for y in xt)
                    # low byte of crc: `crc as u8`, `(crc ^ b) & 0xFF`, or `(crc & 0xFF) ^ b` with b a zero-extended byte
                    ok_low = any(y[0] == 'cast' and y[2] == 'u8' for y in xt) or idx[0] == 'bin' and idx[1] == 'BitAnd' or any(crc_t(y) and unmask(y)[1] for y in xt)
                    other = [t for t in terms if t is not tt[0]]
                    ok_sh = len(other) == 1 and other[0][0] == 'bin' and other[0][1] == 'Shr' and head(C)(other[0][2]) and other[0][3] == ('const', 8)
                    ctx.check(R, ok_idx and ok_low and ok_sh, 'tail-step', 'the byte-wise step must be TABLE[(crc ^ b) & 0xFF] ^ (crc >> 8): %s' % fmt(vc)[:140], fn=f)
        elif p.end == 'return':
            rv = p.ret()
            ok = rv[0] == 'un' and rv[1] == 'Not' and (head(C)(rv[2]))
            if not ok and rv[0] == 'un' and rv[1] == 'Not' and is_call(rv[2], '::fold') and len(rv[2][2]) == 3 and head(C)(rv[2][2][1]):
                # `!buf.iter().fold(crc, |crc, &b| ..)`: the tail loop as a fold seeded with the running crc; its step is not followed
                ok = True
                seen_tail = True
                ctx.undecided(R, 'tail-step', 'the byte-wise tail is a fold whose step the rule does not follow', fn=f)
            ctx.check(R, ok, 'post-inversion', 'the result must be the complement of the running crc: %s' % fmt(rv)[:60], fn=f)
    # pre-inversion
    init = None
    for bid, b in f.blocks.items():
        if b['cleanup']:
            continue
        for i, st in enumerate(b['stmts']):
            if st['k'] == 'assign' and not st['place']['proj'] and st['place']['local'] == C and init is None and not f.loops().get(bid) and not any(bid in body for body in f.loops().values()):
                from sym import Sym
                init = Sym(f).rvalue(st['rv'], bid, i)
    ctx.check(R, init is not None and init[0] == 'un' and init[1] == 'Not' and init[2][0] == 'param' and init[2][2] == 1, 'pre-inversion', 'the running crc must start as the complement of the previous sum: %s' % fmt(init)[:60], fn=f)
    # every slice-by-16 table look-up of the function belongs to the one step verified above: more look-ups than its 16 lanes mean
    # further table-driven steps (an 8- or 4-byte step for the remainder) that this rule has not checked
    n_t16 = 0
    for bid_, b_ in f.blocks.items():
        if b_['cleanup']:
            continue
        for st_ in b_['stmts']:
            if st_['k'] == 'assign' and 'TABLE16' in json.dumps(st_['rv']):
                n_t16 += 1
    if seen_fast and n_t16 > 16:
        ctx.undecided(R, 'extra-table-steps', 'the CRC routine reads the slice-by-16 tables in %d places, the verified 16-byte step accounts for 16: the other table-driven steps are not checked' % n_t16, fn=f)
    if not seen_fast:
        ctx.undecided(R, 'fast-path', 'no 16-byte table step recognised (the loop left the table-driven family)', fn=f)
    if not seen_tail:
        ctx.undecided(R, 'tail-path', 'no byte-wise table step recognised', fn=f)
    return f


def is_item(y):
    y = strip_cast(y)
    return (y[0] == 'field' and y[1][0] == 'variant') or y[0] == 'havoc' or y[0] == 'index'


def r08_4(ctx, A, pv, masked_fn, crc_fn):
    R = ctx.rule('R08.4', 'coverage: checksum read after the footer and written as the trailing word; verify hashes exactly [0, len-4) from the empty state and compares with the stored word', floor=7)
    lib = ctx.lib
    # (a) update feeds the slice into the CRC with the previous sum
    upd = [f for f in lib.fn_list if f.impl and f.impl['self_ty'] == A.summer and f.arg_count == 2 and f.local_ty(2).endswith('[u8]')]
    if len(upd) != 1 or crc_fn is None:
        ctx.missing(R, 'anchor:update', 'rolling checksum update not found')
        return
    u = upd[0]
    for p in explore(u, max_visits=1):
        if p.end != 'return':
            continue
        st = [(loc, s, k, i) for (k, i, loc, s) in p.stores() if loc[0] == 1]
        ok = False
        if len(st) == 1:
            v = p.sym.rvalue_at(st[0][1]['rv'], (st[0][2], st[0][3]))
            ok = v[0] == 'call' and v[1] == crc_fn.path and v[2][0][0] == 'field' and v[2][0][1][0] == 'param' and v[2][1] == ('param', u.local_name(2), 2) and st[0][0] == (1, v[2][0][2])
        ctx.check(R, ok, 'update', 'update must set sum := crc(sum, bytes)', fn=u)
    # summer constructor = empty state
    new = [f for f in lib.fn_list if f.impl and f.impl['self_ty'] == A.summer and f.arg_count == 0 and f.local_ty(0) == A.summer]
    for n in new:
        for p in explore(n, max_visits=1):
            if p.end == 'return':
                rv = p.ret()
                ctx.check(R, rv[0] == 'agg' and all(x == ('const', 0) for _, x in rv[2]), 'empty-state', 'the checksum of no bytes must be the zero state', fn=n)
    # (b) builder side
    cw_mc = [f for f in lib.fn_list if f.impl and adt_base(f.impl['self_ty']) == A.cw and not f.impl.get('trait_path') and f.local_ty(0) == 'u32']
    ok = False
    for f in cw_mc:
        for p in explore(f, max_visits=1):
            if p.end == 'return':
                rv = p.ret()
                ok = masked_fn is not None and rv[0] == 'call' and rv[1] == masked_fn.path and rv[2][0] == ('field', ('param', f.local_name(1), 1), A.cw_sum)
    ctx.check(R, ok, 'masked-checksum-source', 'the counting writer\'s checksum getter must mask the very sum its write() maintains', fn=cw_mc[0] if cw_mc else None)
    fin = [m for m in A.builder_methods() if any(f_.path in [m.callee(t) for _, t in m.calls()] for f_ in cw_mc)]
    if len(fin) != 1 or not cw_mc:
        ctx.missing(R, 'anchor:finisher', 'the builder routine reading the checksum was not found')
    else:
        fin = fin[0]
        n_ok = 0
        from callgraph import CallGraph
        import stdmodel as SM
        cg = CallGraph(lib)
        emits = {q for q in lib.fns if any(r == SM.IO_WRITE_ALL for r in cg.reachable([q]))}
        for p in explore(fin, max_visits=1, havoc=True, limit=4000):
            if p.end != 'return' or ret_kind(p.ret()) != 'ok':
                continue
            n_ok += 1
            calls = path_calls(p)
            imc = [i for i, c in enumerate(calls) if c[2] == cw_mc[0].path]
            foot = [i for i, c in enumerate(calls) if c[2] in emits and
                    not (lib.fns[c[2]].impl and (adt_base(lib.fns[c[2]].impl['self_ty']) == A.builder or adt_base(lib.fns[c[2]].impl['self_ty']) == A.cw)) and
                    any(l is not None and l[:2] == (1, A.b_wtr) for l in arg_locs(fin, c[4]))]
            good = len(imc) == 1 and len(foot) >= 2 and max(foot) < imc[0]
            if not good and len(imc) == 1 and len(foot) < 2:
                from rules.common import calls_in_loops
                hid = calls_in_loops(fin, lambda c: c in emits and not (lib.fns[c].impl and adt_base(lib.fns[c].impl['self_ty']) in (A.builder, A.cw)))
                mc_bid = [bid for bid, t in fin.calls() if fin.callee(t) == cw_mc[0].path]
                if hid and mc_bid and all(mc_bid[0] in fin.reachable(start=h_[0]) for h_ in hid):
                    ctx.undecided(R, 'checksum-after-footer', 'the footer is written from inside a loop; that both words precede the checksum read is not decided', fn=fin)
                    continue
            ctx.check(R, good, 'checksum-after-footer', 'the checksum must be read after BOTH footer words went through the counting writer (footer writes at %s, checksum read at %s): otherwise the footer is not certified' % (foot, imc), fn=fin)
            # the trailing word is that value
            trail = [c for c in calls[imc[0] + 1:] if c[2] in emits and not (lib.fns[c[2]].impl and adt_base(lib.fns[c[2]].impl['self_ty']) == A.cw)] if imc else []
            okw = len(trail) == 1 and any(norm(a) == norm(p.sym.call_expr_at((calls[imc[0]][0], 'T'))) for a in trail[0][3])
            ctx.check(R, okw, 'trailer-is-checksum', 'the trailing word written to the raw sink is not the checksum just read', fn=fin)
        if n_ok == 0:
            ctx.undecided(R, 'finisher-paths', 'no success path in the finishing routine', fn=fin)
    # (c) verify
    v = lib.fn('raw::Fst::<D>::verify')
    if v is None:
        ctx.missing(R, 'anchor:verify', 'verify not found')
        return
    L = Linearizer(pv, v)
    n = 0
    for p in explore(v, max_visits=1, havoc=True, limit=2000):
        if p.end != 'return' or ret_kind(p.ret()) != 'ok':
            continue
        n += 1
        calls = path_calls(p)
        ups = [c for c in calls if c[2] == u.path]
        cmpd = [d for d in p.decisions if d[2][0] == 'bin' and d[2][1] in ('Eq', 'Ne')]
        ok_cmp = False
        for d in cmpd:
            e, val = stdalg.canon_value(pv.inline(d[2])), d[3]
            raw = d[2]
            if (e[1] == 'Eq' and val == 1) or (e[1] == 'Ne' and val == 0):
                sides = [e[2], e[3]]
                has_stored = any(s[0] == 'okof' and s[1][0] == 'field' and s[1][2] == 'checksum' for s in sides)
                has_got = any(any(x[0] == 'call' and masked_fn is not None and x[1] == masked_fn.path for x in walk(s)) for s in (raw[2], raw[3]))
                ok_cmp = ok_cmp or (has_stored and has_got)
        ctx.check(R, ok_cmp, 'verify-compares', 'verify() returns Ok on a path that does not require stored checksum == masked CRC of the data', fn=v)
        ok_rng = False
        if len(ups) == 1:
            base, off, ln = slice_parts(L, ups[0][3][1])
            whole = L.slice_len(base)
            ok_rng = off is not None and ln is not None and entails_eq([], off, Lin.const(0)) and entails_eq([], ln, whole - Lin.const(4)) and \
                any(is_call(x, 'AsRef::as_ref') for x in walk(pv.inline(base)))
            fresh = ups[0][3][0]
            ok_new = is_call(strip_after(fresh), A.summer + '::new')
            ctx.check(R, ok_new, 'verify-fresh-state', 'verify() must hash from the empty state', fn=v)
            why = 'offset %s, length %s of %s' % (off, ln, fmt(pv.inline(base))[:60])
        else:
            why = '%d update calls' % len(ups)
        ctx.check(R, ok_rng, 'verify-range', 'verify() must hash exactly the bytes [0, len-4) of the file: %s' % why, fn=v)
    if n == 0:
        ctx.undecided(R, 'verify-paths', 'no success path in verify()', fn=v)
    # an intact file is never rejected: the only errors verify() raises are "no checksum stored" and "checksum differs"
    import vsplit
    bad = set()
    for p in vsplit.vpaths(ctx.lib, v, enter=False, havoc=True):
        rv = p.ret()
        errs = [x[1].rsplit('::', 1)[-1] for x in walk(rv) if x[0] == 'agg' and x[1].startswith('raw::error::Error::')]
        for e_ in errs:
            if e_ not in ('ChecksumMissing', 'ChecksumMismatch'):
                bad.add(e_)
    ctx.check(R, not bad, 'verify-errors', 'verify() can fail with %s: a structural test in front of the checksum comparison rejects files whose every byte is intact (and is no substitute for the comparison)' % sorted(bad), fn=v)


def strip_after(e):
    while isinstance(e, tuple) and e[0] == 'after':
        e = e[3]
    return e


def run(ctx):
    A = Anchors(ctx.lib)
    if A.err:
        for e in A.err:
            ctx.missing('R08.4', 'anchor', e)
        return
    pv = Prover(ctx.lib)
    ctx.step(r08_1, ctx)
    mf = ctx.step(r08_2, ctx, A)
    cf = ctx.step(r08_3, ctx)
    ctx.step(r08_4, ctx, A, pv, mf, cf)
    ctx.step(C07.r07_1, ctx, A, pv)
    # the `fst verify` command certifies a file only if opening AND verifying succeeded: no failure of either is dropped or matched away
    if ctx.bin is not None:
        import rules.C11 as C11
        R5 = ctx.rule('R08.5', 'fst verify: every failure of opening / verifying the file reaches the exit status', floor=1)
        scope = {f.path: f for f in ctx.bin.fn_list if f.path.startswith('cmd::verify::')}
        n, hits = C11.r11_1_2(ctx, ctx.bin, scope, R5, R5)
        ctx.check(R5, n >= 2, 'verify-cmd', 'the verify command no longer produces the two results (open, verify) the rule follows: %d' % n, kind='anchor-missing')
