"""C02 — point lookups agree with the inserted map for every probe (structural part)."""
from paths import explore
import stdalg
from sym import fmt, walk
from callgraph import CallGraph
from rules.common import path_calls, ret_kind
from rules.streams import norm, is_call, is_head
from rules import readerrules, formatrules, layout

LEVEL = 'other'
ROLES = ['lib']
EXPLANATION = ('Decides the structural clauses, not "for every probe" as a value statement: R02.1 both lookup walkers return None/false '
               'at the first missing transition, follow the transition found for the probe byte (target node, accumulated output), '
               'and report a hit only if the node reached after the last byte is final (get adds its final output); R02.2 the '
               'per-node search agrees with the writer: the linear scan maps storage position p to transition ntrans-1-p over exactly '
               'the stored inputs, the index path reads index_base + b and treats entries >= ntrans as absent, and the writer fills '
               'a 256-entry table defaulting to 255 with forward positions and stores the inputs in reverse; R02.3 the two common-input '
               'tables are mutually inverse permutations used as COMMON[b]+1 / INV[idx-1] with 0 = explicit byte; R02.4 the map/set '
               'wrappers delegate to the raw walkers of the same role. The remaining reader offsets are decided under C01 (R01.1).')
TRUSTED = ['Iterator::position / Option::map semantics']
ASSUMPTIONS = ['the FST was produced by this crate\'s builder (C01/C09)']

IS_FINAL = "raw::node::Node::<'f>::is_final"


def walker(ctx, R, pub):
    lib = ctx.lib
    cg = CallGraph(lib)
    p0 = lib.fn(pub)
    if p0 is None:
        ctx.missing(R, 'anchor:' + pub, '%s not found' % pub)
        return None
    inner = [lib.fns[c] for c in cg.reachable([p0.path]) if c in lib.fns and lib.fns[c].loops() and
             any((lib.fns[c].callee(t) or '').endswith("Node::<'f>::find_input") for _, t in lib.fns[c].calls())]
    if len(inner) != 1:
        ctx.missing(R, 'anchor:walker:' + pub, 'expected one looping walker behind %s, found %s' % (pub, [x.path for x in inner]))
        return None
    return inner[0]


def r02_1(ctx):
    R = ctx.rule('R02.1', 'lookup walkers: miss at the first absent transition, follow the found transition, hit only on a final node (+ final output)', floor=6)
    lib = ctx.lib
    for pub, kind in (('raw::Fst::<D>::get', 'get'), ('raw::Fst::<D>::contains_key', 'contains')):
        f = walker(ctx, R, pub)
        if f is None:
            continue
        nodes = [l for l in f.locals if f.local_ty(l).startswith('raw::node::Node<') and f.locals[l].get('name')]
        outs = [l for l in f.locals if f.local_ty(l) == 'raw::Output' and f.locals[l].get('name')]
        if len(nodes) != 1:
            ctx.undecided(R, kind + ':node-local', 'cannot identify the current-node variable', fn=f)
            continue
        N = nodes[0]
        hit = miss = step = 0
        for p in explore(f, max_visits=1, havoc=True):
            fi = [d for d in p.cdecisions() if d[2][0] == 'discr' and is_call(d[2][1], '::find_input')]
            if p.end == 'cut' and fi and fi[-1][3] == 1:
                step += 1
                fcall = fi[-1][2][1]
                ok_probe = is_head(fcall[2][0], {N}) and any(is_call(x, '::next') for x in walk(fcall[2][1]))
                endk = (len(p.blocks) - 2, 'T')
                vn = p.sym.loc_value_at((N,), endk)
                i_expr = norm(stdalg.canon_value(('field', ('variant', fcall, 'Some'), '0')))
                tgt = None
                if is_call(vn, '::node'):
                    a = vn[2][1]
                    if a[0] == 'field' and a[2] == 'addr' and is_call(a[1], '::transition'):
                        tgt = a[1]
                    elif is_call(a, '::transition_addr'):
                        tgt = a
                ok_node = tgt is not None and is_head(tgt[2][0], {N}) and norm(stdalg.canon_value(tgt[2][1])) == i_expr
                ok_out = True
                if kind == 'get' and outs:
                    vo = p.sym.loc_value_at((outs[0],), endk)
                    ok_out = is_call(vo, 'Output::cat') and is_head(vo[2][0], {outs[0]}) and vo[2][1][0] == 'field' and vo[2][1][2] == 'out' and is_call(vo[2][1][1], '::transition') and \
                        is_head(vo[2][1][1][2][0], {N}) and norm(stdalg.canon_value(vo[2][1][1][2][1])) == i_expr
                ctx.check(R, ok_probe and ok_node and ok_out, kind + ':step', 'a lookup step must look the probe byte up in the current node, move to the target of THAT transition%s' % (' and add its output' if kind == 'get' else ''), fn=f,
                          detail={'node': fmt(vn)[:100]})
            elif p.end == 'return' and fi and fi[-1][3] == 0:
                miss += 1
                rv = p.ret()
                ok = (rv[0] == 'agg' and rv[1].endswith('::None')) if kind == 'get' else rv == ('const', 0)
                if kind == 'get' and not ok and is_call(rv, '::from_residual') and 'option::Option' in rv[1]:
                    ok = True       # `find_input(b)?` in a function returning Option: the residual of None is None
                ctx.check(R, ok, kind + ':miss', 'a probe byte without transition must end the lookup with %s' % ('None' if kind == 'get' else 'false'), fn=f)
            elif p.end == 'return' and fi and fi[-1][3] == 1:
                # the function answers in the middle of the walk, right after following a transition: the remaining probe bytes
                # are never looked at
                rv = p.ret()
                positive = rv == ('const', 1) or (rv[0] == 'agg' and rv[1].endswith('::Some'))
                if positive:
                    ctx.violation(R, kind + ':early-hit', 'the lookup reports a hit before the probe is exhausted (after following a transition, without consuming the remaining bytes): '
                                  'every extension of a key that ends on such a node is reported present', fn=f)
                else:
                    ctx.undecided(R, kind + ':early-miss', 'the lookup gives up in the middle of the walk after a transition was found', fn=f)
            elif p.end == 'return' and not fi:
                rv = p.ret()
                fin = [d for d in p.decisions if is_call(d[2], IS_FINAL)]
                if kind == 'get':
                    if rv[0] == 'agg' and rv[1].endswith('::Some'):
                        hit += 1
                        v = rv[2][0][1]
                        ok = bool(fin) and fin[-1][3] == 1 and is_head(fin[-1][2][2][0], {N}) and is_call(v, 'Output::cat') and (not outs or is_head(v[2][0], {outs[0]})) and \
                            is_call(v[2][1], '::final_output') and is_head(v[2][1][2][0], {N})
                        ctx.check(R, ok, 'get:hit', 'get must answer Some(accumulated output + final output of the node reached) and only if that node is final: a proper prefix of a key is not a key', fn=f,
                                  detail={'finality_tested': bool(fin), 'value': fmt(v)[:100]})
                    elif rv[0] == 'agg' and rv[1].endswith('::None'):
                        ok = bool(fin) and fin[-1][3] == 0
                        ctx.check(R, ok, 'get:not-final', 'get answers None after consuming the whole probe on a path where the node reached is not known to be non-final', fn=f)
                else:
                    hit += 1
                    ok = (is_call(rv, IS_FINAL) and is_head(rv[2][0], {N})) or (bool(fin) and rv[0] == 'const' and rv[1] == fin[-1][3] and is_head(fin[-1][2][2][0], {N}))
                    ctx.check(R, ok, 'contains:hit', 'contains_key must answer whether the node reached after the last byte is final', fn=f, detail=fmt(rv)[:80])
        if not (hit and miss and step):
            ctx.undecided(R, kind + ':shape', 'walker paths not all recognised (hit %d, miss %d, step %d)' % (hit, miss, step), fn=f)


def r02_4(ctx):
    R = ctx.rule('R02.4', 'wrapper delegation: Map::get / contains_key and Set::contains reach the raw walker of the same role', floor=5)
    lib = ctx.lib
    table = [('inner_map::Map::<D>::get', 'raw::Fst::<D>::get'), ('inner_map::Map::<D>::contains_key', 'raw::Fst::<D>::contains_key'), ('inner_set::Set::<D>::contains', 'raw::Fst::<D>::contains_key'),
             ('raw::Fst::<D>::get', "raw::FstRef::<'f>::get"), ('raw::Fst::<D>::contains_key', "raw::FstRef::<'f>::contains_key")]
    for src, dst in table:
        f = lib.fn(src)
        if f is None:
            ctx.missing(R, 'anchor:' + src, src + ' not found')
            continue
        cs = [f.callee(t) for _, t in f.calls() if (f.callee(t) or '').startswith('raw::Fst') and f.callee(t).rsplit('::', 1)[-1] in ('get', 'contains_key', 'get_key', 'contains')]
        ok = cs == [dst]
        if ok:
            for p in explore(f, max_visits=1):
                if p.end == 'return':
                    # every returning path asks the raw walker about the probe (param 2) and answers from its result
                    call = [c for c in path_calls(p) if c[2] == dst]
                    rv = p.ret()
                    from_call = any(x[0] == 'call' and x[1] == dst for x in walk(rv)) or any(d[2][0] == 'discr' and any(x[0] == 'call' and x[1] == dst for x in walk(d[2])) for d in p.decisions)
                    ok = ok and len(call) == 1 and any(y[0] == 'param' and y[2] == 2 for y in walk(call[0][3][1])) and from_call
        ctx.check(R, ok, 'delegates:' + src, '%s must forward the probe to %s (calls: %s)' % (src, dst, cs), fn=f)


def run(ctx):
    ctx.step(r02_1, ctx)
    R1 = ctx.rule('R01.1', 'reader offsets of every node accessor equal the positions the format table assigns (shared with C01)', floor=30)
    R2 = ctx.rule('R02.2', 'scan / index agreement between reader and writer', floor=5)
    ctx.step(readerrules.run, ctx, R1, R2)
    # the value a lookup returns was packed by the writer in pack_size(value) bytes and is unpacked from as many: the packing rule R09.4
    ctx.step(formatrules.packing, ctx)
    # writer side of R02.2: inputs reversed, index table default / fill
    R = {'events': R2, 'widths': R2, 'index': R2, 'sizes': R2, 'state': R2}
    lib = ctx.lib
    from callgraph import CallGraph
    import stdmodel as SM
    cg = CallGraph(lib)
    emit_fns = {p for p in lib.fns if any(q == SM.IO_WRITE_ALL for q in cg.reachable([p])) and any('as std::io::Write>' in pr for pr in lib.fns[p].preds)}
    f = lib.fn(layout.ENC_ANY)
    if f is None:
        ctx.missing(R2, 'anchor:any-encoder', 'any-trans encoder not found')
    else:
        evs = layout.emission_events(lib, f, emit_fns)
        inp = [e for e in evs if e.kind() == 'write_all' and e.args and layout.array1(e.args[1]) is not None and layout.is_item_field(layout.array1(e.args[1]), 'inp')]
        if not inp:
            ctx.undecided(R2, 'writer:inputs-reversed', 'the emission of the input bytes is not a write_all(&[t.inp]) in a loop of the any-trans encoder: form not decided here (R01.1 / R09.5 report a missing section)', fn=f)
        else:
            ctx.check(R2, len(inp) == 1 and inp[0].loop and inp[0].loop[0] == 'rev', 'writer:inputs-reversed', 'the writer must store the input bytes in reverse transition order (the reader\'s scan and input(i) rely on it)', fn=f)
        idx = [e for e in evs if e.kind() == 'write_all' and not e.loop and any(x[0] == 'citem' and x[1] == layout.THRESH for g, v in e.guards for x in walk(g))]
        if idx:
            ctx.step(layout.index_table_rules, ctx, R2, f, idx[0])
        else:
            ctx.undecided(R2, 'writer:index', 'index-table emission not found', fn=f)
    R3 = ctx.rule('R02.3', 'common-input tables are mutually inverse permutations; encoder index = COMMON[b]+1 if it fits else 0; decoder byte = INV[idx-1]', floor=2)
    # reuse the constant / helper rules under this rule id
    n0 = len(ctx.violations)
    ctx.step(formatrules.constants, ctx)
    ctx.step(formatrules.common_input_helpers, ctx, R3)
    ctx.step(r02_4, ctx)
