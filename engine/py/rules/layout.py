"""Family F1: writer emission order / widths / guards and reader offsets against the declarative format table
(DESIGN.md §3).  Shared by C09 (writer ≡ table), C01 and C02 (reader ≡ table, tables mutually inverse)."""
import re
from absint import Prover, Linearizer
from lin import Lin, entails_eq
from paths import explore
from sym import fmt, walk, Sym, map_children
from rules.common import path_calls, arg_loc, arg_locs, ret_kind
from rules.streams import norm, is_call
import stdmodel as SM

ENC_ANY = 'raw::node::StateAnyTrans::compile'
ENC_ONE = 'raw::node::StateOneTrans::compile'
ENC_NEXT = 'raw::node::StateOneTransNext::compile'
THRESH = 'raw::node::TRANS_INDEX_THRESHOLD'


# ---------------------------------------------------------------------------------------------
def rpo(fn):
    """reverse post-order of the CFG with back edges removed: block -> rank"""
    back = set(fn.back_edges())
    seen, order = set(), []

    def dfs(b):
        stack = [(b, iter(fn.succ(b)))]
        seen.add(b)
        while stack:
            n, it = stack[-1]
            adv = False
            for s in it:
                if (n, s) in back or s in seen:
                    continue
                seen.add(s)
                stack.append((s, iter(fn.succ(s))))
                adv = True
                break
            if not adv:
                order.append(n)
                stack.pop()
    dfs(0)
    order.reverse()
    return {b: i for i, b in enumerate(order)}


def reach_nb(fn):
    back = set(fn.back_edges())
    memo = {}

    def r(b):
        if b in memo:
            return memo[b]
        memo[b] = set()
        out = {b}
        for s in fn.succ(b):
            if (b, s) not in back:
                out |= r(s)
        memo[b] = out
        return out
    return r


def writer_param(fn):
    for i in range(1, fn.arg_count + 1):
        if re.fullmatch(r'W(/#\d+)?', fn.local_ty(i)):
            return i
    return None


def iter_source(fn, loop_header):
    """(direction, enumerated, source expr) of the iterator driving the loop at loop_header, or None"""
    sy = Sym(fn)
    body = fn.loops().get(loop_header, set())
    t = None
    # the loop header block (or its successor) calls Iterator::next on a local; find that local's definition before the loop
    for bid in sorted(body):
        tt = fn.blocks[bid]['term']
        if tt and tt['k'] == 'call' and (fn.callee(tt) or '').endswith('::next'):
            t = (bid, tt)
            break
    if t is None:
        return None
    bid, tt = t
    l = arg_loc(fn, tt, 0)
    if l is None:
        return None
    init = None
    for d in fn.defs():
        if d.target == l and d.kind in ('assign', 'call') and d.bid not in body:
            init = sy.def_value(d, (d.bid, d.idx), l)
    if init is None:
        return None
    rev = any(is_call(x, 'Iterator::rev') for x in walk(init))
    enum = any(is_call(x, 'Iterator::enumerate') for x in walk(init))
    return ('rev' if rev else 'fwd', enum, init)


class Event:
    def __init__(self, fn, bid, callee, args, loop, guards, span):
        self.fn, self.bid, self.callee, self.args, self.loop, self.guards, self.span = fn, bid, callee, args, loop, guards, span

    def kind(self):
        c = self.callee
        if c == SM.IO_WRITE_ALL:
            return 'write_all'
        return c.rsplit('::', 1)[-1] if isinstance(c, str) else '?'

    def __repr__(self):
        g = ['%s=%s' % (fmt(e)[:50], v) for e, v in self.guards]
        return '%s(%s)%s%s' % (self.kind(), ', '.join(fmt(a)[:60] for a in self.args[1:]), ' in-loop[%s]' % self.loop[0] if self.loop else '', ' if ' + ' & '.join(g) if g else '')


class EvList(list):
    alt = None


def emission_events(lib, fn, emit_fns, split=None):
    """ordered list of Event for every call that hands the writer parameter to write_all or to a local emission helper"""
    w = writer_param(fn)
    if w is None:
        return None
    ranks = rpo(fn)
    rnb = reach_nb(fn)
    loops = fn.loops()
    sites = []
    for bid, t in fn.calls():
        callee = fn.callee(t)
        decl = fn.callee_decl(t)
        if not (decl == SM.IO_WRITE_ALL or callee in emit_fns):
            continue
        if not any(l is not None and l[:1] == (w,) for l in arg_locs(fn, t)):
            continue
        sites.append((ranks.get(bid, 10**6), bid, t, SM.IO_WRITE_ALL if decl == SM.IO_WRITE_ALL else callee))
    sites.sort()
    paths = explore(fn, max_visits=1, havoc=True, limit=20000)
    events = []
    def has_site(q, bid):
        return bid in q.blocks[:-1] or (bid == q.blocks[-1] and q.end != 'cut')

    def one_event(p, bid, t, callee, others_dec=None):
        k = p.blocks.index(bid)
        ce = p.sym.call_expr_at((k, 'T'))
        guards = []
        for d in p.decisions:
            if d[0] >= k:
                continue
            S = d[1]
            T = p.blocks[d[0] + 1]
            others = [s_ for s_ in fn.succ(S) if s_ != T]
            rets = set(fn.return_blocks())
            e = d[2]
            if any(is_call(x, '::next') or is_call(x, 'Try>::branch') or is_call(x, 'Try::branch') for x in walk(e)):
                continue
            # a guard: some alternative successor bypasses the site and still returns normally (not a panic edge) ...
            bypass = any(bid not in rnb(s_) and (rnb(s_) & rets) for s_ in others)
            # ... or the value handed to the emission depends on it (`write_all(&[if n == 256 { 1 } else { n as u8 }])`)
            selects = others_dec is not None and any(norm(e) == oe and d[3] != ov for (oe, ov) in others_dec)
            if bypass or selects:
                guards.append((e, d[3]))
        inner = None
        for h, body in loops.items():
            if bid in body and (inner is None or len(body) < len(loops[inner])):
                inner = h
        loop = None
        if inner is not None:
            src = iter_source(fn, inner)
            loop = (src[0], src[1], src[2]) if src else ('?', False, None)
        return Event(fn, bid, callee, ce[2], loop, guards, t.get('span'))

    for _, bid, t, callee in sites:
        cand = [q for q in paths if has_site(q, bid)]
        if not cand:
            events.append(Event(fn, bid, callee, (), None, [], t.get('span')))
            continue
        # distinct values handed to this site on different paths (a temporary computed by if / match before one shared call)
        groups = {}
        for q in (cand[::max(1, len(cand) // 400)] if (split and bid in split) else cand[:1]):
            k = q.blocks.index(bid)
            key = repr(norm(('tuple', tuple(a for a in q.sym.call_expr_at((k, 'T'))[2][1:]))))       # the value(s) handed over, not the writer
            groups.setdefault(key, q)
        if not split or bid not in split or len(groups) == 1 or len(groups) > 4:
            events.append(one_event(cand[0], bid, t, callee))
            continue
        reps = list(groups.values())
        for q in reps:
            kq = q.blocks.index(bid)
            od = [(norm(d[2]), d[3]) for r in reps if r is not q for d in r.decisions if d[0] < r.blocks.index(bid)]
            events.append(one_event(q, bid, t, callee, od))
    events = EvList(events)
    if not split:
        events.alt = lambda bids: emission_events(lib, fn, emit_fns, split=set(bids))
    return events


# ---- guard / value matchers ---------------------------------------------------------------------
def g_is(e, val, pred, want):
    return pred(e) and val == want


def is_item_field(e, field):
    """(iter.next() as Some).0[.1].<field> for an item of the per-transition loops"""
    return e[0] == 'field' and e[2] == field and any(is_call(x, '::next') for x in walk(e[1]))


def value_of(e, inner_pred):
    """Output::value(x) with inner_pred(x)"""
    return is_call(e, 'Output::value') and inner_pred(e[2][0])


def array1(e):
    return e[1][0] if e[0] == 'array' and len(e[1]) == 1 else None


def ntrans_expr(e):
    e2 = e
    while e2[0] == 'cast':
        e2 = e2[1]
    return is_call(e2, 'Vec::<T, A>::len') and e2[2][0][0] == 'field' and e2[2][0][2] == 'trans'


def guard_any_outs(fn):
    """the loop-carried bool of the width loop: init = !final_output.is_zero(), step = old || !t.out.is_zero()"""
    cands = []
    for h, targets in fn.loop_havoc().items():
        for T, _ in targets:
            if len(T) == 1 and fn.local_ty(T[0]) == 'bool' and fn.locals[T[0]].get('name'):
                cands.append(T[0])
    return sorted(set(cands))


def check_any_outs(ctx, R, fn, l):
    """any_outs := (final output non-zero) OR (some transition output non-zero)"""
    sy = Sym(fn)
    loops = fn.loops()
    init_ok = False
    for d in fn.defs():
        if d.target == (l,) and d.kind == 'assign' and not any(d.bid in b for b in loops.values()):
            v = sy.def_value(d, (d.bid, d.idx), (l,))
            init_ok = v[0] == 'un' and v[1] == 'Not' and is_call(v[2], 'Output::is_zero') and v[2][2][0][0] == 'field' and v[2][2][0][2] == 'final_output'
    step_ok = False
    for p in explore(fn, max_visits=1, havoc=True, limit=20000):
        if p.end != 'cut':
            continue
        h = p.blocks[-1]
        if not any(T == (l,) for T, _ in fn.loop_havoc().get(h, [])):
            continue
        v = p.sym.loc_value_at((l,), (len(p.blocks) - 2, 'T'))
        dec = [d for d in p.decisions if d[2][0] == 'havoc' and d[2][1] == (l,)]
        if not dec and v[0] == 'bin' and v[1] == 'BitOr':
            # non-short-circuit spelling `old |= !is_zero(t.out)`
            sides = [v[2], v[3]]
            old_ = [x for x in sides if x[0] == 'havoc' and x[1] == (l,)]
            new_ = [x for x in sides if x[0] == 'un' and x[1] == 'Not' and is_call(x[2], 'Output::is_zero') and is_item_field(x[2][2][0], 'out')]
            if old_ and new_:
                step_ok = True
                continue
            step_ok = False
            break
        # short-circuit `old || !is_zero(t.out)`: if old is true stays true; else becomes !is_zero(t.out)
        if dec and dec[-1][3] == 0:
            ok = v[0] == 'un' and v[1] == 'Not' and is_call(v[2], 'Output::is_zero') and is_item_field(v[2][2][0], 'out')
            step_ok = step_ok or ok
            if not ok:
                step_ok = False
                break
        elif dec and dec[-1][3] == 1:
            if not (v == ('const', 1)):
                step_ok = False
                break
    ctx.check(R, init_ok and step_ok, 'any-outs-definition', 'the "node has outputs" flag must be (final output != 0) OR (some transition output != 0) (init ok: %s, step ok: %s)' % (init_ok, step_ok), fn=fn)


def max_width_local(fn, kind):
    """loop-carried u8 local updated as max(old, f(item)) with f = pack_delta_size / pack_size"""
    out = []
    for p in explore(fn, max_visits=1, havoc=True, limit=20000):
        if p.end != 'cut':
            continue
        h = p.blocks[-1]
        for T, _ in fn.loop_havoc().get(h, []):
            if len(T) == 1 and fn.local_ty(T[0]) == 'u8' and fn.locals[T[0]].get('name'):
                v = p.sym.loc_value_at(T, (len(p.blocks) - 2, 'T'))
                if is_call(v, 'cmp::max') and any(x[0] == 'havoc' and x[1] == T for x in v[2]):
                    other = [x for x in v[2] if not (x[0] == 'havoc' and x[1] == T)]
                    if other and is_call(other[0], kind) and not any(o[0] == T[0] for o in out):
                        out.append((T[0], other[0]))
    return out


# ---- the three encoders -------------------------------------------------------------------------
def writer_rules(ctx, R):
    """R = dict of rule ids: events, widths, state, sizes"""
    lib = ctx.lib
    from callgraph import CallGraph
    cg = CallGraph(lib)
    emit_fns = {p for p in lib.fns if any(q == SM.IO_WRITE_ALL for q in cg.reachable([p])) and any('as std::io::Write>' in pr for pr in lib.fns[p].preds)}
    out = {}
    for name in (ENC_ANY, ENC_ONE, ENC_NEXT):
        f = lib.fn(name)
        if f is None:
            ctx.missing(R['events'], 'anchor:' + name, 'node encoder %s not found' % name)
            continue
        ev = emission_events(lib, f, emit_fns)
        out[name] = ev
        ctx.count('emission_sites_' + name.rsplit('::', 2)[-2], len(ev or []))
    if ENC_ANY in out and out[ENC_ANY] is not None:
        any_trans_writer(ctx, R, lib.fn(ENC_ANY), out[ENC_ANY])
    if ENC_ONE in out and out[ENC_ONE] is not None:
        one_trans_writer(ctx, R, lib.fn(ENC_ONE), out[ENC_ONE])
    if ENC_NEXT in out and out[ENC_NEXT] is not None:
        next_writer(ctx, R, lib.fn(ENC_NEXT), out[ENC_NEXT])
    return out


def has_guard(ev, pred, want):
    return any(pred(e) and v == want for e, v in ev.guards)


def any_trans_writer(ctx, R, f, evs):
    RE = R['events']
    anyl = guard_any_outs(f)
    if len(anyl) != 1:
        ctx.undecided(RE, 'any:any-outs', 'cannot identify the "node has outputs" flag (%s)' % anyl, fn=f)
        return
    AO = anyl[0]
    check_any_outs(ctx, RE, f, AO)
    tw = max_width_local(f, 'pack_delta_size')
    ow = max_width_local(f, 'bytes::pack_size')
    okw = len(tw) == 1 and len(ow) == 1 and is_item_field(tw[0][1][2][1], 'addr') and tw[0][1][2][0][0] == 'param' and value_of(ow[0][1][2][0], lambda x: is_item_field(x, 'out'))
    ctx.check(R['widths'], okw, 'any:max-widths', 'the common widths must be the maxima over all transitions of pack_delta_size(addr, t.addr) and pack_size(t.out) (found %s / %s)' % (
        [fmt(x[1])[:60] for x in tw], [fmt(x[1])[:60] for x in ow]), fn=f)
    if not okw:
        return
    TS, OS = tw[0][0], ow[0][0]
    # osize starts from the final output's width, tsize from 0
    sy = Sym(f)
    inits = {}
    for d in f.defs():
        if d.target in ((TS,), (OS,)) and d.kind in ('assign', 'call') and not any(d.bid in b for b in f.loops().values()):
            inits[d.target[0]] = sy.def_value(d, (d.bid, d.idx), d.target)
    ok_init = inits.get(TS) == ('const', 0) and is_call(inits.get(OS, ('x',)), 'bytes::pack_size') and value_of(inits[OS][2][0], lambda x: x[0] == 'field' and x[2] == 'final_output')
    ctx.check(R['widths'], ok_init, 'any:width-init', 'transition width must start at 0 and output width at pack_size(final output): %s' % {k: fmt(v)[:50] for k, v in inits.items()}, fn=f)

    def is_ao(e):
        return e[0] == 'havoc' and e[1] == (AO,)

    def is_ts(e):
        return e[0] == 'havoc' and e[1] == (TS,)

    def is_os(e):
        return e[0] == 'havoc' and e[1] == (OS,)

    def g_final(e):
        return e[0] == 'field' and e[2] == 'is_final'

    def g_index(e):
        return e[0] == 'bin' and e[1] == 'Gt' and ntrans_expr(e[2]) and e[3] == ('citem', THRESH)

    def g_nocount(e):
        return is_call(e, 'Option::<T>::is_none') and is_call(e[2][0], 'state_ntrans')

    def g_256(e):
        return e[0] == 'bin' and e[1] == 'Eq' and ntrans_expr(e[2]) and e[3] == ('const', 256)
    spec = [
        ('final-output', lambda ev: ev.kind() == 'pack_uint_in' and value_of(ev.args[1], lambda x: x[0] == 'field' and x[2] == 'final_output') and is_os(ev.args[2]) and not ev.loop and has_guard(ev, is_ao, 1) and has_guard(ev, g_final, 1)),
        ('outputs', lambda ev: ev.kind() == 'pack_uint_in' and value_of(ev.args[1], lambda x: is_item_field(x, 'out')) and is_os(ev.args[2]) and ev.loop and ev.loop[0] == 'rev' and has_guard(ev, is_ao, 1) and not has_guard(ev, g_final, 1)),
        ('deltas', lambda ev: ev.kind() == 'pack_delta_in' and ev.args[1][0] == 'param' and is_item_field(ev.args[2], 'addr') and is_ts(ev.args[3]) and ev.loop and ev.loop[0] == 'rev' and not ev.guards),
        ('inputs', lambda ev: ev.kind() == 'write_all' and array1(ev.args[1]) is not None and is_item_field(array1(ev.args[1]), 'inp') and ev.loop and ev.loop[0] == 'rev' and not ev.guards),
        ('index', lambda ev: ev.kind() == 'write_all' and not ev.loop and has_guard(ev, g_index, 1) and len(ev.guards) == 1),
        ('sizes', lambda ev: ev.kind() == 'write_all' and array1(ev.args[1]) is not None and is_call(array1(ev.args[1]), 'PackSizes::encode') and not ev.loop and not ev.guards),
        ('count-256', lambda ev: ev.kind() == 'write_all' and (ev.args[1] == ('cpromoted', 0) or array1(ev.args[1]) == ('const', 1)) and has_guard(ev, g_nocount, 1) and has_guard(ev, g_256, 1)),
        ('count', lambda ev: ev.kind() == 'write_all' and array1(ev.args[1]) is not None and ntrans_expr(array1(ev.args[1])) and has_guard(ev, g_nocount, 1) and has_guard(ev, g_256, 0)),
        ('state', lambda ev: ev.kind() == 'write_all' and array1(ev.args[1]) is not None and array1(ev.args[1])[0] == 'field' and array1(ev.args[1])[2] == '0' and not ev.loop and not ev.guards),
    ]
    match_events(ctx, RE, f, 'any', evs, spec)
    # promoted constant of the 256-marker
    cnt = [e for e in evs if e.args and e.args[1] == ('cpromoted', 0)]
    if cnt:
        pr = f.promoted.get(0)
        v = promoted_bytes(f, 0)
        ctx.check(RE, v == [1], 'any:count-256-value', 'a node with 256 transitions must store the count byte 1 (found %s)' % v, fn=f)
    # index table
    idx_ev = [e for e in evs if has_guard(e, g_index, 1) and e.kind() == 'write_all' and not e.loop]
    if idx_ev:
        index_table_rules(ctx, R['index'], f, idx_ev[0])
    # sizes byte: output width only when outputs are present
    szs = [e for e in evs if e.kind() == 'write_all' and e.args and array1(e.args[1]) is not None and is_call(array1(e.args[1]), 'PackSizes::encode')]
    if szs:
        sizes_provenance(ctx, R['sizes'], f, AO, TS, OS)
    st = [e for e in evs if e.kind() == 'write_all' and e.args and array1(e.args[1]) is not None and array1(e.args[1])[0] == 'field' and array1(e.args[1])[2] == '0']
    if st:
        v = array1(st[-1].args[1])[1]
        # state = set_state_ntrans(set_final_state(new(), node.is_final), ntrans as u8)
        chain = []
        while v[0] == 'after':
            chain.append(v[1])
            v = v[3]
        sn = [c for c in chain if is_call(c, 'set_state_ntrans')]
        sf = [c for c in chain if is_call(c, 'set_final_state')]
        ok = len(chain) == 2 and len(sn) == 1 and len(sf) == 1 and ntrans_expr(sn[0][2][1]) and sf[0][2][1][0] == 'field' and sf[0][2][1][2] == 'is_final' and is_call(v, 'StateAnyTrans::new')
        ctx.check(R['state'], ok, 'any:state-byte', 'the any-trans state byte must be new() + final flag(node.is_final) + ntrans(node.trans.len()): %s' % [fmt(c)[:60] for c in chain], fn=f)


def promoted_bytes(f, idx):
    pr = f.promoted.get(idx)
    if not pr:
        return None
    vals = []
    for b in pr['blocks']:
        for st in b['stmts']:
            if st['k'] == 'assign' and st['rv'].get('agg') == 'array':
                for o in st['rv']['ops']:
                    if 'const' in o and o['const'].get('scalar') is not None:
                        vals.append(int(o['const']['scalar'], 16))
    return vals


def match_events(ctx, RE, f, tag, evs, spec):
    used, problems, missing = _match(evs, spec)
    if (problems or missing) and getattr(evs, 'alt', None) is not None:
        # second reading: one call site fed with a temporary computed by `if` / `match` just before it is one emission per value
        evs2 = evs.alt({ev.bid for _, _, ev in problems})
        u2, p2, m2 = _match(evs2, spec)
        if not p2 and not m2:
            used, problems, missing = u2, p2, m2
    for kind, msg, ev in problems:
        if kind == 'violation':
            ctx.violation(RE, '%s:order' % tag, msg, fn=f, at=ev.span)
        else:
            ctx.undecided(RE, '%s:event:%s' % (tag, ev.kind()), msg, fn=f, at=ev.span)
    for n in missing:
        # definite even when some emission could not be classified: the section predicates include guard / width / direction, so a
        # wrong guard shows up exactly as "unclassified emission + missing section" (downgrading this would lose such defects)
        ctx.violation(RE, '%s:missing:%s' % (tag, n), 'the encoder never emits section "%s" in the form the layout requires (direction, width, guard)' % n, fn=f)
    for n in used:
        ctx.ok(RE, '%s:section:%s' % (tag, n), None, fn=f)


def _match(evs, spec):
    i = 0
    used = []
    problems = []
    for ev in evs:
        hit = None
        for j in range(i, len(spec)):
            try:
                if spec[j][1](ev):
                    hit = j
                    break
            except (IndexError, TypeError):
                continue
        if hit is None:
            # does it match an EARLIER section? then the order is wrong
            earlier = None
            for j in range(0, i):
                try:
                    if spec[j][1](ev):
                        earlier = spec[j][0]
                except (IndexError, TypeError):
                    pass
            if earlier:
                problems.append(('violation', 'section "%s" is emitted after "%s": the on-disk order of sections is %s' % (earlier, used[-1] if used else '-', ' < '.join(s[0] for s in spec)), ev))
            else:
                problems.append(('undecided', 'emission %r matches no section of the documented layout at this position (expected one of: %s)' % (ev, [s[0] for s in spec[i:]]), ev))
            continue
        used.append(spec[hit][0])
        i = hit + 1
    names = [s[0] for s in spec]
    missing = [n for n in names if n not in used]
    return used, problems, missing


def index_table_rules(ctx, R, f, ev):
    """256-entry table, default >= 255 (absent marker), index[t.inp] = forward position"""
    sy = Sym(f)
    rep = None
    for bid, b in f.blocks.items():
        if b['cleanup']:
            continue
        for i, st in enumerate(b['stmts']):
            if st['k'] == 'assign' and 'repeat' in st['rv']:
                rep = (sy.rvalue(st['rv'], bid, i), st['place']['local'])
    if rep is None:
        ctx.undecided(R, 'index:default', 'index table initialisation not found', fn=f)
        return
    v, loc = rep
    n = int(str(v[2]).split('_')[0]) if str(v[2]).split('_')[0].isdigit() else None
    ctx.check(R, v[1] == ('const', 255) and n == 256, 'index:default', 'the index table must have 256 entries defaulting to 255 (the reader treats values >= ntrans as "no transition"; any smaller default aliases absent bytes to a real transition): default %s, length %s' % (fmt(v[1]), v[2]), fn=f)
    # the written buffer is that table
    al = arg_loc(f, f.blocks[ev.bid]['term'], 1)
    ctx.check(R, al is not None and al[0] == loc, 'index:written', 'the 256-byte block written is not the index table', fn=f)
    # fill loop: forward enumerate, index[(t.inp as usize)] = i as u8
    ok = False
    for p in explore(f, max_visits=1, havoc=True, limit=20000):
        if p.end != 'cut':
            continue
        for (k, i, l, st) in p.stores():
            if l[0] == loc and l[1:] == ('[]',):
                val = p.sym.rvalue_at(st['rv'], (k, i))
                idx = p.sym.index_operand_at(st['place'], (k, i))
                src = iter_source(f, p.blocks[-1])
                vi = val
                while vi[0] == 'cast':
                    vi = vi[1]
                ii = idx
                while ii is not None and ii[0] == 'cast':
                    ii = ii[1]
                ok = src is not None and src[0] == 'fwd' and src[1] and vi[0] == 'field' and vi[2] == '0' and ii is not None and ii[0] == 'field' and ii[2] == 'inp' and any(x[0] == 'field' and x[2] == '1' for x in walk(ii))
    ctx.check(R, ok, 'index:fill', 'the index table must map each transition\'s input byte to its FORWARD position (enumerate over trans in order)', fn=f)


def sizes_provenance(ctx, R, f, AO, TS, OS):
    """set_output_pack_size(osize) iff any_outs else 0; set_transition_pack_size(tsize)"""
    ok_o1 = ok_o0 = ok_t = False
    for p in explore(f, max_visits=1, havoc=True, limit=20000):
        for (k, bid, callee, args, t) in path_calls(p):
            if isinstance(callee, str) and callee.endswith('set_output_pack_size'):
                g = [d for d in p.decisions if d[0] < k and d[2][0] == 'havoc' and d[2][1] == (AO,)]
                if g and g[-1][3] == 1 and args[1][0] == 'havoc' and args[1][1] == (OS,):
                    ok_o1 = True
                if g and g[-1][3] == 0 and args[1] == ('const', 0):
                    ok_o0 = True
            if isinstance(callee, str) and callee.endswith('set_transition_pack_size'):
                if args[1][0] == 'havoc' and args[1][1] == (TS,):
                    ok_t = True
    ctx.check(R, ok_o1 and ok_o0 and ok_t, 'any:sizes-provenance', 'the sizes byte must record (transition width, output width if the node has outputs else 0) - the very widths used for the sections (out-with: %s, out-without: %s, trans: %s)' % (ok_o1, ok_o0, ok_t), fn=f)


def one_trans_writer(ctx, R, f, evs):
    RE = R['events']

    def g_out_zero(e):
        return e[0] == 'bin' and e[1] == 'Eq' and is_call(e[2], 'Output::value') and e[3] == ('const', 0)

    def g_nocommon(e):
        return is_call(e, 'Option::<T>::is_none') and is_call(e[2][0], 'common_input')
    spec = [
        ('output', lambda ev: ev.kind() == 'pack_uint' and value_of(ev.args[1], lambda x: x[0] == 'field' and x[2] == 'out') and has_guard(ev, g_out_zero, 0)),
        ('delta', lambda ev: ((ev.kind() == 'pack_delta') or (ev.kind() == 'pack_delta_in' and is_call(ev.args[3], 'pack_delta_size') and ev.args[3][2] == ev.args[1:3])) and
            ev.args[1][0] == 'param' and ev.args[2][0] == 'field' and ev.args[2][2] == 'addr' and not any(g_out_zero(e) for e, v in ev.guards)),
        ('sizes', lambda ev: ev.kind() == 'write_all' and array1(ev.args[1]) is not None and is_call(array1(ev.args[1]), 'PackSizes::encode')),
        ('input', lambda ev: ev.kind() == 'write_all' and array1(ev.args[1]) is not None and array1(ev.args[1])[0] == 'field' and array1(ev.args[1])[2] == 'inp' and has_guard(ev, g_nocommon, 1)),
        ('state', lambda ev: ev.kind() == 'write_all' and array1(ev.args[1]) is not None and array1(ev.args[1])[0] == 'field' and array1(ev.args[1])[2] == '0' and not any(g_nocommon(e) for e, v in ev.guards)),
    ]
    match_events(ctx, RE, f, 'one', evs, spec)
    # sizes = (pack_delta result, pack_uint result or 0); state = new() + common(trans.inp)
    szs = [e for e in evs if e.kind() == 'write_all' and e.args and array1(e.args[1]) is not None and is_call(array1(e.args[1]), 'PackSizes::encode')]
    if szs:
        ok_t = ok_o = False
        for p in explore(f, max_visits=1, havoc=True):
            for (k, bid, callee, args, t) in path_calls(p):
                if isinstance(callee, str) and callee.endswith('set_transition_pack_size'):
                    ok_t = (args[1][0] == 'okof' and is_call(args[1][1], 'pack_delta')) or (is_call(args[1], 'pack_delta_size') and args[1][2][0][0] == 'param' and args[1][2][1][0] == 'field' and args[1][2][1][2] == 'addr')
                if isinstance(callee, str) and callee.endswith('set_output_pack_size'):
                    a = args[1]
                    if a == ('const', 0):
                        g = [d for d in p.decisions if g_out_zero(d[2])]
                        ok_o = ok_o or (bool(g) and g[-1][3] == 1)
                    elif a[0] == 'okof' and is_call(a[1], 'pack_uint'):
                        g = [d for d in p.decisions if g_out_zero(d[2])]
                        ok_o = ok_o or (bool(g) and g[-1][3] == 0)
        ctx.check(R['sizes'], ok_t and ok_o, 'one:sizes-provenance', 'the one-trans sizes byte must record the widths returned by the delta / output packers (0 when the output is zero)', fn=f)
    for tag, fn_, evs_ in (('one', f, evs),):
        st = [e for e in evs_ if e.kind() == 'write_all' and e.args and array1(e.args[1]) is not None and array1(e.args[1])[0] == 'field' and array1(e.args[1])[2] == '0']
        if st:
            v = array1(st[-1].args[1])[1]
            ok = v[0] == 'after' and is_call(v[1], 'set_common_input') and v[1][2][1][0] == 'field' and v[1][2][1][2] == 'inp' and is_call(v[3], 'StateOneTrans::new')
            ctx.check(R['state'], ok, 'one:state-byte', 'the one-trans state byte must be new() + common-input index of the transition byte', fn=fn_)


def next_writer(ctx, R, f, evs):
    RE = R['events']

    def g_nocommon(e):
        return is_call(e, 'Option::<T>::is_none') and is_call(e[2][0], 'common_input')
    spec = [
        ('input', lambda ev: ev.kind() == 'write_all' and array1(ev.args[1]) is not None and array1(ev.args[1])[0] == 'param' and has_guard(ev, g_nocommon, 1)),
        ('state', lambda ev: ev.kind() == 'write_all' and array1(ev.args[1]) is not None and array1(ev.args[1])[0] == 'field' and array1(ev.args[1])[2] == '0' and not ev.guards),
    ]
    match_events(ctx, RE, f, 'next', evs, spec)
    st = [e for e in evs if e.kind() == 'write_all' and e.args and array1(e.args[1]) is not None and array1(e.args[1])[0] == 'field' and array1(e.args[1])[2] == '0']
    if st:
        v = array1(st[-1].args[1])[1]
        ok = v[0] == 'after' and is_call(v[1], 'set_common_input') and v[1][2][1][0] == 'param' and is_call(v[3], 'StateOneTransNext::new')
        ctx.check(R['state'], ok, 'next:state-byte', 'the one-trans-next state byte must be new() + common-input index of the input byte', fn=f)
