"""C03 — range streams return exactly the keys within the bounds, in order (structural part)."""
import itertools
from paths import explore
from sym import bool_fold, fmt, walk
from rules.common import path_calls, arg_loc, ret_kind
from rules import streams
from rules.streams import norm, is_call

LEVEL = 'other'
ROLES = ['lib']
EXPLANATION = ('Decides the structural clauses, not the correctness of the depth-first seek for all keys: R03.1 bound table of both raw '
               'stream builders (ge/gt/le/lt -> field, variant, plain overwrite) and argument order down to the constructor; R03.2 '
               'each of the 16 wrapper methods in map.rs/set.rs calls the same-named inner method; R03.3 truth table of the cut-off '
               'test over {<,=,>} x bound variant, is_inclusive, is_empty; R03.4 the three endgames of the seek (inclusive: step '
               'back + pop; exclusive: child frame at transition 0 with the output of the whole bound; divergence: first larger '
               'byte or past the end); R03.5 lock-step of DFS stack and key buffer on every path of one step, frame contents, '
               'emitted key/value, cut-off before emission; R03.6 empty key gating.')
TRUSTED = ['lexicographic order of byte slices as modelled by the ordering domain', 'Iterator::position / Option::unwrap_or semantics']
ASSUMPTIONS = []

RAW_BUILDERS = ["raw::StreamBuilder::<'f, A>", "raw::StreamWithStateBuilder::<'f, A>"]
WRAPPERS = ["inner_map::StreamBuilder::<'m, A>", "inner_map::StreamWithStateBuilder::<'m, A>", "inner_set::StreamBuilder::<'s, A>", "inner_set::StreamWithStateBuilder::<'s, A>"]
TABLE = {'ge': ('min', 'Included'), 'gt': ('min', 'Excluded'), 'le': ('max', 'Included'), 'lt': ('max', 'Excluded')}


def r03_1(ctx):
    R = ctx.rule('R03.1', 'bound table: ge/gt/le/lt write (min|max) := (Included|Excluded)(bound), last setting wins; (min, max) reach the constructor in order', floor=10)
    lib = ctx.lib
    for b in RAW_BUILDERS:
        for m, (field, variant) in TABLE.items():
            f = lib.fn('%s::%s' % (b, m))
            if f is None:
                ctx.missing(R, 'anchor:%s::%s' % (b, m), 'bound setter not found')
                continue
            for p in explore(f, max_visits=1):
                if p.end != 'return':
                    continue
                st = [(loc, s, k, i) for (k, i, loc, s) in p.stores() if loc[0] == 1]
                ok = False
                why = 'stores: %s' % [s[0] for s in st]
                if len(st) == 1 and st[0][0] == (1, field):
                    v = p.sym.rvalue_at(st[0][1]['rv'], (st[0][2], st[0][3]))
                    ok = v[0] == 'agg' and v[1] == 'raw::Bound::' + variant and any(x[0] == 'param' and x[2] == 2 for x in walk(v))
                    why = fmt(v)[:100]
                    rv = p.ret()
                    # the builder handed back is self with only that field replaced
                ctx.check(R, ok, 'setter', '%s must set %s := %s(bound) and nothing else (%s)' % (m, field, variant, why), fn=f)
        f = lib.fn('<%s as stream::IntoStreamer<\'a>>::into_stream' % b.replace("::<'f, A>", "<'f, A>"))
        if f is None:
            ctx.missing(R, 'anchor:into_stream:' + b, 'into_stream of %s not found' % b)
            continue
        for p in explore(f, max_visits=1):
            if p.end != 'return':
                continue
            rv = p.ret()
            ok = rv[0] == 'call' and len(rv[2]) == 4 and [a[2] if a[0] == 'field' else None for a in rv[2]] == ['fst', 'aut', 'min', 'max']
            ctx.check(R, ok, 'into_stream', 'the builder must hand (fst, aut, min, max) to the stream constructor in that order: %s' % fmt(rv)[:140], fn=f)
    # constructors
    for name in ["raw::Stream::<'f, A>::new", streams.NEW]:
        f = lib.fn(name)
        if f is None:
            ctx.missing(R, 'anchor:' + name, 'stream constructor not found')
            continue
        for p in explore(f, max_visits=1):
            if p.end != 'return':
                continue
            calls = path_calls(p)
            if name == streams.NEW:
                seek = [c for c in calls if c[2] == streams.SEEK]
                aggs = []
                for k, bid in enumerate(p.blocks):
                    for i, st in enumerate(f.blocks[bid]['stmts']):
                        if st['k'] == 'assign' and isinstance(st['rv'].get('agg'), dict) and st['rv']['agg'].get('adt') == 'raw::StreamWithState':
                            aggs.append(p.sym.rvalue_at(st['rv'], (k, i)))
                ok = len(seek) == 1 and seek[0][3][1] == ('param', f.local_name(3), 3) and len(aggs) == 1 and dict(aggs[0][2]).get('end_at') == ('param', f.local_name(4), 4)
                ctx.check(R, ok, 'ctor', 'the stream constructor must keep `max` as the cut-off and seek with `min`', fn=f)
            else:
                rv = p.ret()
                inner = [x for x in walk(rv) if is_call(x, streams.NEW.rsplit('::', 2)[-2] + '::new') or (x[0] == 'call' and x[1] == streams.NEW)]
                ok = bool(inner) and [a[2] if a[0] == 'param' else None for a in inner[0][2]] == [1, 2, 3, 4]
                ctx.check(R, ok, 'ctor-wrap', 'Stream::new must forward (fst, aut, min, max) unchanged', fn=f)


def r03_2(ctx):
    R = ctx.rule('R03.2', 'wrapper delegation: each map/set range-builder method calls the same-named inner method', floor=16)
    lib = ctx.lib
    for w in WRAPPERS:
        for m in TABLE:
            f = lib.fn('%s::%s' % (w, m))
            if f is None:
                ctx.missing(R, 'anchor:%s::%s' % (w, m), 'wrapper method not found')
                continue
            for p in explore(f, max_visits=1):
                if p.end != 'return':
                    continue
                rv = p.ret()
                inner = [x for x in walk(rv) if x[0] == 'call' and isinstance(x[1], str) and x[1].startswith('raw::Stream') and x[1].rsplit('::', 1)[-1] in TABLE]
                ok = len(inner) == 1 and inner[0][1].rsplit('::', 1)[-1] == m and inner[0][2][0] == ('field', ('param', f.local_name(1), 1), '0') and inner[0][2][1] == ('param', f.local_name(2), 2)
                ctx.check(R, ok, 'delegates', 'wrapper %s must call the inner builder\'s %s(bound): %s' % (m, m, fmt(rv)[:120]), fn=f)
    # wrapper into_stream
    for w in WRAPPERS:
        base = w.split("::<")[0]
        fs = [g for g in lib.fn_list if g.path.endswith('::into_stream') and g.impl and g.impl['self_ty'].startswith(base + '<')]
        for f in fs:
            for p in explore(f, max_visits=1):
                if p.end != 'return':
                    continue
                rv = p.ret()
                inner = [x for x in walk(rv) if x[0] == 'call' and isinstance(x[1], str) and x[1].endswith('::into_stream')]
                ok = len(inner) == 1 and inner[0][2][0] == ('field', ('param', f.local_name(1), 1), '0')
                ctx.check(R, ok, 'into_stream', 'wrapper into_stream must stream the inner builder', fn=f)


def bound_oracle(f, variant_idx, ordv, empty=None):
    def oracle(e, c):
        if e[0] == 'discr' and e[1][0] == 'param' and e[1][2] == 1:
            return variant_idx
        def ordering_of(x):
            # inp.cmp(v) / v.cmp(inp) / partial_cmp: the ordering of key vs bound in this case, as 'lt' / 'eq' / 'gt'
            while x[0] == 'call' and isinstance(x[1], str) and x[1].rsplit('::', 1)[-1] in ('unwrap', 'expect') and x[2]:
                x = x[2][0]
            if x[0] == 'call' and isinstance(x[1], str) and x[1].rsplit('::', 1)[-1] in ('cmp', 'partial_cmp') and len(x[2]) == 2:
                a_, b_ = x[2]
                ai = any(y[0] == 'param' and y[2] == 2 for y in walk(a_))
                bi = any(y[0] == 'param' and y[2] == 2 for y in walk(b_))
                if ai and not bi:
                    return ordv
                if bi and not ai:
                    return {'lt': 'gt', 'gt': 'lt', 'eq': 'eq'}[ordv]
            return None

        def variant_of(x):
            if x[0] == 'agg' and x[1].startswith('std::cmp::Ordering::'):
                return {'Less': 'lt', 'Equal': 'eq', 'Greater': 'gt'}.get(x[1].rsplit('::', 1)[-1])
            if x[0] == 'agg' and x[1].endswith('Option::Some') and x[2]:
                return variant_of(x[2][0][1])
            return None
        if e[0] == 'discr':
            o = ordering_of(e[1])
            if o is not None:
                return {'lt': 255, 'eq': 0, 'gt': 1}[o]       # discriminant of Ordering as the switch sees it (Less = -1i8)
        if e[0] == 'call' and isinstance(e[1], str):
            m = e[1].rsplit('::', 1)[-1]
            if m in ('eq', 'ne') and len(e[2]) == 2:
                for x, y in (e[2], e[2][::-1]):
                    o, v = ordering_of(x), variant_of(y)
                    if o is not None and v is not None:
                        return int((o == v) == (m == 'eq'))
            if m in ('is_gt', 'is_ge', 'is_lt', 'is_le', 'is_eq', 'is_ne') and e[2]:
                o = ordering_of(e[2][0])
                if o is not None:
                    return int({'is_gt': o == 'gt', 'is_ge': o != 'lt', 'is_lt': o == 'lt', 'is_le': o != 'gt', 'is_eq': o == 'eq', 'is_ne': o != 'eq'}[m])
            if m in ('gt', 'ge', 'lt', 'le', 'eq', 'ne') and len(e[2]) == 2:
                a, b = e[2]
                a_inp = any(x[0] == 'param' and x[2] == 2 for x in walk(a))
                b_inp = any(x[0] == 'param' and x[2] == 2 for x in walk(b))
                if a_inp and not b_inp:
                    o = ordv
                elif b_inp and not a_inp:
                    o = {'lt': 'gt', 'gt': 'lt', 'eq': 'eq'}[ordv]
                else:
                    return None
                return int({'gt': o == 'gt', 'ge': o in ('gt', 'eq'), 'lt': o == 'lt', 'le': o in ('lt', 'eq'), 'eq': o == 'eq', 'ne': o != 'eq'}[m])
            if m == 'is_empty' and empty is not None:
                return empty
        return None
    return oracle


def r03_3(ctx):
    R = ctx.rule('R03.3', 'cut-off ordering table: exceeded_by = (inp > v | inp >= v | never); is_inclusive; is_empty', floor=9 + 3 + 5)
    lib = ctx.lib
    a = lib.adts.get('raw::Bound')
    if not a:
        ctx.missing(R, 'anchor:Bound', 'Bound type not found')
        return
    vi = {v['name']: i for i, v in enumerate(a['variants'])}
    f = lib.fn('raw::Bound::exceeded_by')
    if f is None:
        ctx.missing(R, 'anchor:exceeded_by', 'exceeded_by not found')
        return
    for vname, ordv in itertools.product(('Included', 'Excluded', 'Unbounded'), ('lt', 'eq', 'gt')):
        want = {'Included': ordv == 'gt', 'Excluded': ordv in ('gt', 'eq'), 'Unbounded': False}[vname]
        outs = set()
        forks = 0
        len_forks = 0
        orc0 = bound_oracle(f, vi[vname], ordv)

        def is_len_cmp(e):
            # a comparison of the LENGTHS of the key and the bound: says nothing about their order unless they are equal
            return e[0] == 'bin' and e[1] in ('Lt', 'Le', 'Gt', 'Ge', 'Eq', 'Ne') and all(is_call(x, '::len') for x in (e[2], e[3]))

        def orc(e, c, _o=orc0, _ordv=ordv):
            r = _o(e, c)
            if r is None and is_len_cmp(e) and _ordv == 'eq':
                return int({'Lt': False, 'Le': True, 'Gt': False, 'Ge': True, 'Eq': True, 'Ne': False}[e[1]])     # equal strings have equal lengths
            return r
        for p in explore(f, oracle=orc, max_visits=1):
            if p.end == 'return':
                rv = p.ret()
                neg = False
                while rv[0] == 'un' and rv[1] == 'Not':          # `!inclusive` with the flag fixed by the variant
                    rv, neg = rv[2], not neg
                if rv[0] != 'const':
                    v = orc(rv, None)      # a comparison returned directly
                    rv = ('const', v) if v is not None else rv
                if neg and rv[0] == 'const' and rv[1] in (0, 1):
                    rv = ('const', 1 - rv[1])
                elif neg:
                    rv = ('un', 'Not', rv)
                outs.add(rv[1] if rv[0] == 'const' else fmt(rv)[:40])
                fk = [d for d in p.decisions if d[4] == 'fork']
                len_forks += sum(1 for d in fk if is_len_cmp(d[2]))
                forks += sum(1 for d in fk if not is_len_cmp(d[2]))
        if not forks and len_forks and vname != 'Unbounded' and outs != {int(want)}:
            # both outcomes of a length comparison occur among keys that are < (or >) the bound ("b" > "abc", "abc" > "ab")
            ctx.violation(R, 'exceeded_by:%s,key%sbound' % (vname, {'lt': '<', 'eq': '=', 'gt': '>'}[ordv]),
                          'exceeded_by for %s bound with key %s bound depends on the LENGTHS of key and bound (results %s, contract %s): a shorter key that sorts after the bound is not cut off' % (vname, ordv, sorted(outs, key=str), want), fn=f)
        elif forks:
            ctx.undecided(R, 'exceeded_by:%s,key%sbound' % (vname, ordv), 'the cut-off test branches on something outside the ordering domain', fn=f)
        else:
            ctx.check(R, outs == {int(want)}, 'exceeded_by:%s,key%sbound' % (vname, {'lt': '<', 'eq': '=', 'gt': '>'}[ordv]),
                      'exceeded_by for %s bound with key %s bound yields %s, contract %s' % (vname, ordv, sorted(outs), want), fn=f)
    g = lib.fn('raw::Bound::is_inclusive')
    if g is None:
        ctx.missing(R, 'anchor:is_inclusive', 'Bound::is_inclusive not found (the bound helpers were redesigned)')
    for vname in (('Included', 'Excluded', 'Unbounded') if g is not None else ()):
        outs = {bool_fold(p.ret())[1] if bool_fold(p.ret())[0] == 'const' else None for p in explore(g, oracle=bound_oracle(g, vi[vname], 'eq'), max_visits=1) if p.end == 'return'} if g else set()
        ctx.check(R, outs == {int(vname != 'Excluded')}, 'is_inclusive:' + vname, 'is_inclusive(%s) = %s' % (vname, sorted(outs, key=str)), fn=g)
    h = lib.fn('raw::Bound::is_empty')
    if h is None:
        ctx.missing(R, 'anchor:is_empty', 'Bound::is_empty not found (the bound helpers were redesigned)')
    for vname, emp in ((('Included', 0), ('Included', 1), ('Excluded', 0), ('Excluded', 1), ('Unbounded', 0)) if h is not None else ()):
        outs = set()
        for p in explore(h, oracle=bound_oracle(h, vi[vname], 'eq', empty=emp), max_visits=1) if h else []:
            if p.end == 'return':
                rv = p.ret()
                outs.add(rv[1] if rv[0] == 'const' else ('call' if is_call(rv, 'is_empty') else None))
        want = 1 if vname == 'Unbounded' else emp
        ok = outs == {want} or (vname != 'Unbounded' and outs == {'call'})
        ctx.check(R, ok, 'is_empty:%s,%s' % (vname, 'empty' if emp else 'non-empty'), 'is_empty(%s with %s key) = %s' % (vname, 'empty' if emp else 'non-empty', sorted(outs, key=str)), fn=h)


def r03_7(ctx):
    """the convenience collectors drain the stream and keep one entry per item; the map / set wrappers delegate to the raw one of the
    matching kind (keys+values / keys / values)"""
    R = ctx.rule('R03.7', 'collectors (into_byte_vec, into_str_keys, ...): one entry per streamed item, taken from that item; wrappers delegate to their counterpart', floor=10)
    lib = ctx.lib
    want = {'into_byte_vec': ('key', 'value'), 'into_str_vec': ('key', 'value'), 'into_byte_keys': ('key',), 'into_str_keys': ('key',), 'into_values': ('value',)}
    deleg = {'into_byte_vec': 'into_byte_vec', 'into_str_vec': 'into_str_vec', 'into_byte_keys': 'into_byte_keys', 'into_str_keys': 'into_str_keys', 'into_values': 'into_values',
             'into_strs': 'into_str_keys', 'into_bytes': 'into_byte_keys'}
    for f in lib.fn_list:
        n = f.path.rsplit('::', 1)[-1]
        if n not in deleg or f.kind == 'Closure' or 'Stream' not in f.path:
            continue
        if not f.loops():
            cs = [f.callee(t) or '' for _, t in f.calls()]
            tg = [c for c in cs if c.rsplit('::', 1)[-1] in deleg and c.startswith('raw::Stream')]
            if tg:
                ctx.check(R, [c.rsplit('::', 1)[-1] for c in tg] == [deleg[n]], 'delegates:' + f.path, '%s must delegate to the raw %s (found %s)' % (n, deleg[n], [c.rsplit('::', 1)[-1] for c in tg]), fn=f)
            else:
                ctx.undecided(R, 'delegates:' + f.path, 'collector without a loop and without a recognised delegation', fn=f)
            continue
        if n not in want:
            continue
        k = 0
        for p in explore(f, max_visits=1, havoc=True, limit=400):
            if p.end != 'cut':
                continue
            calls = path_calls(p, expand=False)
            nx = [c for c in calls if isinstance(c[2], str) and c[2].endswith('::next')]
            if not nx:
                continue
            k += 1
            pushes = [c for c in calls if isinstance(c[2], str) and c[2].endswith('::push')]
            if len(pushes) != 1:
                ctx.violation(R, 'collect:' + f.path, 'an iteration of %s keeps %d entries for one streamed item (exactly one expected): items are dropped or duplicated' % (n, len(pushes)), fn=f)
                continue
            v = pushes[0][3][1]
            item = lambda x: any(is_call(y, '::next') for y in walk(x))
            # a shared private helper `collect_with(|k, v| ..)`: the entry is what the collector's own closure makes of (key, output)
            cm = [y for y in walk(v) if y[0] == 'call' and isinstance(y[1], str) and y[1].rsplit('::', 1)[-1] in ('call_mut', 'call', 'call_once') and len(y[2]) == 2]
            kids = [g_ for g_ in lib.fn_list if g_.kind == 'Closure' and g_.path.startswith(f.path + '::{closure')]
            if cm and len(kids) == 1 and cm[0][2][1][0] == 'tuple' and len(cm[0][2][1][1]) == 2 and all(item(x) for x in cm[0][2][1][1]):
                from sym import subst
                kargs = cm[0][2][1][1]
                if any(is_call(y, 'Output::value') for y in walk(kargs[0])) or any(is_call(y, 'Output::value') for y in walk(kargs[1])):
                    ctx.undecided(R, 'collect:' + f.path, 'the collecting closure is handed a converted item', fn=f)
                    continue
                rr = [q.ret() for q in explore(kids[0], max_visits=1) if q.end == 'return' and not (q.ret()[0] == 'agg' and q.ret()[1].endswith('::Err'))]
                if len(rr) != 1:
                    ctx.undecided(R, 'collect:' + f.path, 'the collecting closure has several outcomes', fn=f)
                    continue
                r0 = rr[0]
                while r0[0] == 'agg' and r0[1].endswith('Result::Ok') and r0[2]:
                    r0 = r0[2][0][1]
                v = subst(r0, {2: kargs[0], 3: kargs[1]})
            parts = v[1] if v[0] == 'tuple' else (v,)
            ok = len(parts) == len(want[n]) and all(item(x) for x in parts)
            if ok and want[n] == ('key', 'value'):
                ok = not any(is_call(y, 'Output::value') for y in walk(parts[0])) and any(is_call(y, 'Output::value') for y in walk(parts[1]))
            elif ok and want[n] == ('value',):
                ok = any(is_call(y, 'Output::value') for y in walk(parts[0]))
            elif ok:
                ok = not any(is_call(y, 'Output::value') for y in walk(parts[0]))
            ctx.check(R, ok, 'collect:' + f.path, '%s must keep (%s) of the item just streamed: %s' % (n, ', '.join(want[n]), fmt(v)[:80]), fn=f)
            if 'str' in n and want[n][0] == 'key':
                # the string collectors hand back the key itself or fail: a lossy decoder rewrites keys that are not UTF-8 into keys that
                # were never inserted (and makes distinct keys collide)
                lossy = [y for y in walk(parts[0]) if y[0] == 'call' and isinstance(y[1], str) and ('from_utf8_lossy' in y[1] or 'from_utf8_unchecked' in y[1])]
                ctx.check(R, not lossy, 'lossless:' + f.path, '%s decodes the key with %s: keys that are not valid UTF-8 come back altered (or as invalid strings) instead of as an error' % (
                    n, lossy[0][1].rsplit('::', 1)[-1] if lossy else ''), fn=f)
        if k == 0:
            ctx.undecided(R, 'collect:' + f.path, 'no draining iteration recognised', fn=f)


def run(ctx):
    ctx.step(r03_1, ctx)
    ctx.step(r03_2, ctx)
    ctx.step(r03_3, ctx)
    ctx.step(r03_7, ctx)
    R34 = ctx.rule('R03.4', 'seek endgames: inclusive steps back one transition and pops one key byte; exclusive pushes the child frame at transition 0 with the whole bound\'s output; divergence resumes at the first larger byte', floor=5)
    R35 = ctx.rule('R03.5', 'DFS step: stack and key buffer move in lock step on every path; frame contents, emitted key/value and cut-off placement', floor=8)
    R36 = ctx.rule('R03.6', 'empty key: armed iff the lower bound is empty and inclusive; emitted only after the cut-off test on the empty string', floor=4)
    ctx.step(streams.seek_rules, ctx, None, None, R34, R36, want_c03=True, want_c04=False, R35s=R35)
    ctx.step(streams.next_rules, ctx, None, None, None, None, None, R35, R36, want_c03=True, want_c04=False)
