"""Rules about the command line front end (crate `fst`, fst-bin) shared by several properties."""
from paths import explore
from sym import fmt, walk
from rules.common import path_calls
from rules.streams import is_call


def fresh_sinks(ctx, R):
    """Every file the CLI opens for WRITING starts empty: `File::create`, or OpenOptions with truncate(true) / create_new(true).
    An output opened with write(true) alone keeps the tail (old nodes, old footer, old checksum) of a longer file that was there
    before (`--force`): the result is not an FST in the documented format."""
    b = ctx.bin
    if b is None:
        ctx.missing(R, 'anchor:bin', 'the command line crate was not analysed')
        return
    n = 0
    for f in b.fn_list:
        if f.from_expansion:
            continue
        sites = [(bid, t) for bid, t in f.calls() if (f.callee(t) or '').endswith('fs::OpenOptions::open') or (f.callee(t) or '').endswith('fs::File::create') or (f.callee(t) or '').endswith('fs::File::create_new')]
        if not sites:
            continue
        seen = set()
        for p in explore(f, max_visits=1, havoc=True, limit=400):
            for (k, bid, callee, args, t) in path_calls(p, expand=False):
                if not isinstance(callee, str) or bid in seen:
                    continue
                if callee.endswith('fs::File::create') or callee.endswith('fs::File::create_new'):
                    seen.add(bid)
                    n += 1
                    ctx.ok(R, 'sink:%s' % f.path, None, fn=f)
                elif callee.endswith('fs::OpenOptions::open'):
                    seen.add(bid)
                    opts = {}
                    for x in walk(args[0]):
                        if x[0] == 'call' and isinstance(x[1], str) and 'fs::OpenOptions::' in x[1] and len(x[2]) == 2:
                            m = x[1].rsplit('::', 1)[-1]
                            v = x[2][1]
                            opts[m] = v[1] if v[0] == 'const' else None
                    writes = opts.get('write') or opts.get('append')
                    if not writes and not opts.get('create') and not opts.get('create_new'):
                        continue        # opened for reading
                    n += 1
                    fresh = opts.get('truncate') == 1 or opts.get('create_new') == 1
                    if any(v is None for v in opts.values()):
                        ctx.undecided(R, 'sink:%s' % f.path, 'an output file is opened with options that are not literals: %s' % opts, fn=f, at=t.get('span'))
                    else:
                        ctx.check(R, fresh, 'sink:%s' % f.path, 'an output file is opened for writing without truncation (%s): if a longer file exists (`--force`) its tail stays behind the new FST and the result is not in the documented format' % sorted(k for k, v in opts.items() if v), fn=f, at=t.get('span'))
    if n == 0:
        ctx.undecided(R, 'sinks', 'no output file creation found in the command line crate', fn=None)
