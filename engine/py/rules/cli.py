"""Rules about the command line front end (crate `fst`, fst-bin) shared by several properties."""
from paths import explore
from sym import fmt, walk
from rules.common import path_calls
from rules.streams import is_call, norm


def fresh_sinks(ctx, R):
    """Every file the CLI opens for WRITING starts empty: `File::create`, or OpenOptions with truncate(true) / create_new(true).
    An output opened with write(true) alone keeps the tail (old nodes, old footer, old checksum) of a longer file that was there
    before (`--force`): the result is not an FST in the documented format."""
    b = ctx.bin
    if b is None:
        ctx.missing(R, 'anchor:bin', 'the command line crate was not analysed')
        return
    n = 0
    for f in b.fn_list:
        if f.from_expansion:
            continue
        sites = [(bid, t) for bid, t in f.calls() if (f.callee(t) or '').endswith('fs::OpenOptions::open') or (f.callee(t) or '').endswith('fs::File::create') or (f.callee(t) or '').endswith('fs::File::create_new')]
        if not sites:
            continue
        seen = set()
        for p in explore(f, max_visits=1, havoc=True, limit=400):
            for (k, bid, callee, args, t) in path_calls(p, expand=False):
                if not isinstance(callee, str) or bid in seen:
                    continue
                if callee.endswith('fs::File::create') or callee.endswith('fs::File::create_new'):
                    seen.add(bid)
                    n += 1
                    ctx.ok(R, 'sink:%s' % f.path, None, fn=f)
                elif callee.endswith('fs::OpenOptions::open'):
                    seen.add(bid)
                    opts = {}
                    for x in walk(args[0]):
                        if x[0] == 'call' and isinstance(x[1], str) and 'fs::OpenOptions::' in x[1] and len(x[2]) == 2:
                            m = x[1].rsplit('::', 1)[-1]
                            v = x[2][1]
                            opts[m] = v[1] if v[0] == 'const' else None
                    writes = opts.get('write') or opts.get('append')
                    if not writes and not opts.get('create') and not opts.get('create_new'):
                        continue        # opened for reading
                    n += 1
                    fresh = opts.get('truncate') == 1 or opts.get('create_new') == 1
                    if any(v is None for v in opts.values()):
                        ctx.undecided(R, 'sink:%s' % f.path, 'an output file is opened with options that are not literals: %s' % opts, fn=f, at=t.get('span'))
                    else:
                        ctx.check(R, fresh, 'sink:%s' % f.path, 'an output file is opened for writing without truncation (%s): if a longer file exists (`--force`) its tail stays behind the new FST and the result is not in the documented format' % sorted(k for k, v in opts.items() if v), fn=f, at=t.get('span'))
    if n == 0:
        ctx.undecided(R, 'sinks', 'no output file creation found in the command line crate', fn=None)


IGNORED_USES = ('::next', 'Try>::branch', 'Try::branch', 'from_residual', 'drop_in_place', 'mem::drop', 'IntoIterator>::into_iter', 'IntoIterator::into_iter')


def loop_items(f):
    """(headers whose item is handed on, headers with an iteration that drops its item, iterations looked at) for the loops of f that
    draw items from an iterator / stream (`next()` ... Some(item)); counting loops over integer ranges are skipped"""
    from rules import layout
    loops = f.loops()
    ok, bad, n = set(), set(), 0
    if not loops:
        return ok, bad, n
    for p in explore(f, max_visits=1, havoc=True, limit=3000):
        if p.end != 'cut':
            continue
        h = p.blocks[-1]
        src = layout.iter_source(f, h)
        if src is not None and any(x[0] == 'agg' and (x[1].endswith('ops::Range') or x[1].endswith('ops::RangeInclusive') or x[1].endswith('ops::RangeFrom')) for x in walk(src[2])):
            continue
        body = loops.get(h, set())
        nx = [d for d in p.cdecisions() if d[2][0] == 'discr' and is_call(d[2][1], '::next') and d[3] == 1 and d[1] in body]
        if not nx:
            continue
        k_n = nx[-1][0]
        item = norm(nx[-1][2][1])
        used = False
        for (k, bid, callee, args, t) in path_calls(p, expand=False):
            if k <= k_n or not isinstance(callee, str) or callee.endswith(IGNORED_USES):
                continue
            if any(norm(x) == item for a in args for x in walk(a) if x[0] == 'call'):
                used = True
                break
        if not used:
            for (k, i, loc, st) in p.stores():
                if k > k_n:
                    v = p.sym.rvalue_at(st['rv'], (k, i))
                    if any(norm(x) == item for x in walk(v) if x[0] == 'call'):
                        used = True
                        break
        n += 1
        (ok if used else bad).add(h)
    return ok, bad, n


def params_handed_on(f):
    """by-value parameters (index >= 2 for methods, >= 1 for associated functions) that some returning path never hands to any call:
    [(param index, name)]"""
    out = []
    first = 2 if f.arg_count >= 1 and ('self' == (f.local_name(1) or '')) else 1
    for i in range(first, f.arg_count + 1):
        par = ('param', f.local_name(i), i)
        dropped = False
        for p in explore(f, max_visits=1, havoc=True, limit=500):
            if p.end != 'return':
                continue
            used = any(isinstance(c[2], str) and not c[2].endswith(('drop_in_place', 'mem::drop')) and any(x == par for a in c[3] for x in walk(a)) for c in path_calls(p, expand=False))
            if not used:
                dropped = True
        if dropped:
            out.append((i, f.local_name(i)))
    return out


def taken_reaches(f, take_pred, sink_pred, limit=3000):
    """for every path (ending in a loop back-edge or a return) on which a value was TAKEN from a source (decision `discr(take call)` with
    outcome Some), is there a later call satisfying sink_pred?  returns (n paths with a taken value, [paths where it reaches no sink])"""
    n, bad = 0, []
    for p in explore(f, max_visits=1, havoc=True, limit=limit):
        if p.end not in ('cut', 'return'):
            continue
        tk = [d for d in p.cdecisions() if d[2][0] == 'discr' and d[3] == 1 and d[2][1][0] == 'call' and take_pred(d[2][1])]
        if not tk:
            continue
        k0 = tk[-1][0]
        n += 1
        if not any(c[0] > k0 and sink_pred(c) for c in path_calls(p, expand=False)):
            bad.append(p)
    return n, bad


def flag_names(ctx, R, f, adt_suffix='::Args'):
    """command line options are read under their own name: field `min` from is_present("min"), `batch_size` from "batch-size" ...
    (fields of nested option structs are compared with their own names)"""
    READS = ('is_present', 'value_of', 'value_of_lossy', 'value_of_os', 'values_of', 'values_of_os', 'values_of_lossy')
    n = [0]

    def reads(v):
        """option names read in v, not looking inside nested struct literals"""
        out = []
        stack = [v]
        while stack:
            y = stack.pop()
            if not isinstance(y, tuple):
                continue
            if y[0] == 'agg' and not y[1].startswith(('std::option::Option', 'std::result::Result')) and y is not v:
                continue
            if y[0] == 'call' and isinstance(y[1], str) and y[1].rsplit('::', 1)[-1] in READS and len(y[2]) == 2 and y[2][1][0] == 'cbytes':
                try:
                    out.append(bytes.fromhex(y[2][1][1]).decode())
                except (ValueError, UnicodeDecodeError):
                    pass
            if y[0] == 'agg':
                stack.extend(x for _, x in y[2])
            elif y[0] == 'call':
                stack.extend(y[2])
            elif y[0] in ('field', 'variant', 'okof', 'cast', 'discr'):
                stack.append(y[1])
            elif y[0] == 'un':
                stack.append(y[2])
            elif y[0] == 'bin':
                stack.extend([y[2], y[3]])
            elif y[0] == 'after':
                stack.extend([y[1], y[3]])
            elif y[0] in ('tuple', 'array'):
                stack.extend(y[1])
        return out

    def scan(agg):
        for fname, v in agg[2]:
            inner = v
            while inner[0] in ('okof', 'cast') or (inner[0] == 'agg' and inner[1].startswith(('std::option::Option::Some', 'std::result::Result::Ok')) and inner[2]):
                inner = inner[1] if inner[0] in ('okof', 'cast') else inner[2][0][1]
            if inner[0] == 'agg' and not inner[1].startswith('std::'):
                scan(inner)            # a nested struct of options: its own field names count
                continue
            for opt in reads(v):
                n[0] += 1
                ctx.check(R, opt.replace('-', '_') == fname, 'flag:%s.%s' % (f.path, fname), 'the field `%s` of the command\'s arguments is read from the option "%s": the user\'s --%s is ignored and --%s acts in its place' % (fname, opt, fname.replace('_', '-'), opt), fn=f)
    for p in explore(f, max_visits=1, havoc=True, limit=50):
        if p.end != 'return':
            continue
        for x in walk(p.ret()):
            if x[0] == 'agg' and x[1].endswith(adt_suffix):
                scan(x)
                break
        break
    return n[0]


def builders_finished(ctx, R):
    """every FST builder the CLI creates is finished (footer + checksum written) on the paths that report success"""
    from rules.common import ret_kind
    b = ctx.bin
    if b is None:
        return
    n = 0
    for f in b.fn_list:
        if f.from_expansion or not any((f.callee(t) or '').endswith(('Builder::<W>::new', 'Builder::<W>::new_type')) for _, t in f.calls()):
            continue
        bad = False
        for p in explore(f, max_visits=1, havoc=True, limit=3000):
            if p.end != 'return' or ret_kind(p.ret()) != 'ok':
                continue
            cs = path_calls(p, expand=False)
            news = [c for c in cs if isinstance(c[2], str) and c[2].endswith(('Builder::<W>::new', 'Builder::<W>::new_type'))]
            fins = [c for c in cs if isinstance(c[2], str) and c[2].endswith(('Builder::<W>::finish', 'Builder::<W>::into_inner'))]
            if news:
                n += 1
                if not fins or fins[-1][0] < news[-1][0]:
                    bad = True
        ctx.check(R, not bad, 'finished:' + f.path, '%s creates an FST builder and reports success on a path that never finishes it: the output has no footer / checksum and is not an FST' % f.path.rsplit('::', 1)[-1], fn=f)
    if n == 0:
        ctx.undecided(R, 'finished', 'no builder creation followed to a successful return in the command line crate')
