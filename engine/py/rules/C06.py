"""C06 — builders enforce the ordering contract; rejected inserts leave no trace."""
import itertools
from paths import explore
from sym import fmt, walk
from callgraph import CallGraph
from rules.common import adt_base, Anchors, path_calls, ret_kind, arg_locs, arg_loc
import rules.C11 as C11
from rules.streams import is_call
import stdmodel as SM

LEVEL = 'proof'
ROLES = ['lib']
EXPLANATION = ('Reduction (DESIGN.md C06): the reaction of a builder to one call is a function of (ordering of the key against the '
               'last accepted key, whether a key was accepted before, map/set mode). R06.1 enumerates all 12 abstract cases of the '
               'ordering check by abstract execution of its MIR and compares outcome and error variant with the contract table; '
               'R06.2 checks payload provenance; R06.3 that no builder state is written on a path to Err, that on Ok the remembered '
               'key becomes the offered one, and that insertion is reached only behind the check\'s Ok edge; R06.4 that every front '
               'end propagates the per-item error unchanged and stops; R06.5 that set front ends reach the set entry point and map '
               'front ends the map entry point with the matching duplicate mode; R06.6 that a repeated key in a set changes nothing. '
               'The statement about all call histories follows by induction on the number of calls.')
TRUSTED = ['semantics of PartialEq/PartialOrd/Ord on byte slices (lexicographic) as modelled by the ordering domain {<,=,>}']
ASSUMPTIONS = ['"the finished FST contains exactly the accepted keys" additionally needs the undecided part of C01 (inherited)']

CMP_METHODS = {'eq', 'ne', 'lt', 'le', 'gt', 'ge', 'cmp', 'partial_cmp'}
SET_FRONTS = ['inner_set::SetBuilder::<W>::insert', 'inner_set::SetBuilder::<W>::extend_iter', 'inner_set::SetBuilder::<W>::extend_stream',
              'inner_set::Set::<std::vec::Vec<u8>>::from_iter', 'raw::Fst::<std::vec::Vec<u8>>::from_iter_set']
MAP_FRONTS = ['inner_map::MapBuilder::<W>::insert', 'inner_map::MapBuilder::<W>::extend_iter', 'inner_map::MapBuilder::<W>::extend_stream',
              'inner_map::Map::<std::vec::Vec<u8>>::from_iter', 'raw::Fst::<std::vec::Vec<u8>>::from_iter_map']
RAW_FRONTS = ['raw::build::Builder::<W>::add', 'raw::build::Builder::<W>::insert', 'raw::build::Builder::<W>::extend_iter', 'raw::build::Builder::<W>::extend_stream']


def find_check_fn(ctx, A, R):
    """the function both single-insert entry points call first, taking (self, key, bool)"""
    lib = ctx.lib
    add = lib.fn(A.builder + '::<W>::add')
    ins = lib.fn(A.builder + '::<W>::insert')
    if add is None or ins is None:
        ctx.missing(R, 'anchor:add/insert', 'raw builder add/insert not found')
        return None, None, None

    def first_local_call(f):
        for p in explore(f, max_visits=1):
            for (k, bid, callee, args, t) in path_calls(p):
                if callee in lib.fns and lib.fns[callee].impl and adt_base(lib.fns[callee].impl['self_ty']) == A.builder:
                    return callee
        return None
    ca, ci = first_local_call(add), first_local_call(ins)
    if ca is None or ca != ci:
        ctx.missing(R, 'anchor:check-fn', 'add and insert do not start with the same builder-local call (%s / %s)' % (ca, ci))
        return None, add, ins
    return lib.fns[ca], add, ins


def last_field(lib, A):
    for f in lib.adts[A.builder]['variants'][0]['fields']:
        if f['ty'].startswith('std::option::Option<std::vec::Vec<u8'):
            return f['name']
    return None


def mentions_param(e, idx):
    return any(x[0] == 'param' and x[2] == idx for x in walk(e))


def mentions_field(e, name):
    return any(x[0] == 'field' and x[2] == name for x in walk(e))


def make_oracle(chk, lastf, case):
    """case = (has_last 0/1, dupe 0/1, ord in 'lt','eq','gt')"""
    has_last, dupe, ordv = case
    bool_ix = [i for i in range(1, chk.arg_count + 1) if chk.local_ty(i) == 'bool']
    key_ix = [i for i in range(1, chk.arg_count + 1) if 'u8' in chk.local_ty(i) and chk.local_ty(i).startswith('&')]

    def oracle(e, c):
        if e[0] == 'discr':
            x = e[1]
            # `self.last.as_mut()` / `.as_ref()` / `.as_deref()` is Some exactly when self.last is
            while x[0] == 'call' and isinstance(x[1], str) and x[1].startswith('std::option::Option::<') and x[1].rsplit('::', 1)[-1] in ('as_mut', 'as_ref', 'as_deref', 'as_deref_mut') and x[2]:
                x = x[2][0]
            if x[0] == 'field' and x[2] == lastf and x[1][0] == 'param':
                return has_last
            # `match key.cmp(last) { Less => .., Equal => .., Greater => .. }`: the discriminant of the Ordering (Less = -1i8 = 255)
            if x[0] == 'call' and isinstance(x[1], str) and x[1].rsplit('::', 1)[-1] in ('cmp', 'partial_cmp') and len(x[2]) == 2 and ('cmp' in x[1]):
                a, b = x[2]
                a_key = any(mentions_param(a, i) for i in key_ix) and not mentions_field(a, lastf)
                b_key = any(mentions_param(b, i) for i in key_ix) and not mentions_field(b, lastf)
                a_last, b_last = mentions_field(a, lastf), mentions_field(b, lastf)
                o = None
                if a_key and b_last and not b_key:
                    o = ordv
                elif b_key and a_last and not a_key:
                    o = {'lt': 'gt', 'gt': 'lt', 'eq': 'eq'}[ordv]
                if o is not None and x[1].rsplit('::', 1)[-1] == 'cmp':
                    return {'lt': 255, 'eq': 0, 'gt': 1}[o]
            return None
        if e[0] == 'param' and bool_ix and e[2] == bool_ix[0]:
            return dupe
        if e[0] == 'un' and e[1] == 'Not':
            v = oracle(e[2], c)
            return None if v is None else 1 - v
        if e[0] == 'call' and isinstance(e[1], str):
            m = e[1].rsplit('::', 1)[-1]
            if m in CMP_METHODS and len(e[2]) == 2 and ('cmp' in e[1] or 'PartialEq' in e[1] or 'PartialOrd' in e[1]):
                a, b = e[2]
                a_key = any(mentions_param(a, i) for i in key_ix) and not mentions_field(a, lastf)
                b_key = any(mentions_param(b, i) for i in key_ix) and not mentions_field(b, lastf)
                a_last, b_last = mentions_field(a, lastf), mentions_field(b, lastf)
                if a_key and b_last and not b_key:
                    o = ordv
                elif b_key and a_last and not a_key:
                    o = {'lt': 'gt', 'gt': 'lt', 'eq': 'eq'}[ordv]
                else:
                    return None
                if m == 'eq':
                    return int(o == 'eq')
                if m == 'ne':
                    return int(o != 'eq')
                if m == 'lt':
                    return int(o == 'lt')
                if m == 'le':
                    return int(o in ('lt', 'eq'))
                if m == 'gt':
                    return int(o == 'gt')
                if m == 'ge':
                    return int(o in ('gt', 'eq'))
            return None
        if e[0] == 'discr' or e[0] == 'cast':
            return None
        return None
    return oracle


def err_variant(e):
    for x in walk(e):
        if x[0] == 'agg' and x[1].startswith('raw::error::Error::'):
            return x[1].rsplit('::', 1)[-1], dict(x[2])
    return None, None


def r06_1_2_3(ctx, A, chk, lastf):
    R1 = ctx.rule('R06.1', 'accept/reject table of the ordering check over {<,=,>} x {dupe-check} x {first key}', floor=12)
    R2 = ctx.rule('R06.2', 'error payloads: got <- offered key, previous <- last accepted key', floor=2)
    R3 = ctx.rule('R06.3', 'check-before-mutate: nothing written on a path to Err; on Ok the remembered key becomes the offered key; insertion only behind the Ok edge', floor=6)
    key_ix = [i for i in range(1, chk.arg_count + 1) if 'u8' in chk.local_ty(i) and chk.local_ty(i).startswith('&')]
    if len(key_ix) != 1:
        ctx.missing(R1, 'anchor:key-param', 'the ordering check does not take exactly one byte-slice parameter')
        return
    kx = key_ix[0]
    from absint import Prover
    _pv = Prover(ctx.lib)
    pv_inline = _pv.inline          # private single-path helpers (error_key(bs)) read as their bodies
    for case in itertools.product((0, 1), (0, 1), ('lt', 'eq', 'gt')):
        has_last, dupe, ordv = case
        name = 'last=%s,dupe_check=%s,key%slast' % ('Some' if has_last else 'None', bool(dupe), {'lt': '<', 'eq': '=', 'gt': '>'}[ordv])
        if not has_last:
            expect = 'ok'
        elif dupe and ordv == 'eq':
            expect = 'DuplicateKey'
        elif ordv == 'lt':
            expect = 'OutOfOrder'
        else:
            expect = 'ok'
        paths = [p for p in explore(chk, oracle=make_oracle(chk, lastf, case), max_visits=2, limit=400) if p.end == 'return']
        undec = [d for p in paths for d in p.decisions if d[4] == 'fork' and not is_loop_fork(d[2])]
        outcomes = set()
        detail = []
        for p in paths:
            rv = p.ret()
            rk = ret_kind(rv)
            if rk == 'ok':
                outcomes.add('ok')
            elif rk == 'err':
                v, fields = err_variant(rv)
                outcomes.add(v or 'err?')
                # the payload is the WHOLE key: a slice, a prefix or a capped copy no longer identifies the offending key
                for fld_, g_ in sorted(fields.items()):
                    if v in ('DuplicateKey', 'OutOfOrder') and g_ is not None:
                        g_i = pv_inline(g_) if pv_inline else g_
                        part = [x for x in walk(g_i) if (x[0] == 'call' and isinstance(x[1], str) and (
                            (x[1].endswith('::index') and len(x[2]) == 2 and x[2][1][0] == 'agg' and 'ops::Range' in x[2][1][1] and not x[2][1][1].endswith('RangeFull')) or
                            x[1].rsplit('::', 1)[-1] in ('split_at', 'truncate', 'take', 'get', 'first', 'last', 'split_first', 'split_last', 'chunks', 'trim_ascii')))]
                        if part:
                            ctx.violation(R2, '%s.%s:part' % (v, fld_), '%s.%s carries only a part of the key (%s): the error no longer says which key was rejected' % (v, fld_, part[0][1].rsplit('::', 1)[-1]), fn=chk, detail=fmt(g_i)[:160])
                if v == 'DuplicateKey':
                    g = fields.get('got')
                    ctx.check(R2, g is not None and mentions_param(g, kx) and not mentions_field(g, lastf), 'DuplicateKey.got', 'DuplicateKey carries %s instead of the offered key' % fmt(g)[:100], fn=chk, detail=fmt(g)[:120])
                elif v == 'OutOfOrder':
                    g, pr = fields.get('got'), fields.get('previous')
                    ctx.check(R2, g is not None and mentions_param(g, kx) and not mentions_field(g, lastf), 'OutOfOrder.got', 'OutOfOrder.got carries %s instead of the offered key' % fmt(g)[:100], fn=chk, detail=fmt(g)[:120])
                    ctx.check(R2, pr is not None and mentions_field(pr, lastf) and not mentions_param(pr, kx), 'OutOfOrder.previous', 'OutOfOrder.previous carries %s instead of the last accepted key' % fmt(pr)[:100], fn=chk, detail=fmt(pr)[:120])
            else:
                outcomes.add(rk)
            # R06.3 effects
            writes = path_writes(chk, p, lastf)
            if rk == 'err':
                ctx.check(R3, not writes, 'err-path-clean:' + name, 'builder state is modified (%s) on a path that then rejects the key: the rejected call leaves a trace' % writes[:3], fn=chk)
            elif rk == 'ok':
                ctx.check(R3, remembered_is_key(chk, p, lastf, kx, has_last), 'ok-path-remembers:' + name, 'on an accepted key the remembered last key does not become the offered key', fn=chk, detail=writes[:4])
        if undec:
            ctx.undecided(R1, 'case:' + name, 'a branch of the ordering check depends on something outside the ordering domain: %s' % fmt(undec[0][2])[:120], fn=chk)
        else:
            ctx.check(R1, outcomes == {expect}, 'case:' + name, 'contract says %s, the check yields %s' % (expect, sorted(outcomes)), fn=chk, detail={'expected': expect, 'paths': len(paths)})


def is_loop_fork(e):
    """forks on iterator exhaustion / loop guards are not part of the abstract case"""
    return any(x[0] == 'call' and isinstance(x[1], str) and (x[1].endswith('::next') or 'Iterator' in x[1]) for x in walk(e)) or any(x[0] == 'havoc' for x in walk(e))


def path_writes(f, p, lastf):
    """stores to fields of self and &mut uses of fields of self along a path"""
    out = []
    for (k, i, loc, st) in p.stores():
        if loc[:1] == (1,):
            out.append('store ' + '.'.join(map(str, loc[1:])))
    for (k, bid, callee, args, t) in path_calls(p, args=False):
        for ai, a in enumerate(t['args']):
            pl = a.get('copy') or a.get('move')
            if pl is None or pl['proj']:
                continue
            from facts import is_mut_ref
            if isinstance(callee, str) and callee.rsplit('::', 1)[-1] in ('as_mut', 'as_deref_mut', 'deref_mut', 'index_mut', 'iter_mut', 'last_mut', 'first_mut', 'get_mut', 'as_mut_slice', 'borrow_mut') and \
                    callee.startswith(('std::option::Option::<', 'core::slice::<impl [T]>::', '<std::vec::Vec<T, A> as std::ops::', 'std::vec::Vec::<T, A>::')):
                continue        # hands out a `&mut` into the place without writing it; what is done through that reference is seen where it happens
            if is_mut_ref(f.local_ty(pl['local'])):
                l = f.refmap().get(pl['local'], (pl['local'],))
                if l[:1] == (1,):
                    out.append('%s(&mut %s)' % (callee.rsplit('::', 1)[-1] if isinstance(callee, str) else callee, '.'.join(map(str, l[1:]))))
    return out


def remembered_is_key(f, p, lastf, kx, has_last):
    stores = [(loc, st, k, i) for (k, i, loc, st) in p.stores() if loc[:2] == (1, lastf)]
    if stores:
        loc, st, k, i = stores[-1]
        v = p.sym.rvalue_at(st['rv'], (k, i))
        return mentions_param(v, kx)
    # in-place refresh: cleared, then extended with items of the key
    calls = path_calls(p)
    cleared = False
    filled = False
    for (k, bid, callee, args, t) in calls:
        if isinstance(callee, str) and callee.endswith('::clone_into') and len(args) == 2:
            l1 = arg_loc(f, t, 1)
            if l1 is not None and l1[:2] == (1, lastf) and mentions_param(args[0], kx):
                return True         # key.clone_into(last): the whole remembered key is replaced by the offered one
        l0 = arg_loc(f, t, 0)
        if l0 is None or l0[:2] != (1, lastf) or not isinstance(callee, str):
            continue
        m = callee.rsplit('::', 1)[-1]
        if m in ('clear',) or (m == 'truncate' and args[1] == ('const', 0)):
            cleared, filled = True, False
        elif m in ('push', 'extend_from_slice', 'extend', 'clone_from', 'extend_from_within', 'append'):
            if cleared and any(mentions_param(a, kx) for a in args[1:]):
                filled = True
            elif cleared and m == 'push':
                # item of an iterator over the key
                filled = filled or any(any(x[0] == 'havoc' or (x[0] == 'call' and isinstance(x[1], str) and x[1].endswith('::next')) for x in walk(a)) for a in args[1:])
    if cleared and filled:
        return True
    # the path on which the loop over the key ends at its first test (empty key) needs no push
    first_next = None
    for d in p.decisions:
        e, val = d[2], d[3]
        if e[0] == 'discr' and any(x[0] == 'call' and isinstance(x[1], str) and x[1].endswith('::next') for x in walk(e)):
            first_next = val
            break
    if cleared and first_next == 0:
        return True
    return False


def r06_3_dominance(ctx, A, chk, add, ins):
    R3 = 'R06.3'
    lib = ctx.lib
    cg = CallGraph(lib)
    # who may call the builder's private state-changing routines: only the two single-insert entry points (behind the
    # check, see below), those routines themselves, and the consuming finishers
    bms = A.builder_methods()
    private = {m.path for m in bms if m.vis != 'pub'}
    consuming = {m.path for m in bms if m.arg_count >= 1 and not m.local_ty(1).startswith('&')}
    for m in sorted(private):
        for caller in sorted(cg.rev.get(m, ())):
            ok = caller in private or caller in (add.path, ins.path) or caller in consuming
            ctx.check(R3, ok, 'who-may-call:%s<-%s' % (m.rsplit('::', 1)[-1], caller),
                      '%s calls the builder-internal routine %s directly, bypassing the single-insert entry points and their ordering check' % (caller, m), fn=lib.fns.get(caller))
    for f, mode in ((add, 0), (ins, 1)):
        sites = 0
        for p in explore(f, max_visits=1):
            calls = path_calls(p)
            names = [c[2] for c in calls]
            if chk.path not in names:
                # a path with builder mutation but no check
                mut = [c for c in calls if c[2] in lib.fns and c[2] != chk.path and lib.fns[c[2]].impl and adt_base(lib.fns[c[2]].impl['self_ty']) == A.builder]
                ctx.check(R3, not mut, 'guarded:' + f.path, 'a path of %s reaches %s without running the ordering check' % (f.path, [m[2] for m in mut]), fn=f)
                continue
            ic = names.index(chk.path)
            before = [c for c in calls[:ic] if c[2] in lib.fns and lib.fns[c[2]].impl and adt_base(lib.fns[c[2]].impl['self_ty']) == A.builder]
            ctx.check(R3, not before, 'guarded:' + f.path, 'builder routine %s runs before the ordering check' % [b[2] for b in before], fn=f)
            sites += 1
            # mode constant
            t = calls[ic][4]
            bool_args = [a for a in calls[ic][3] if a[0] == 'const']
            if not bool_args:
                ctx.undecided('R06.5', 'mode-const:' + f.path, 'the duplicate mode handed to the ordering check is not a boolean literal (the check was redesigned): %s' % [fmt(a)[:30] for a in calls[ic][3]], fn=f, at=t.get('span'))
                continue
            ctx.check('R06.5', bool_args and bool_args[-1] == ('const', mode), 'mode-const:' + f.path,
                      '%s runs the ordering check with duplicate mode %s (contract: %s)' % (f.path, fmt(bool_args[-1]) if bool_args else '?', bool(mode)), fn=f, at=t.get('span'))
        # the check's result is propagated with `?`
        for bid, t, local, ty in C11.result_locals_from_calls(f):
            if f.callee(t) == chk.path:
                v = {x for x, _ in C11.classify(ctx, f, local, bid)}
                ctx.check(R3, v == {'ok'}, 'check-propagated:' + f.path, 'the result of the ordering check is not propagated (%s)' % sorted(v), fn=f, at=t.get('span'))


def r06_4(ctx, A, chk):
    R = ctx.rule('R06.4', 'every front end returns the per-item error unchanged and stops at it', floor=14)
    lib = ctx.lib
    cg = CallGraph(lib)
    for name in RAW_FRONTS + SET_FRONTS + MAP_FRONTS:
        f = lib.fn(name)
        if f is None:
            ctx.missing(R, 'anchor:' + name, 'front end %s not found' % name)
            continue
        n = 0
        bad = []
        for bid, t, local, ty in C11.result_locals_from_calls(f):
            callee = f.callee(t)
            if callee in lib.fns and chk.path in cg.reachable([callee]) or callee == chk.path:
                n += 1
                v = C11.classify(ctx, f, local, bid)
                kinds = {x for x, _ in v}
                if 'matched' in kinds:
                    nerr, b = C11.match_check(f, bid)
                    if b or nerr == 0:
                        kinds.add('matched-bad')
                    kinds.discard('matched')
                if kinds != {'ok'}:
                    bad.append((callee, sorted(kinds), t.get('span')))
        if n == 0:
            # the per-item call may sit in a closure driven by a short-circuiting std combinator: iter.try_for_each(|k| b.add(k))
            SHORT = ('::try_for_each', '::try_fold')
            for bid, t, local, ty in C11.result_locals_from_calls(f):
                callee = f.callee(t) or ''
                clos = []
                for p in explore(f, max_visits=1, havoc=True, limit=200):
                    for (k, b2, c2, args, t2) in path_calls(p):
                        if t2 is t:
                            clos = [a[1] for a in args if a[0] == 'closure' and a[1] in lib.fns and chk.path in cg.reachable([a[1]])]
                    if clos:
                        break
                if not clos:
                    continue
                if not callee.endswith(SHORT):
                    bad.append((callee, ['per-item call inside a closure of a combinator that does not stop at the first error'], t.get('span')))
                    n += 1
                    continue
                n += 1
                kinds = {x for x, _ in C11.classify(ctx, f, local, bid)}
                if kinds != {'ok'}:
                    bad.append((callee, sorted(kinds), t.get('span')))
                for cp in clos:
                    cf = lib.fns[cp]
                    m = 0
                    for b3, t3, l3, ty3 in C11.result_locals_from_calls(cf):
                        c3 = cf.callee(t3)
                        if c3 in lib.fns and chk.path in cg.reachable([c3]) or c3 == chk.path:
                            m += 1
                            k3 = {x for x, _ in C11.classify(ctx, cf, l3, b3)}
                            if k3 != {'ok'}:
                                bad.append((c3, sorted(k3), t3.get('span')))
                    if m == 0:
                        bad.append((cp, ['closure does not return the per-item result'], t.get('span')))
        if n == 0:
            ctx.undecided(R, 'front:' + name, 'front end makes no fallible call that reaches the ordering check', fn=f)
        else:
            ctx.check(R, not bad, 'front:' + name, 'per-item error not propagated: %s' % bad[:2], fn=f, detail='%d insertion call(s), all through `?`/return' % n, at=bad[0][2] if bad else None)


def r06_5(ctx, A, add, ins):
    R = ctx.rule('R06.5', 'set front ends reach the set entry point (no duplicate check), map front ends the map entry point', floor=12)
    lib = ctx.lib
    cg = CallGraph(lib)
    for names, want, other, what in ((SET_FRONTS, add, ins, 'set'), (MAP_FRONTS, ins, add, 'map')):
        for name in names:
            f = lib.fn(name)
            if f is None:
                ctx.missing(R, 'anchor:' + name, 'front end %s not found' % name)
                continue
            reach = cg.reachable([f.path], stop=[add.path, ins.path])
            ok = want.path in reach and other.path not in reach
            chain = None
            if other.path in reach:
                chain = cg.path_to([f.path], lambda p: p == other.path, stop=[add.path, ins.path])
            ctx.check(R, ok, 'mode', '%s front end %s reaches %s%s' % (what, name, 'the other mode\'s entry point ' + other.path if other.path in reach else 'no insertion entry point',
                                                                     (' via ' + ' -> '.join(chain)) if chain else ''), fn=f, detail='reaches ' + want.path)


def r06_6(ctx, A, chk):
    R = ctx.rule('R06.6', 'a repeated key leaves the builder untouched (no count, no compile, no suffix)', floor=1)
    lib = ctx.lib
    cg = CallGraph(lib)
    add = lib.fn(A.builder + '::<W>::add')
    # the inserting routine = builder-local callee of add other than the check
    ins_out = None
    for p in explore(add, max_visits=1):
        for (k, bid, callee, args, t) in path_calls(p):
            if callee in lib.fns and lib.fns[callee].impl and adt_base(lib.fns[callee].impl['self_ty']) == A.builder and callee != chk.path:
                ins_out = callee
    if ins_out is None:
        ctx.missing(R, 'anchor:insert-routine', 'inserting routine not found')
        return
    f = lib.fns[ins_out]
    emits = {p for p in lib.fns if any(q == SM.IO_WRITE_ALL for q in cg.reachable([p]))}
    n = 0
    for p in explore(f, max_visits=1, havoc=True):
        if p.end != 'return' or ret_kind(p.ret()) != 'ok':
            continue
        # duplicate path: the common prefix covers the whole key
        dup = False
        for d in p.decisions:
            e, val = d[2], d[3]
            if e[0] == 'bin' and e[1] == 'Eq' and val == 1 and any(x[0] == 'call' and isinstance(x[1], str) and x[1] in SM.LEN_FNS for x in walk(e)):
                dup = True
        if not dup:
            continue
        n += 1
        stores = ['.'.join(map(str, loc[1:])) for (k, i, loc, st) in p.stores() if loc[:1] == (1,)]
        em = [c[2] for c in path_calls(p, args=False) if c[2] in emits]
        ctx.check(R, not stores and not em, 'duplicate-path', 'the duplicate-key path of %s still writes %s / calls %s' % (f.path, stores, em), fn=f)
    if n == 0:
        ctx.undecided(R, 'duplicate-path', 'no path of %s recognisable as "the whole key is already on the stack"' % f.path, fn=f)
    # the empty key can be offered again to a set: its path must be idempotent - what it stores into the builder may not depend on the
    # builder's previous state (count := 1, not count + 1)
    m = 0
    for p in explore(f, max_visits=1, havoc=True):
        if p.end != 'return' or ret_kind(p.ret()) != 'ok':
            continue
        emp = [d for d in p.decisions if is_call(d[2], '::is_empty') and not any(x[0] == 'field' for x in walk(d[2][2][0])) and d[3] == 1]
        if not emp:
            continue
        m += 1
        bad = []
        for (k, i, loc, st) in p.stores():
            if loc[:1] == (1,):
                v = p.sym.rvalue_at(st['rv'], (k, i))
                if any(x[0] == 'field' and x[1][0] == 'param' and x[1][2] == 1 for x in walk(v)) or any(x[0] == 'havoc' for x in walk(v)):
                    bad.append('%s := %s' % ('.'.join(map(str, loc[1:])), fmt(v)[:40]))
        ctx.check(R, not bad, 'empty-key-idempotent', 'the empty-key path updates builder state from its previous value (%s): offering "" to a set twice (a no-op by contract) leaves a trace' % bad, fn=f)
    if m == 0:
        ctx.undecided(R, 'empty-key-idempotent', 'no empty-key path recognised in %s' % f.path, fn=f)


def r06_7(ctx, A, chk):
    """the two ordering errors have one source: the ordering check.  A second place that builds OutOfOrder / DuplicateKey is a second,
    differently worded contract (a repeated empty key rejected, a guard that fires on accepted sequences)"""
    R = ctx.rule('R06.7', 'ordering errors are constructed only by the ordering check', floor=1)
    lib = ctx.lib
    sites = []
    for f in lib.fn_list:
        if f.from_expansion:
            continue
        for bid, b in f.blocks.items():
            for st in b['stmts']:
                ag = st.get('rv', {}).get('agg') if st['k'] == 'assign' else None
                if isinstance(ag, dict) and str(ag.get('adt', '')).endswith('error::Error') and ag.get('variant') in ('OutOfOrder', 'DuplicateKey'):
                    sites.append((f, ag['variant'], st.get('line')))
    owner = chk.path if chk is not None else None
    extra = [(f, v, ln) for f, v, ln in sites if f.path != owner and not f.path.startswith(owner + '::') and 'fmt::' not in ((f.impl or {}).get('trait_path') or '')]
    if sites and len(extra) == len(sites):
        # none of the sites is in the function taken for the ordering check: the check was redesigned (moved into a helper of another
        # shape) and the anchor is wrong, not the code
        ctx.undecided(R, 'single-source', 'no ordering error is built in %s, which was taken for the ordering check; built in %s instead: the check was restructured' % (
            owner, sorted({f.path.rsplit('::', 1)[-1] for f, _, _ in extra})))
        return
    for f, v, ln in extra:
        ctx.violation(R, 'second-source:%s' % f.path, '%s builds Error::%s although it is not the ordering check: the accept / reject contract now has a second author' % (f.path.rsplit('::', 1)[-1], v), fn=f)
    ctx.check(R, bool(sites) and not extra, 'single-source', 'ordering error constructed outside the check (%d sites in the check)' % len([s_ for s_ in sites if s_ not in extra]))


def r06_8(ctx, A, chk):
    """every item a front end draws from its iterator / stream is offered to the builder: the contract (accept, or reject with the
    ordering error) is the builder's to apply, a front end that filters items first applies another one"""
    R = ctx.rule('R06.8', 'every item drawn by a looping front end is offered to add / insert in the same iteration', floor=1)
    lib = ctx.lib
    cg = CallGraph(lib)
    n = 0
    for name in RAW_FRONTS + SET_FRONTS + MAP_FRONTS:
        f = lib.fn(name)
        if f is None or not f.loops():
            continue
        loops = f.loops()
        for p in explore(f, max_visits=1, havoc=True, limit=2000):
            if p.end != 'cut':
                continue
            body = loops.get(p.blocks[-1], set())
            nx = [d for d in p.cdecisions() if d[2][0] == 'discr' and is_call(d[2][1], '::next') and d[3] == 1 and d[1] in body]
            if not nx:
                continue
            k_n = nx[-1][0]
            offered = False
            for (k, bid, callee, args, t) in path_calls(p, expand=False):
                if k > k_n and isinstance(callee, str) and (callee == chk.path or (callee in lib.fns and chk.path in cg.reachable([callee]))):
                    offered = True
            n += 1
            ctx.check(R, offered, 'item-offered:' + name, '%s has an iteration that draws an item and goes on to the next one without offering it to the builder (%s): keys are dropped, and the ordering contract is no longer applied to the sequence the caller supplied' % (
                name.rsplit('::', 1)[-1], fmt(p.decisions[-1][2])[:80] if p.decisions else ''), fn=f)
    if n == 0:
        ctx.undecided(R, 'item-offered', 'no looping front end with a recognisable item draw')


def run(ctx):
    lib = ctx.lib
    A = Anchors(lib)
    if A.err:
        for e in A.err:
            ctx.missing('R06.1', 'anchor', e)
        return
    ctx.rule('R06.5', 'set front ends reach the set entry point (no duplicate check), map front ends the map entry point', floor=12)
    chk, add, ins = find_check_fn(ctx, A, 'R06.1')
    lastf = last_field(lib, A)
    if chk is None or lastf is None:
        ctx.missing('R06.1', 'anchor:check', 'ordering check or last-key field not found')
        return
    ctx.step(r06_1_2_3, ctx, A, chk, lastf)
    ctx.step(r06_3_dominance, ctx, A, chk, add, ins)
    ctx.step(r06_4, ctx, A, chk)
    ctx.step(r06_5, ctx, A, add, ins)
    ctx.step(r06_6, ctx, A, chk)
    ctx.step(r06_7, ctx, A, chk)
    ctx.step(r06_8, ctx, A, chk)
    ctx.notes.append({'ordering_check': chk.path, 'last_key_field': lastf})
