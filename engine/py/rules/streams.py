"""Shared rules on the range/search stream machinery (seek + DFS step + bounds): R03.x and R04.x."""
import itertools
from paths import explore
import stdalg
from sym import fmt, walk, map_children
from callgraph import CallGraph
from rules.common import path_calls, arg_loc, arg_locs, ret_kind

SWS = "raw::StreamWithState::<'f, A>"
SEEK = SWS + '::seek_min'
NEXT = SWS + '::next_with'
NEW = SWS + '::new'
FRAME = 'raw::StreamState'
BOUND = 'raw::Bound'


def norm(e):
    """drop call-site identities; values of places mutated through &mut are kept as ('after', call, idx, prev)"""
    if not isinstance(e, tuple):
        return e
    if e[0] == 'call':
        callee = e[1]
        return ('call', callee if isinstance(callee, str) else ('indirect',), tuple(norm(a) for a in e[2]), None)
    if e[0] == 'cast':
        return norm(e[1])
    if e[0] == 'index' and isinstance(e[2], tuple) and e[2][0] == 'const':
        return ('index', norm(e[1]), '[%d]' % e[2][1])          # cells[1] through a constant local or a literal: one spelling
    return map_children(e, norm)


def is_call(e, suffix):
    return isinstance(e, tuple) and e[0] == 'call' and isinstance(e[1], str) and e[1].endswith(suffix)


def strip_after(e):
    while isinstance(e, tuple) and e[0] == 'after':
        e = e[3]
    return e


def frames_on_path(f, p):
    """[(k, fields dict, term)] for StreamState aggregates pushed on the stack along the path, plus array-literal frames"""
    out = []
    for (k, bid, callee, args, t) in path_calls(p, expand=True):
        if isinstance(callee, str) and callee.endswith('::push') and arg_loc(f, t, 0) == (1, 'stack'):
            v = args[1]
            if v[0] == 'agg' and v[1] == FRAME:
                out.append((k, dict(v[2]), t))
            else:
                out.append((k, None, t))
    for (k, i, loc, st) in p.stores():
        pass
    # vec![frame] literals: array aggregate stored then turned into a Vec
    for k, bid in enumerate(p.blocks):
        for i, st in enumerate(f.blocks[bid]['stmts']):
            if st['k'] == 'assign' and st['rv'].get('agg') == 'array':
                v = p.sym.rvalue_at(st['rv'], (k, i))
                for el in v[1]:
                    if el[0] == 'agg' and el[1] == FRAME:
                        out.append((k, dict(el[2]), {'span': '%s:%s' % (f.file(), st.get('line'))}))
    return out


def loop_triple(f):
    """loop-carried locals of seek typed Node / Output / automaton state"""
    hv = f.loop_havoc()
    cands = {}
    loops = f.loops()
    for h, targets in hv.items():
        body = loops.get(h, set())
        for T, _ in targets:
            # loop-carried = also defined before the loop is entered
            outside = any(d.target == T and d.kind != 'entry' and d.bid not in body for d in f.defs())
            if len(T) == 1 and outside:
                ty = f.local_ty(T[0])
                if ty.startswith('raw::node::Node<'):
                    cands.setdefault('node', set()).add(T[0])
                elif ty == 'raw::Output':
                    cands.setdefault('out', set()).add(T[0])
                elif 'Automaton::State' in ty and not ty.startswith('&'):
                    cands.setdefault('state', set()).add(T[0])
    return cands


def is_head(e, locals_):
    """e is the loop-head (pre-update) value of one of the given locals"""
    return isinstance(e, tuple) and e[0] == 'havoc' and len(e[1]) == 1 and e[1][0] in locals_


# ---------------------------------------------------------------------------------------------
def arg_is_stack(f, x):
    return any(y[0] == 'field' and y[2] == 'stack' for y in walk(x)) or any(y[0] == 'havoc' and y[1] == (1, 'stack') for y in walk(x))


def stack_known_empty(f, p, after=-1):
    """does the path establish that the DFS stack is empty: `stack.is_empty()` true, or `stack.last()/last_mut()/first()` is None"""
    for d in p.cdecisions():
        if d[0] <= after:
            continue
        e, val = d[2], d[3]
        if val == 1 and any(is_call(x, '::is_empty') and arg_is_stack(f, x) for x in walk(e)) and (is_call(e, '::is_empty')):
            return True
        if val == 0 and e[0] == 'un' and e[1] == 'Not' and is_call(e[2], '::is_empty') and arg_is_stack(f, e[2]):
            return True
        if e[0] == 'discr' and val == 0 and (is_call(e[1], '::last_mut') or is_call(e[1], '::last') or is_call(e[1], '::first')) and arg_is_stack(f, e[1]):
            return True
    return False


def first_match_loop(f, L):
    """recognise `L = default; for (i, x) in iter.enumerate() { if pred(x) { L = i; break } }`.
    returns (default expr, iterator source, assigned value is the enumerate index, (predicate expr, value), leaves the loop) or None"""
    from rules.layout import iter_source
    from sym import Sym
    loops = f.loops()
    def in_or_exit(bid, body):
        # `L = i; break` sits in an exit block of the loop: not part of the natural loop, but entered only from its body
        if bid in body:
            return True
        preds = f.pred(bid) if hasattr(f, 'pred') else []
        return bool(preds) and all(q in body for q in preds)
    inside = [(d, h) for d in f.defs() if d.target == (L,) and d.kind == 'assign' for h, body in loops.items() if in_or_exit(d.bid, body)]
    outside = [d for d in f.defs() if d.target == (L,) and d.kind == 'assign' and not any(d.bid in body for body in loops.values())]
    if not inside:
        return None
    # innermost loop containing the assignment
    d, h = min(inside, key=lambda x: len(loops[x[1]]))
    if len([x for x in inside if x[1] == h]) != 1:
        return None
    body = loops[h]
    sy = Sym(f)
    # the default is the value assigned before the loop is entered (in an enclosing loop body or outside all loops)
    pre = [x for x in f.defs() if x.target == (L,) and x.kind in ('assign', 'call') and x.bid not in body and x is not d and f.dominates(x.bid, h)]
    if len(pre) != 1:
        return None
    dflt = sy.def_value(pre[0], (pre[0].bid, pre[0].idx), (L,))
    src = iter_source(f, h)
    if src is None or src[0] != 'fwd' or not src[1]:
        return None
    # path through one iteration that performs the assignment
    hit = None
    for p in explore(f, max_visits=1, havoc=True, start=h, limit=400):
        if d.bid in p.blocks:
            hit = p
            break
    if hit is None:
        return None
    k = hit.blocks.index(d.bid)
    st = f.blocks[d.bid]['stmts'][d.idx]
    v = hit.sym.rvalue_at(st['rv'], (k, d.idx))
    idx_ok = v[0] == 'field' and v[2] == '0' and any(is_call(x, '::next') for x in walk(v))
    cmpd = [x for x in hit.decisions if x[0] < k and x[2][0] == 'bin' and x[2][1] in ('Gt', 'Ge', 'Lt', 'Le')]
    pred = (cmpd[-1][2], cmpd[-1][3]) if cmpd else None
    # after the assignment control leaves the loop without another iteration
    rest = hit.blocks[k + 1:]
    breaks = all(b not in body or b == d.bid for b in rest[:1]) or (hit.end != 'cut') or not any(b == h for b in rest)
    return dflt, src[2], idx_ok, pred, breaks


def seek_rules(ctx, R41, R42, R34, R36, want_c03=True, want_c04=True, R35s=None):
    lib = ctx.lib
    f = lib.fn(SEEK)
    if f is None:
        ctx.missing(R41 or R34, 'anchor:seek', 'seek function not found')
        return
    tri = loop_triple(f)
    user = {k: {l for l in v if f.locals[l].get('name')} for k, v in tri.items()}
    for k in ('node', 'out', 'state'):
        if len(user.get(k, ())) != 1:
            ctx.undecided(R41 or R34, 'triple', 'cannot identify the loop-carried %s of the seek loop (%s)' % (k, sorted(user.get(k, ()))), fn=f)
            return
    LN, LO, LS = (next(iter(user[k])) for k in ('node', 'out', 'state'))
    paths = explore(f, max_visits=1, havoc=True, limit=4000)
    seen = {'some': 0, 'none': 0, 'excl': 0, 'incl': 0, 'empty': 0}
    for p in paths:
        calls = path_calls(p, expand=True)
        frames = frames_on_path(f, p)
        fi = None      # decision on find_input in this iteration
        it_end = None  # did the key loop end
        b = None
        for d in p.decisions:
            e, val = d[2], d[3]
            if e[0] == 'discr' and is_call(e[1], '::find_input'):
                fi = (val, e[1])
            if e[0] == 'discr' and is_call(e[1], '::next') and val == 0:
                it_end = d[0]
        if fi is not None:
            node_arg, b = fi[1][2][0], fi[1][2][1]
        # --- inside one loop iteration -------------------------------------------------------
        if fi is not None and fi[0] == 1 and p.end == 'cut':
            seen['some'] += 1
            fr = [x for x in frames if x[1] is not None]
            if len(fr) != 1:
                ctx.undecided(R41 or R34, 'seek-some:frames', '%d frames pushed in one seek step' % len(fr), fn=f)
                continue
            k, fd, t = fr[0]
            at = t.get('span')
            if want_c04:
                ok = is_head(fd.get('node'), {LN}) and is_head(fd.get('out'), {LO}) and is_head(fd.get('aut_state'), {LS})
                ctx.check(R41, ok, 'seek-step-frame', 'the frame pushed while following the bound does not hold (node, output, automaton state) as they were BEFORE consuming the byte: node=%s out=%s state=%s' % (
                    fmt(fd.get('node'))[:60], fmt(fd.get('out'))[:60], fmt(fd.get('aut_state'))[:80]), fn=f, at=at,
                    detail={k2: fmt(v)[:80] for k2, v in fd.items()})
                # updates at the end of the iteration
                endk = (len(p.blocks) - 2, 'T')     # just before re-entering the loop header (where values are havocked)
                vn, vo, vs = (p.sym.loc_value_at((l,), endk) for l in (LN, LO, LS))
                i_expr = ('field', ('variant', fi[1], 'Some'), '0')
                okn = is_call(vn, '::node') and any(is_call(x, '::transition') and is_head(x[2][0], {LN}) for x in walk(vn)) and any(x[0] == 'field' and x[2] == 'addr' for x in walk(vn))
                oko = is_call(vo, 'Output::cat') and is_head(vo[2][0], {LO}) and any(x[0] == 'field' and x[2] == 'out' and any(is_call(y, '::transition') for y in walk(x)) for x in walk(vo[2][1]))
                oks = is_call(vs, 'Automaton::accept') and is_head(vs[2][1], {LS}) and norm(vs[2][2]) == norm(b)
                ctx.check(R41, okn and oko and oks, 'seek-step-update', 'after following byte b the loop state is not (child node of that transition, output + its output, accept(state, b)): node=%s out=%s state=%s' % (
                    fmt(vn)[:70], fmt(vo)[:70], fmt(vs)[:90]), fn=f, at=at)
                # R04.2: byte pushed on the key buffer == byte given to accept == byte looked up
                pushes = [c for c in calls if isinstance(c[2], str) and c[2].endswith('::push') and arg_loc(f, c[4], 0) == (1, 'inp')]
                acc = [c for c in calls if isinstance(c[2], str) and c[2].endswith('Automaton::accept')]
                okb = len(pushes) == 1 and len(acc) == 1 and norm(pushes[0][3][1]) == norm(b) and norm(acc[0][3][2]) == norm(b)
                ctx.check(R42, okb, 'seek-byte', 'the byte appended to the key buffer, the byte fed to the automaton and the byte looked up in the node are not the same value', fn=f, at=at)
            if want_c03:
                tr = fd.get('trans')
                okt = tr is not None and tr[0] == 'bin' and tr[1] == 'Add' and tr[3] == ('const', 1) and norm(tr[2]) == norm(('field', ('variant', fi[1], 'Some'), '0'))
                ctx.check(R34, okt, 'seek-step-trans', 'the frame left behind while following the bound must resume at the NEXT transition (found index + 1): %s' % fmt(tr)[:100], fn=f, at=at)
        elif fi is not None and fi[0] == 0 and p.end == 'return':
            seen['none'] += 1
            fr = [x for x in frames if x[1] is not None]
            if len(fr) != 1:
                ctx.undecided(R41 or R34, 'seek-none:frames', '%d frames pushed where the bound leaves the FST' % len(fr), fn=f)
                continue
            k, fd, t = fr[0]
            at = t.get('span')
            if want_c04:
                ok = is_head(fd.get('node'), {LN}) and is_head(fd.get('out'), {LO}) and is_head(fd.get('aut_state'), {LS})
                ctx.check(R41, ok, 'seek-diverge-frame', 'where the bound leaves the FST the frame must keep the current (node, output, state) untouched - the diverging byte belongs to no key: node=%s out=%s state=%s' % (
                    fmt(fd.get('node'))[:60], fmt(fd.get('out'))[:60], fmt(fd.get('aut_state'))[:90]), fn=f, at=at)
            if want_c03:
                tr = fd.get('trans')
                okt = False
                why = fmt(tr)[:120]
                # forms: position(..).unwrap_or(node.len())   |   match position(..) { Some(p) => p, None => node.len() }
                pos = None
                shape = False
                if is_call(tr, 'Option::<T>::unwrap_or') and is_call(tr[2][0], 'Iterator::position') and is_call(tr[2][1], '::len') and is_head(tr[2][1][2][0], {LN}):
                    pos = tr[2][0]
                    shape = True
                else:
                    pd = [d for d in p.cdecisions() if d[2][0] == 'discr' and is_call(d[2][1], 'Iterator::position')]
                    if pd:
                        pos = pd[-1][2][1]
                        if pd[-1][3] == 1:
                            shape = norm(stdalg.canon_value(tr)) == norm(stdalg.canon_value(('okof', pos)))
                        else:
                            shape = is_call(tr, '::len') and is_head(tr[2][0], {LN})
                idx_form = tr is not None and tr[0] == 'field' and tr[2] == '0' and any(is_call(x, 'Enumerate<I> as std::iter::Iterator>::next') for x in walk(tr))
                len_form = is_call(tr, '::len') and is_head(tr[2][0], {LN})
                if pos is None and (idx_form or len_form or (tr is not None and tr[0] == 'havoc')):
                    # explicit search loop:  let mut trans = node.len(); for (i, t) in node.transitions().enumerate() { if t.inp > b { trans = i; break } }
                    fm = None
                    for L in sorted(l for l in f.locals if f.local_ty(l) == 'usize' and f.locals[l].get('name')):
                        fm = first_match_loop(f, L)
                        if fm is not None and any(is_call(x, '::transitions') for x in walk(fm[1])):
                            break
                        fm = None
                    if fm is not None:
                        dflt, src, idx_ok, pred, breaks = fm

                        def is_ln(x):
                            return is_head(x, {LN}) or (x[0] == 'phi' and x[1] == (LN,))

                        def shape(x):
                            from sym import map_children as _mc
                            if isinstance(x, tuple) and x[0] in ('phi', 'havoc'):
                                return ('*',)
                            if isinstance(x, tuple) and x[0] == 'call':
                                return ('call', x[1] if isinstance(x[1], str) else '?', tuple(shape(a) for a in x[2]), None)
                            return _mc(x, shape) if isinstance(x, tuple) else x

                        def is_b(x):
                            if norm(x) == norm(b):
                                return True
                            if x[0] == 'undef' and len(x[1]) == 1:
                                from sym import Sym as _S
                                dl = [dd for dd in f.defs() if dd.target == x[1] and dd.kind == 'assign']
                                return len(dl) == 1 and shape(norm(_S(f).def_value(dl[0], (dl[0].bid, dl[0].idx), x[1]))) == shape(norm(b))
                            return False
                        okt = is_call(dflt, '::len') and is_ln(dflt[2][0]) and idx_ok and breaks and \
                            any(is_call(x, '::transitions') and is_ln(x[2][0]) for x in walk(src)) and \
                            pred is not None and pred[0][0] == 'bin' and (
                                (pred[0][1] in ('Gt', 'Ge') and pred[1] == 1 and any(x[0] == 'field' and x[2] == 'inp' for x in walk(pred[0][2])) and is_b(pred[0][3])) or
                                (pred[0][1] in ('Lt', 'Le') and pred[1] == 1 and any(x[0] == 'field' and x[2] == 'inp' for x in walk(pred[0][3])) and is_b(pred[0][2])) or
                                (pred[0][1] in ('Le', 'Lt') and pred[1] == 0 and any(x[0] == 'field' and x[2] == 'inp' for x in walk(pred[0][2])) and is_b(pred[0][3])))
                        if okt and pred[0][1] in ('Ge', 'Le') and not ((pred[0][1] == 'Le') and pred[1] == 0):
                            okt = False      # must be strictly larger
                        why = 'search loop: default %s, predicate %s=%s' % (fmt(dflt)[:30], fmt(pred[0])[:50] if pred else None, pred[1] if pred else None)
                if pos is not None and shape:
                    src, clo = pos[2][0], pos[2][1]
                    if is_call(src, '::transitions') and is_head(src[2][0], {LN}) and clo[0] == 'closure' and clo[1] in lib.fns:
                        cf = lib.fns[clo[1]]
                        rets = [q.ret() for q in explore(cf, max_visits=1) if q.end == 'return']
                        if len(rets) == 1 and rets[0][0] == 'bin' and rets[0][1] in ('Gt', 'Ge'):
                            lhs, rhs = rets[0][2], rets[0][3]
                            okt = lhs[0] == 'field' and lhs[2] == 'inp' and rhs[0] == 'field' and norm(clo[2][0]) == norm(b)
                        elif len(rets) == 1 and rets[0][0] == 'bin' and rets[0][1] in ('Lt', 'Le'):
                            lhs, rhs = rets[0][2], rets[0][3]
                            okt = rhs[0] == 'field' and rhs[2] == 'inp' and lhs[0] == 'field' and norm(clo[2][0]) == norm(b)
                        else:
                            why = 'predicate %s' % [fmt(r)[:60] for r in rets]
                if pos is None and not okt and is_call(tr, 'Iterator::count') and is_call(tr[2][0], 'Iterator::take_while'):
                    # transitions().take_while(|t| t.inp <= b).count(): the number of leading transitions NOT larger than the bound byte
                    tw = tr[2][0]
                    src, clo = tw[2][0], tw[2][1]
                    if is_call(src, '::transitions') and is_head(src[2][0], {LN}) and clo[0] == 'closure' and clo[1] in lib.fns:
                        cf = lib.fns[clo[1]]
                        rets = [q.ret() for q in explore(cf, max_visits=1) if q.end == 'return']
                        if len(rets) == 1 and rets[0][0] == 'bin' and rets[0][1] in ('Le', 'Lt', 'Ge', 'Gt'):
                            op, lhs, rhs = rets[0][1], rets[0][2], rets[0][3]
                            inp_l = lhs[0] == 'field' and lhs[2] == 'inp'
                            inp_r = rhs[0] == 'field' and rhs[2] == 'inp'
                            capt = norm(clo[2][0]) == norm(b)
                            # keep counting while inp <= b  (or b >= inp); `<` would stop ON an equal byte - but an equal byte does not occur here
                            okt = capt and ((inp_l and op in ('Le', 'Lt')) or (inp_r and op in ('Ge', 'Gt')))
                            why = 'take_while(%s).count()' % fmt(rets[0])[:60]
                ctx.check(R34, okt, 'seek-diverge-trans', 'where the bound leaves the FST the frame must resume at the first transition whose byte is larger than the bound byte, or past the end: %s' % why, fn=f, at=at)
        # --- after the loop ---------------------------------------------------------------------
        if it_end is not None and fi is None and p.end == 'return':
            incl = None
            for d in p.decisions:
                e, val = d[2], d[3]
                if d[0] > it_end and (e[0] in ('field', 'phi', 'const') or (e[0] == 'tuple')):
                    pass
            # the inclusive flag: a bool derived from the variant of the bound
            flag = [d for d in p.decisions if d[0] > it_end and f.blocks[d[1]]['term']['k'] == 'switch' and not any(is_call(x, 'is_empty') or is_call(x, '::next') for x in walk(d[2]))]
            if stack_known_empty(f, p, it_end):
                continue      # nothing was pushed: bound is the empty path (handled by the early return) or loop never ran
            variant = [d for d in p.decisions if d[2][0] == 'discr' and d[2][1][0] == 'param' and d[2][1][2] == 2]
            vname = None
            if variant:
                a = lib.adts.get(BOUND)
                vi = variant[0][3]
                if a and isinstance(vi, int) and vi < len(a['variants']):
                    vname = a['variants'][vi]['name']
            fr = [x for x in frames if x[1] is not None]
            pops = [c for c in calls if isinstance(c[2], str) and c[2].endswith('::pop') and arg_loc(f, c[4], 0) == (1, 'inp')]
            if vname == 'Included' and want_c03:
                seen['incl'] += 1
                dec = [s for s in p.stores() if s[2][-1:] == ('trans',)]
                okd = False
                if len(dec) == 1:
                    k, i, loc, st = dec[0]
                    v = p.sym.rvalue_at(st['rv'], (k, i))
                    okd = v[0] == 'bin' and v[1] == 'Sub' and v[3] == ('const', 1) and any(x[0] == 'field' and x[2] == 'trans' for x in walk(v[2])) and any(is_call(x, 'index_mut') or is_call(x, 'last_mut') for x in walk(v[2]))
                ctx.check(R34, okd and len(pops) == 1 and not fr, 'seek-end-inclusive', 'inclusive lower bound: the last frame must step back one transition and one key byte must be popped (stores: %d, pops: %d, frames: %d)' % (len(dec), len(pops), len(fr)), fn=f)
            elif vname == 'Excluded':
                seen['excl'] += 1
                if len(fr) != 1:
                    ctx.violation(R34 or R41, 'seek-end-exclusive', 'exclusive lower bound: exactly one child frame must be pushed (found %d)' % len(fr), fn=f)
                    continue
                k, fd, t = fr[0]
                at = t.get('span')
                if want_c03:
                    okt = fd.get('trans') == ('const', 0) and not pops
                    nd = fd.get('node')
                    okn = is_head(nd, {LN}) or (is_call(nd, '::node') and any(is_call(x, '::transition') and x[2][1][0] == 'bin' and x[2][1][1] == 'Sub' and x[2][1][3] == ('const', 1) for x in walk(nd)))
                    oko = is_head(fd.get('out'), {LO})
                    ctx.check(R34, okt and okn and oko, 'seek-end-exclusive', 'exclusive lower bound: the pushed frame must be (node reached by the bound, transition 0, output accumulated over the WHOLE bound): trans=%s node=%s out=%s' % (
                        fmt(fd.get('trans')), fmt(nd)[:80], fmt(fd.get('out'))[:80]), fn=f, at=at)
                if want_c04:
                    ctx.check(R41, is_head(fd.get('aut_state'), {LS}), 'seek-end-exclusive-state', 'exclusive lower bound: the pushed frame must carry the automaton state after the whole bound: %s' % fmt(fd.get('aut_state'))[:100], fn=f, at=at)
    # --- lock step of stack and key buffer over the whole seek -----------------------------------
    RB = R35s if R35s else R41
    for p in paths:
        calls = path_calls(p, expand=True)
        ds = len([c for c in calls if isinstance(c[2], str) and c[2].endswith('::push') and arg_loc(f, c[4], 0) == (1, 'stack')]) - \
            len([c for c in calls if isinstance(c[2], str) and c[2].endswith('::pop') and arg_loc(f, c[4], 0) == (1, 'stack')])
        di = len([c for c in calls if isinstance(c[2], str) and c[2].endswith('::push') and arg_loc(f, c[4], 0) == (1, 'inp')]) - \
            len([c for c in calls if isinstance(c[2], str) and c[2].endswith('::pop') and arg_loc(f, c[4], 0) == (1, 'inp')])
        whole = [s for s in p.stores() if s[2] == (1, 'stack')]
        if whole:
            ds += 1           # stack := vec![root frame]
        if p.end == 'cut':
            ctx.check(RB, ds - di == 0, 'seek-balance-step', 'one step of following the bound changes |stack| by %d and |key buffer| by %d: every followed byte needs exactly one frame' % (ds, di), fn=f)
        elif p.end == 'return':
            if stack_known_empty(f, p):
                continue
            ctx.check(RB, ds - di == 1, 'seek-balance-exit', 'the seek returns with |stack| - |key buffer| changed by %d on this path (frames %+d, key bytes %+d): the DFS needs exactly one more frame than key bytes' % (ds - di, ds, di), fn=f,
                      detail=[fmt(d[2])[:80] + '=' + str(d[3]) for d in p.decisions][-5:])
    # --- empty bound --------------------------------------------------------------------------
    for p in paths:
        em = [d for d in p.decisions if is_call(d[2], 'Bound::is_empty')]
        if want_c03 and em and em[0][3] == 0:
            st = [s_ for s_ in p.stores() if s_[2] == (1, 'empty_output')]
            ctx.check(R36, not st, 'nonempty-bound-leaves-empty-key', 'the pending empty-key output is armed although the lower bound is not empty: ge("k") would start with the empty key', fn=f)
        if p.end != 'return':
            continue
        if not em or em[0][3] != 1:
            continue
        seen['empty'] += 1
        inc = [d for d in p.decisions if is_call(d[2], 'Bound::is_inclusive')]
        st = [s for s in p.stores() if s[2] == (1, 'empty_output')]
        if want_c03:
            if inc and inc[0][3] == 1:
                ok = False
                if len(st) == 1:
                    # the stored value must be "Some(final output of the root) if the root is final, else None" - through the private
                    # helper, or spelled out on this path
                    import vsplit
                    v = p.sym.rvalue_at(st[0][3]['rv'], (st[0][0], st[0][1]))
                    cases = vsplit.split(lib, v, 0, True)
                    own = [(d[2], d[3]) for d in p.decisions if is_call(d[2], '::is_final')]
                    good = []
                    for cs, cv in cases:
                        conds = own + [c for c in cs if is_call(c[0], '::is_final')]
                        fin = [val for (ce, val) in conds if any(is_call(x, '::root') for x in walk(ce))]
                        if fin and fin[-1] == 1:
                            good.append(cv[0] == 'agg' and cv[1].endswith('Option::Some') and is_call(cv[2][0][1], '::final_output') and any(is_call(x, '::root') for x in walk(cv[2][0][1])))
                        elif fin and fin[-1] == 0:
                            good.append(cv[0] == 'agg' and cv[1].endswith('Option::None'))
                        else:
                            good.append(False)
                    ok = bool(good) and all(good)
                ctx.check(R36, ok, 'empty-inclusive', 'an empty inclusive lower bound must arm the pending empty-key output from the root', fn=f)
            else:
                ctx.check(R36, not st, 'empty-exclusive', 'an empty EXCLUSIVE lower bound must not arm the empty-key output (gt "" excludes the empty key)', fn=f)
        fr = [x for x in frames_on_path(f, p) if x[1] is not None]
        if len(fr) == 1:
            fd = fr[0][1]
            ok = is_call(fd.get('node'), '::root') and fd.get('trans') == ('const', 0) and is_call(fd.get('out'), 'Output::zero') and is_call(fd.get('aut_state'), 'Automaton::start')
            rid = R41 if want_c04 else R34
            ctx.check(rid, ok, 'root-frame', 'with an empty lower bound the traversal must start at (root, transition 0, zero output, start state): %s' % {k: fmt(v)[:40] for k, v in fd.items()}, fn=f)
        else:
            ctx.undecided(R41 or R34, 'root-frame', 'empty-bound path pushes %d frames' % len(fr), fn=f)
    need = ['some', 'none', 'excl', 'empty'] + (['incl'] if want_c03 else [])
    for k in need:
        if seen[k] == 0:
            ctx.undecided(R41 or R34, 'seek-shape:' + k, 'no path of the seek function recognised as its "%s" case' % k, fn=f)


# ---------------------------------------------------------------------------------------------
def next_rules(ctx, R41, R42, R43, R44, R45, R35, R36, want_c03=True, want_c04=True):
    lib = ctx.lib
    f = lib.fn(NEXT)
    if f is None:
        ctx.missing(R43 or R35, 'anchor:next', 'DFS step function not found')
        return
    paths = explore(f, max_visits=1, havoc=True, limit=6000)
    n_emit = n_empty = n_iter = 0
    # will_always_match must not be consulted by the traversal; can_match only on the popped frame's state
    if want_c04:
        wam = [t for _, t in f.calls() if (f.callee_decl(t) or '').endswith('Automaton::will_always_match')]
        ctx.check(R43, not wam, 'no-will-always-match', 'the traversal consults will_always_match: the result would depend on how precise that hint is', fn=f)
    for p in paths:
        calls = path_calls(p, expand=True)
        pop = [c for c in calls if isinstance(c[2], str) and c[2].endswith('::pop') and arg_loc(f, c[4], 0) == (1, 'stack')]
        took_empty = [d for d in p.decisions if d[2][0] == 'discr' and is_call(d[2][1], 'Option::<T>::take')]
        rv = p.ret() if p.end == 'return' else None
        is_some = rv is not None and rv[0] == 'agg' and rv[1].endswith('Option::Some')
        # ---- empty key ------------------------------------------------------------------
        if took_empty and took_empty[0][3] == 1 and not pop and p.end == 'return':
            n_empty += 1
            ex = [d for d in p.decisions if is_call(d[2], 'Bound::exceeded_by')]
            if is_some:
                tup = rv[2][0][1]
                key, val, mapped = (tup[1] + (None, None, None))[:3] if tup[0] == 'tuple' else (None, None, None)
                if want_c03:
                    okk = ex and ex[0][3] == 0 and ex[0][2][2][1][0] in ('cpromoted', 'cbytes', 'array')
                    ctx.check(R36, bool(okk), 'empty-key-cutoff', 'the pending empty key is emitted without first testing the upper bound against the empty string', fn=f)
                    okv = val is not None and val[0] == 'field' and any(is_call(x, 'Option::<T>::take') for x in walk(val))
                    ctx.check(R36, okv, 'empty-key-value', 'the empty key is not reported with the root\'s final output: %s' % fmt(val)[:80], fn=f)
                if want_c04:
                    im = [d for d in p.decisions if is_call(d[2], 'Automaton::is_match')]
                    oks = im and im[-1][3] == 1 and is_call(im[-1][2][2][1], 'Automaton::start')
                    ctx.check(R44, bool(oks), 'empty-key-match', 'the empty key must be emitted iff is_match(start()): %s' % [fmt(d[2])[:80] for d in im], fn=f)
                    okm = mapped is not None and is_call(mapped, 'call_mut') and any(is_call(x, 'Automaton::start') for x in walk(mapped))
                    ctx.check(R44, okm, 'empty-key-state', 'the state reported for the empty key must be start(): %s' % fmt(mapped)[:80], fn=f)
            elif ex and ex[0][3] == 1 and want_c03:
                cl = [c for c in calls if isinstance(c[2], str) and c[2].endswith('::clear') and arg_loc(f, c[4], 0) == (1, 'stack')]
                ctx.check(R36, bool(cl) and rv is not None and rv[0] == 'agg' and rv[1].endswith('::None'), 'empty-key-exceeded', 'when even the empty key exceeds the upper bound the stream must end', fn=f)
            continue
        if len(pop) != 1:
            continue
        S = ('field', ('variant', norm(p.sym.call_expr_at((pop[0][0], 'T'))), 'Some'), '0')

        def fld(name):
            return ('field', S, name)
        tr_calls = [c for c in calls if isinstance(c[2], str) and c[2].endswith('Node::<\'f>::transition')]
        descended = bool(tr_calls)
        d_stack = -1 + len([c for c in calls if isinstance(c[2], str) and c[2].endswith('::push') and arg_loc(f, c[4], 0) == (1, 'stack')])
        d_inp = len([c for c in calls if isinstance(c[2], str) and c[2].endswith('::push') and arg_loc(f, c[4], 0) == (1, 'inp')]) - \
            len([c for c in calls if isinstance(c[2], str) and c[2].endswith('::pop') and arg_loc(f, c[4], 0) == (1, 'inp')])
        cleared = any(isinstance(c[2], str) and c[2].endswith('::clear') and arg_loc(f, c[4], 0) == (1, 'stack') for c in calls)
        def exhausted_known():
            """1 / 0 / None: on this path the resumed frame is known exhausted (trans >= len) / known not (trans < len) / not tested"""
            res = None
            for d in p.decisions:
                e = d[2]
                if e[0] != 'bin' or e[1] not in ('Lt', 'Le', 'Gt', 'Ge', 'Eq', 'Ne') or d[3] not in (0, 1):
                    continue
                a, b = norm(e[2]), norm(e[3])
                ta, tb = a == norm(fld('trans')), b == norm(fld('trans'))
                la = is_call(a, '::len') and norm(a[2][0]) == norm(fld('node'))
                lb = is_call(b, '::len') and norm(b[2][0]) == norm(fld('node'))
                if ta and lb:
                    op = e[1]
                elif tb and la:
                    op = {'Lt': 'Gt', 'Gt': 'Lt', 'Le': 'Ge', 'Ge': 'Le'}.get(e[1], e[1])
                else:
                    continue
                if not d[3]:
                    op = {'Lt': 'Ge', 'Ge': 'Lt', 'Le': 'Gt', 'Gt': 'Le', 'Eq': 'Ne', 'Ne': 'Eq'}[op]
                # op now relates trans to len and holds on the path
                res = {'Lt': 0, 'Ge': 1, 'Eq': 1, 'Gt': 1}.get(op, 'weak')       # Le / Ne: neither trans < len nor trans >= len
            return res
        if not descended:
            # skip branch: frame exhausted or pruned
            if p.end in ('cut',):
                n_iter += 1
                xk = exhausted_known()
                cmv = [d[3] for d in p.decisions if is_call(d[2], 'Automaton::can_match')]
                if xk in (0, 'weak') and not (cmv and cmv[-1] == 0):
                    ctx.violation(R35 or R43, 'skip-justified', 'a frame is abandoned although it still has transitions to try (not known exhausted) and the automaton did not rule out a match: every key below it is lost', fn=f)
                elif xk is not None:
                    ctx.check(R35 or R43, True, 'skip-justified', '', fn=f)
                root_guard = [d for d in p.decisions if d[2][0] == 'bin' and d[2][1] in ('Ne', 'Eq') and any(is_call(x, '::root_addr') or (x[0] == 'field' and x[2] == 'root_addr') for x in walk(d[2]))]
                at_root = bool(root_guard) and ((root_guard[0][2][1] == 'Ne' and root_guard[0][3] == 0) or (root_guard[0][2][1] == 'Eq' and root_guard[0][3] == 1))
                if want_c03:
                    want = -1 if at_root else 0
                    ctx.check(R35, d_stack - d_inp == want and bool(root_guard), 'balance-skip%s' % ('-root' if at_root else ''),
                              'abandoning a frame changes |stack| by %d and |key buffer| by %d: they must stay in lock step (only the root frame has no key byte)' % (d_stack, d_inp), fn=f)
                if want_c04:
                    cm = [d for d in p.decisions if is_call(d[2], 'Automaton::can_match')]
                    for d in cm:
                        ok = norm(d[2][2][1]) == norm(fld('aut_state'))
                        ctx.check(R43, ok, 'can-match-arg', 'can_match is asked about %s, not about the state stored in the frame being resumed' % fmt(d[2][2][1])[:80], fn=f)
            continue
        # ---- descent ------------------------------------------------------------------------
        tcall = norm(p.sym.call_expr_at((tr_calls[0][0], 'T')))
        okt = norm(tcall[2][0]) == norm(fld('node')) and norm(tcall[2][1]) == norm(fld('trans'))
        if okt:
            xk = exhausted_known()
            if xk is None:
                ctx.undecided(R35 or R43, 'descend-in-range', 'the DFS step reads transition frame.trans without a recognised "trans < number of transitions" test', fn=f, at=tr_calls[0][4].get('span'))
            else:
                ctx.check(R35 or R43, xk == 0, 'descend-in-range', 'the DFS step follows transition number frame.trans on a path where frame.trans < node.len() is not established (exhausted frames are resumed): reads past the node\'s transitions', fn=f, at=tr_calls[0][4].get('span'))
        t_inp, t_out, t_addr = ('field', tcall, 'inp'), ('field', tcall, 'out'), ('field', tcall, 'addr')
        acc = [c for c in calls if isinstance(c[2], str) and c[2].endswith('Automaton::accept')]
        ns = norm(p.sym.call_expr_at((acc[0][0], 'T'))) if acc else None
        frames = [x for x in frames_on_path(f, p) if x[1] is not None]
        at = tr_calls[0][4].get('span')
        if p.end == 'cut' or is_some:
            n_iter += 1
            if want_c03 and not cleared:
                ctx.check(R35, d_stack - d_inp == 0, 'balance-descend', 'descending one transition changes |stack| by %d and |key buffer| by %d: they must grow together' % (d_stack, d_inp), fn=f, at=at)
            if len(frames) == 2:
                par, child = frames[0][1], frames[1][1]
                if want_c03:
                    okp = norm(par.get('node')) == norm(fld('node')) and norm(par.get('out')) == norm(fld('out')) and \
                        norm(par.get('trans')) == ('bin', 'Add', norm(fld('trans')), ('const', 1)) and okt
                    ctx.check(R35, okp, 'dfs-parent-frame', 'the resumed frame must be pushed back unchanged except for trans+1: %s' % {k: fmt(v)[:50] for k, v in par.items()}, fn=f, at=at)
                    okc = child.get('trans') == ('const', 0) and is_call(child.get('node'), '::node') and norm(child['node'][2][1]) == norm(t_addr) and \
                        is_call(child.get('out'), 'Output::cat') and norm(child['out'][2][0]) == norm(fld('out')) and norm(child['out'][2][1]) == norm(t_out)
                    ctx.check(R35, okc, 'dfs-child-frame', 'the child frame must be (target node of the transition, transition 0, output + transition output): %s' % {k: fmt(v)[:60] for k, v in child.items()}, fn=f, at=at)
                if want_c04:
                    oks = ns is not None and norm(ns[2][1]) == norm(fld('aut_state')) and norm(ns[2][2]) == norm(t_inp)
                    okf = norm(par.get('aut_state')) == norm(fld('aut_state')) and norm(child.get('aut_state')) == ns
                    ctx.check(R41, bool(oks and okf), 'dfs-synchrony', 'DFS step: the child frame must carry accept(parent state, byte of the SAME transition) and the parent frame its own state: parent=%s child=%s' % (
                        fmt(par.get('aut_state'))[:60], fmt(child.get('aut_state'))[:90]), fn=f, at=at)
                    pushes = [c for c in calls if isinstance(c[2], str) and c[2].endswith('::push') and arg_loc(f, c[4], 0) == (1, 'inp')]
                    okb = len(pushes) == 1 and norm(pushes[0][3][1]) == norm(t_inp) and ns is not None and norm(ns[2][2]) == norm(t_inp)
                    ctx.check(R42, okb, 'dfs-byte', 'the byte appended to the key buffer and the byte fed to the automaton are not the input byte of the same transition', fn=f, at=at)
            else:
                ctx.undecided(R41 or R35, 'dfs-frames', 'a descending step pushes %d frames (2 expected)' % len(frames), fn=f, at=at)
        if is_some:
            n_emit += 1
            tup = rv[2][0][1]
            key, val, mapped = (tup[1] + (None, None, None))[:3] if tup[0] == 'tuple' else (None, None, None)
            nn = ('call', "raw::FstRef::<'f>::node", (None, t_addr), None)
            fin = [d for d in p.decisions if is_call(d[2], 'Node::<\'f>::is_final')]
            okfin = fin and all(d[3] == 1 for d in fin) and all(is_call(d[2][2][0], '::node') and norm(d[2][2][0][2][1]) == norm(t_addr) for d in fin)
            ex = [d for d in p.decisions if is_call(d[2], 'Bound::exceeded_by')]
            if want_c03:
                okex = ex and ex[-1][3] == 0 and any(x[0] == 'after' and is_call(x[1], '::push') for x in walk(ex[-1][2][2][1]))
                ctx.check(R35, bool(okex), 'emit-cutoff', 'a key is emitted without the upper bound having been tested against the key buffer that includes the new byte', fn=f, at=at)
                okv = is_call(val, 'Output::cat') and is_call(val[2][1], '::final_output') and norm(val[2][1][2][0][2][1]) == norm(t_addr) and \
                    is_call(val[2][0], 'Output::cat') and norm(val[2][0][2][0]) == norm(fld('out')) and norm(val[2][0][2][1]) == norm(t_out)
                ctx.check(R35, okv and bool(okfin), 'emit-value', 'the emitted value must be frame output + transition output + final output of the node reached, and that node must be final: %s' % fmt(val)[:120], fn=f, at=at)
                okk = key is not None and any(x[0] == 'after' and is_call(x[1], '::push') for x in walk(key))
                ctx.check(R35, okk, 'emit-key', 'the emitted key is not the key buffer including the byte just appended', fn=f, at=at)
            if want_c04:
                im = [d for d in p.decisions if is_call(d[2], 'Automaton::is_match') and d[0] > tr_calls[0][0]]       # (not the empty-key test earlier on the path)
                okm = False
                if im and im[-1][3] == 1:
                    arg = norm(im[-1][2][2][1])
                    okm = arg == ns or any(is_call(x, 'Automaton::accept_eof') and norm(x[2][1]) == ns for x in walk(arg))
                if not im:
                    # `accept_eof(&next).map_or(is_match(&next), |eof| is_match(&eof))`: one decision on the combined value
                    mo = [d for d in p.decisions if (is_call(d[2], 'Option::<T>::map_or') or is_call(d[2], 'Option::<T>::map_or_else') or is_call(d[2], 'Option::<T>::is_some_and')) and
                          any(is_call(x, 'Automaton::accept_eof') and norm(x[2][1]) == ns for x in walk(d[2]))]
                    if mo and mo[-1][3] == 1:
                        inner = [x for x in walk(mo[-1][2]) if is_call(x, 'Automaton::is_match')]
                        clos = [x for x in walk(mo[-1][2]) if x[0] == 'closure' and x[1] in lib.fns and any((lib.fns[x[1]].callee_decl(t) or '').endswith('Automaton::is_match') for _, t in lib.fns[x[1]].calls())]
                        okm = bool(clos) and (not inner or all(norm(x[2][1]) == ns for x in inner))
                        im = mo
                ctx.check(R43, bool(okm) and bool(okfin), 'emit-condition', 'a key must be emitted iff the node reached is final AND is_match(state after the key\'s last byte): finality=%s is_match=%s' % (
                    bool(okfin), [fmt(d[2][2][1])[:70] + '=' + str(d[3]) for d in im]), fn=f, at=at)
                okmap = mapped is not None and is_call(mapped, 'call_mut') and ns is not None and any(norm(x) == ns for x in walk(mapped))
                ctx.check(R45, okmap, 'reported-state', 'the state handed to the caller must be the state AFTER consuming the key\'s last byte: %s' % fmt(mapped)[:100], fn=f, at=at)
        elif p.end == 'return' and cleared and want_c03:
            ex = [d for d in p.decisions if is_call(d[2], 'Bound::exceeded_by')]
            ctx.check(R35, bool(ex) and ex[-1][3] == 1 and rv is not None and rv[1].endswith('::None'), 'cutoff-ends-stream', 'the stream is ended (stack cleared) on a path where the upper bound was not exceeded', fn=f, at=at)
    if n_emit == 0:
        ctx.undecided(R43 or R35, 'emit-path', 'no emitting path recognised in the DFS step', fn=f)
    if want_c03 and n_empty == 0:
        ctx.undecided(R36, 'empty-key-path', 'no empty-key path recognised in the DFS step', fn=f)
    ctx.count('dfs_paths', len(paths))
