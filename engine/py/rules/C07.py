"""C07 — output bytes do not depend on how the sink accepts writes."""
from absint import Prover, Linearizer
from lin import Lin, entails_eq
from paths import explore
from sym import fmt, walk
from callgraph import CallGraph
from rules.common import calls_in_loops, adt_base, Anchors, path_calls, ret_kind, root_param, arg_loc
import stdmodel as SM

LEVEL = 'other'       # was 'proof': seeded changes twice found a channel the reduction had not listed (DESIGN.md §7.6), so the honest level is structural
NEED_FIXTURE = True
ROLES = ['lib']
EXPLANATION = ('Reduction (DESIGN.md C07): the builder observes the sink only through the byte counter of its io::Write adapter. '
               'R07.1 decides, on every path of the adapter\'s write/flush, that counter and checksum account for exactly the '
               'bytes the inner writer accepted; R07.2 that plain (short) write() is called nowhere else and every other emission '
               'is write_all; R07.3 that the inner writer is touched only by the adapter, its two getters and the trailing checksum '
               'write; R07.4 that bytes_written() returns that counter; R07.5 that counter and checksum start at zero on the writer '
               'the builder keeps. With std\'s write_all contract the submitted byte sequence is then a function of the keys alone.')
TRUSTED = ['io::Write::write_all contract: Ok(()) iff every byte was accepted in order; Interrupted retried; Ok(0) => WriteZero']
ASSUMPTIONS = ['the sink\'s write() obeys the io::Write contract (returns n <= buf.len(), the first n bytes were accepted)']

SHORT_WRITES = ('std::io::Write::write', 'std::io::Write::write_vectored')


def slice_parts(L, e):
    """(base expr, offset Lin, length Lin) of a slice-valued expression"""
    e = L.pv.inline(e)
    if e[0] == 'call' and isinstance(e[1], str) and e[1] in (SM.SLICE_INDEX, SM.SLICE_INDEX_MUT):
        base, off, ln = slice_parts(L, e[2][0])
        rng = L.pv.inline(e[2][1])
        if rng[0] == 'agg':
            f = dict(rng[2])
            n = rng[1]
            if n.endswith('RangeTo'):
                en = L.lin(f.get('end'))
                return (base, off, en) if en is not None else (base, None, None)
            if n.endswith('RangeFrom'):
                st = L.lin(f.get('start'))
                return (base, off + st, ln - st) if st is not None and off is not None else (base, None, None)
            if n.endswith('ops::Range'):
                st, en = L.lin(f.get('start')), L.lin(f.get('end'))
                if st is not None and en is not None and off is not None:
                    return (base, off + st, en - st)
            if n.endswith('RangeFull'):
                return (base, off, ln)
        return (base, None, None)
    if e[0] == 'field' and e[2] in ('0', '1') and e[1][0] == 'call' and isinstance(e[1][1], str) and e[1][1].endswith(('<impl [T]>::split_at', '<impl [T]>::split_at_mut')):
        # s.split_at(mid) = (&s[..mid], &s[mid..])
        base, off, ln = slice_parts(L, e[1][2][0])
        mid = L.lin(e[1][2][1])
        if mid is None or off is None:
            return (base, None, None)
        return (base, off, mid) if e[2] == '0' else (base, off + mid, (ln - mid) if ln is not None else None)
    return (e, Lin.const(0), L.slice_len(e))


def r07_1(ctx, A, pv):
    R = ctx.rule('R07.1', 'counter and checksum account for exactly the bytes the inner writer accepted', floor=2)
    lib = ctx.lib
    impl = A.write_impl_fns()
    if 'write' not in impl or 'flush' not in impl:
        ctx.missing(R, 'anchor:write-impl', 'io::Write impl of the counting writer not found')
        return
    for mname, f in sorted(impl.items()):
        if mname not in ('write', 'write_all', 'flush'):
            ctx.undecided(R, 'method:' + mname, 'the counting writer overrides io::Write::%s, which the accounting rule does not model' % mname, fn=f)
            continue
        paths = explore(f, max_visits=1, havoc=True)
        L = Linearizer(pv, f)
        n_ok = 0
        for p in paths:
            if p.end != 'return':
                continue
            calls = path_calls(p)
            inner = []
            updates = []
            for (k, bid, callee, args, t) in calls:
                decl = f.callee_decl(t)
                l0 = arg_loc(f, t, 0)
                if decl in SM.IO_WRITE_METHODS and args:
                    if l0 is not None and l0[:2] == (1, A.cw_inner):
                        inner.append((decl, args, t, k))
                elif callee in lib.fns and args:
                    if l0 is not None and l0[:2] == (1, A.cw_sum):
                        updates.append((callee, args, t, k))
            rk = ret_kind(p.ret())
            stores = [(loc, st, k, i) for (k, i, loc, st) in p.stores() if loc[:1] == (1,)]
            if mname == 'flush':
                fl = [c for c in inner if c[0] == SM.IO_FLUSH]
                if rk == 'ok' or rk.startswith('passthrough'):
                    good = len(fl) >= 1 and (rk == 'ok' or rk == 'passthrough:' + SM.IO_FLUSH)
                    ctx.check(R, good, 'flush:forwarded', 'flush() of the counting writer can return success without the inner flush having succeeded', fn=f,
                              detail='path %s returns %s with %d inner flush call(s)' % (p.blocks, rk, len(fl)))
                    n_ok += 1
                continue
            if rk == 'err' and mname in ('write', 'write_all') and not inner:
                # an error of the adapter's own making: the sink was not even asked.  Whatever state triggers it (a sticky "failed"
                # flag set by a transient Interrupted, a budget, a size limit), the outcome now depends on that state and not on the
                # answers of the sink - write_all's retry after Interrupted runs into it
                ctx.violation(R, '%s:own-error' % mname, 'the counting writer\'s %s returns an error on a path that never forwards to the inner writer (%s): a sink that recovers (Interrupted, then success) still fails the build' % (
                    mname, fmt(p.decisions[-1][2])[:80] if p.decisions else 'unconditionally'), fn=f)
                continue
            if rk in ('residual', 'err'):
                continue
            if rk != 'ok':
                ctx.undecided(R, '%s:return-shape' % mname, 'return value %s of the counting writer\'s %s is not a recognised form' % (fmt(p.ret())[:120], mname), fn=f)
                continue
            n_ok += 1
            buf = ('param', f.local_name(2), 2)
            at = f.span
            if not inner:
                # success without forwarding anything: must account for nothing
                okv = dict(p.ret()[2]).get('0')
                nothing = not updates and not stores and (mname == 'write_all' or (okv is not None and okv == ('const', 0)))
                ctx.check(R, nothing, '%s:no-inner' % mname, '%s returns Ok on a path that never forwards to the inner writer but still reports/accounts bytes' % mname, fn=f)
                continue
            if len(inner) > 1 and all(c[0] in ('std::io::Write::write', 'std::io::Write::write_all') for c in inner) and not any(
                    inner[0][3] <= u[3] <= inner[1][3] for u in updates) and not any(inner[0][3] <= st[2] <= inner[1][3] for st in stores):
                # several forwarding calls in one write(): an error from a later one is returned before the bytes accepted by an
                # earlier one are accounted for, and the caller (write_all on Interrupted) re-submits them
                ctx.violation(R, '%s:inner-calls' % mname, 'the adapter forwards to the inner writer %d times in one call: bytes accepted by the first call are lost from counter and checksum when a later call fails' % len(inner), fn=f)
                continue
            if len(inner) != 1 or inner[0][0] not in ('std::io::Write::write', 'std::io::Write::write_all'):
                ctx.undecided(R, '%s:inner-calls' % mname, '%d inner writer calls (%s) on one success path: not a shape the rule decides' % (len(inner), [c[0] for c in inner]), fn=f)
                continue
            decl, iargs, it, _k = inner[0]
            at = it.get('span')
            ibase, ioff, ilen = slice_parts(L, iargs[1])
            if ibase != buf or ioff is None or not entails_eq([], ioff, Lin.const(0)):
                ctx.undecided(R, '%s:inner-arg' % mname, 'the inner writer is not handed a prefix of the caller\'s buffer: %s' % fmt(iargs[1])[:120], fn=f, at=at)
                continue
            if decl == 'std::io::Write::write':
                call = p.sym.call_expr_at((next(k for (k, b, c, a, t) in calls if t is it), 'T'))
                n = L.lin(('okof', call))
                ndesc = 'n = Ok payload of the inner write()'
            else:
                n = ilen
                ndesc = 'n = length handed to the inner write_all()'
            # (1) checksum covers buf[0..n]
            if len(updates) != 1:
                ctx.violation(R, 'checksum-arg', 'the rolling checksum is updated %d times on a success path of %s (exactly once with the accepted bytes expected)' % (len(updates), mname), fn=f, at=at)
            else:
                ub, uo, ul = slice_parts(L, updates[0][1][1])
                good = (ub == buf and uo is not None and ul is not None and entails_eq([], uo, Lin.const(0)) and entails_eq(L.range_constraints([ul, n]), ul, n))
                ctx.check(R, good, 'checksum-arg',
                          'the checksum is fed %s but the inner writer accepted buf[0..n] (%s): a sink that accepts a proper prefix gets a checksum over bytes it never received' % (fmt(updates[0][1][1])[:100], ndesc),
                          fn=f, at=updates[0][2].get('span'), detail={'checksum_arg': fmt(updates[0][1][1])[:160], 'accepted': ndesc})
            # (2) counter += n
            cs = [s for s in stores if s[0] == (1, A.cw_cnt)]
            if len(cs) != 1:
                ctx.violation(R, 'counter-delta', 'the byte counter is stored %d times on a success path of %s' % (len(cs), mname), fn=f, at=at)
            else:
                loc, st, k, i = cs[0]
                val = L.lin(p.sym.rvalue_at(st['rv'], (k, i)))
                old = L.lin(('field', ('param', f.local_name(1), 1), A.cw_cnt))
                good = val is not None and entails_eq([], val - old, n)
                ctx.check(R, good, 'counter-delta', 'the byte counter changes by %s, not by the number of accepted bytes' % (repr(val - old) if val is not None else '?'), fn=f,
                          at='%s:%s' % (f.file(), st.get('line')), detail={'delta': repr(val - old) if val is not None else None, 'accepted': repr(n)})
            others = [s for s in stores if s[0] != (1, A.cw_cnt)]
            for loc, st, k, i in others:
                ctx.undecided(R, 'store:' + '.'.join(map(str, loc[1:])), 'unexpected store to %s in the counting writer' % (loc,), fn=f)
            # (3) reported length
            if mname == 'write':
                okv = dict(p.ret()[2]).get('0')
                lv = L.lin(okv) if okv is not None else None
                ctx.check(R, lv is not None and entails_eq([], lv, n), 'result', 'write() reports %s bytes but the inner writer accepted n' % (fmt(okv)[:80] if okv else '?'), fn=f, at=at)
        if n_ok == 0:
            ctx.undecided(R, '%s:no-success-path' % mname, 'no success path found in %s' % f.path, fn=f)


def r07_2(ctx, A):
    R = ctx.rule('R07.2', 'short write() only inside the counting adapter; every other emission is write_all', floor=10)
    lib = ctx.lib
    impl = A.write_impl_fns()
    allowed = {impl[m].path for m in impl if m in ('write',)}

    def scan(crate):
        shorts, alls = [], []
        for f in crate.fn_list:
            for bid, t in f.calls():
                decl = f.callee_decl(t)
                if decl in SHORT_WRITES:
                    shorts.append((f, bid, t))
                elif decl == SM.IO_WRITE_ALL:
                    alls.append((f, bid, t))
        return shorts, alls
    shorts, alls = scan(lib)
    for f, bid, t in shorts:
        if f.path in allowed:
            ctx.ok(R, 'short-write:' + f.path, 'the adapter forwards write() (accounted by R07.1)', fn=f, at=t.get('span'))
        else:
            ctx.violation(R, 'short-write:' + f.path, 'io::Write::write (may accept only a prefix) is called outside the counting adapter; the unwritten suffix is lost', fn=f, at=t.get('span'))
    for f, bid, t in alls:
        ctx.ok(R, 'write_all:%s' % f.path, None, fn=f, at=t.get('span'))
    ctx.count('write_all_sites', len(alls))
    fs, _ = scan(ctx.fixture)
    ctx.check(R, any(f.path == 'ctl_plain_write' for f, _, _ in fs), 'control-fixture', 'the scan no longer sees the fixture\'s plain write(): checker broken', kind='violation')


def r07_3(ctx, A):
    R = ctx.rule('R07.3', 'the inner writer is reachable only through the adapter, its getters and the checksum write', floor=4)
    lib = ctx.lib
    impl = A.write_impl_fns()
    allowed_impl = {impl[m].path for m in impl}
    getters = set()
    for f in lib.fn_list:
        acc = list(f.field_accesses(A.cw, A.cw_inner))
        if not acc:
            continue
        if f.path in allowed_impl:
            ctx.ok(R, 'access:' + f.path, 'io::Write impl', fn=f)
            continue
        # a getter: no call takes the inner writer as receiver/argument other than to return it
        uses_in_calls = [a for a in acc if a[3] in ('arg',)]
        passes = False
        for bid, t in f.calls():
            for a in t['args']:
                pl = a.get('copy') or a.get('move')
                if pl is not None:
                    loc = f.loc(pl)
                    # argument rooted at self.<inner> (through reference temporaries)
                    if A.cw_inner in loc[1:2] and f.local_ty(loc[0]).find(A.cw) >= 0:
                        passes = True
        is_cw_method = bool(f.impl) and adt_base(f.impl['self_ty']) == A.cw and not f.impl.get('trait_path')
        if is_cw_method and not passes and not uses_in_calls:
            getters.add(f.path)
            ctx.ok(R, 'access:' + f.path, 'getter / constructor of the adapter (hands the writer out, never writes)', fn=f)
        else:
            ctx.violation(R, 'access:' + f.path, 'function reaches the inner writer of the counting adapter directly; bytes written this way bypass counter and checksum', fn=f)
    # who may call the getters that hand the writer out
    cg = CallGraph(lib)
    bm = {f.path for f in A.builder_methods()}
    for g in sorted(getters):
        gf = lib.fns[g]
        if gf.path.endswith('::new'):
            continue
        for caller in sorted(cg.rev.get(g, ())):
            ctx.check(R, caller in bm, 'caller:%s<-%s' % (g, caller), 'the raw sink is handed out to %s, outside the builder' % caller, fn=lib.fns.get(caller))


def r07_4(ctx, A, pv):
    R = ctx.rule('R07.4', 'bytes_written() returns the adapter\'s byte counter', floor=1)
    lib = ctx.lib
    f = [m for m in A.builder_methods() if m.path.endswith('::bytes_written')]
    if len(f) != 1:
        ctx.missing(R, 'anchor:bytes_written', 'Builder::bytes_written not found')
        return
    f = f[0]
    for p in explore(f, max_visits=1, havoc=True):
        if p.end != 'return':
            continue
        v = pv.inline(p.ret())
        while v[0] == 'cast':
            v = v[1]
        want = ('field', ('field', ('param', f.local_name(1), 1), A.b_wtr), A.cw_cnt)
        ctx.check(R, v == want, 'value', 'bytes_written() returns %s, not the counter that R07.1 ties to the accepted bytes' % fmt(v)[:120], fn=f, detail=fmt(v))


def r07_5(ctx, A, pv):
    R = ctx.rule('R07.5', 'counter and checksum start at zero on the very writer the builder keeps; the header is its first emission', floor=3)
    lib = ctx.lib
    new = lib.fn(A.cw + '::<W>::new')
    if new is None:
        ctx.missing(R, 'anchor:cw-new', 'constructor of the counting writer not found')
        return
    rets = [p for p in explore(new, max_visits=1, havoc=True) if p.end == 'return']
    for p in rets:
        v = pv.inline(p.ret())
        ok = v[0] == 'agg' and v[1] == A.cw
        fm = dict(v[2]) if ok else {}
        ctx.check(R, ok and fm.get(A.cw_cnt) == ('const', 0), 'counter-init', 'the byte counter does not start at 0: %s' % fmt(fm.get(A.cw_cnt))[:80], fn=new)
        sm = fm.get(A.cw_sum)
        zero = sm is not None and sm[0] == 'agg' and all(x == ('const', 0) for _, x in sm[2])
        ctx.check(R, zero, 'checksum-init', 'the rolling checksum does not start from the empty-input state: %s' % fmt(sm)[:80], fn=new)
        ctx.check(R, fm.get(A.cw_inner) == ('param', new.local_name(1), 1), 'inner-init', 'the adapter does not wrap the writer it was given', fn=new)
    # the builder constructor keeps that writer
    ctors = [f for f in A.builder_methods() if any(isinstance(st['rv'].get('agg'), dict) and st['rv']['agg'].get('adt') == A.builder
                                                   for b in f.normal_blocks() for st in b['stmts'] if st['k'] == 'assign')]
    for f in ctors:
        for p in explore(f, max_visits=1, havoc=True):
            if p.end != 'return' or ret_kind(p.ret()) != 'ok':
                continue
            b = dict(p.ret()[2]).get('0')
            if b is None or b[0] != 'agg' or b[1] != A.builder:
                ctx.undecided(R, 'builder-ctor-shape:' + f.path, 'builder constructor returns %s' % fmt(b)[:100], fn=f)
                continue
            w = dict(b[2]).get(A.b_wtr)
            # strip the emission calls that used it
            n_em = 0
            while w is not None and w[0] == 'after':
                n_em += 1
                w = w[3]
            good = w is not None and w[0] == 'call' and w[1] == new.path and w[2] and w[2][0][0] == 'param'
            if not good and w is not None and w[0] in ('havoc', 'phi') and calls_in_loops(f, lambda c: c in lib.fns or c == SM.IO_WRITE_ALL):
                ctx.undecided(R, 'builder-keeps-writer:' + f.path, 'the header is written from inside a loop: the writer kept by the builder is a loop-carried value the rule does not follow', fn=f)
                continue
            ctx.check(R, good, 'builder-keeps-writer:' + f.path, 'the builder does not keep the counting writer that received the header (its counter would not include the header bytes): %s' % fmt(w)[:120],
                      fn=f, detail='%d header emissions precede construction' % n_em)


def run(ctx):
    A = Anchors(ctx.lib)
    if A.err:
        for e in A.err:
            ctx.missing('R07.1', 'anchor', e)
        return
    pv = Prover(ctx.lib)
    ctx.step(r07_1, ctx, A, pv)
    ctx.step(r07_2, ctx, A)
    ctx.step(r07_3, ctx, A)
    ctx.step(r07_4, ctx, A, pv)
    ctx.step(r07_5, ctx, A, pv)
    # R07.6 = R11.3: a buffering sink ends up with all bytes only if the flush is the last I/O on the raw sink
    import rules.C11 as C11
    ctx.step(C11.r11_3, ctx, A)
    ctx.rules['R07.6'] = ctx.rules.pop('R11.3')
    ctx.rules['R07.6']['title'] = 'finish protocol (= R11.3): footer and checksum are written before the final flush of the raw sink, nothing after it'
    for v in ctx.violations:
        if v['rule'] == 'R11.3':
            v['rule'] = 'R07.6'
            v['key'] = v['key'].replace('R11.3|', 'R07.6|', 1)
    for sm in ctx.samples:
        if sm['rule'] == 'R11.3':
            sm['rule'] = 'R07.6'
    ctx.notes.append({'anchors': {'builder': A.builder, 'writer_field': A.b_wtr, 'counting_writer': A.cw, 'inner': A.cw_inner, 'counter': A.cw_cnt, 'checksum': A.cw_sum}})
