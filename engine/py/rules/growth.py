"""Who-may-grow / who-may-allocate analyses shared by C13 and C14."""
import re
from callgraph import CallGraph
from rules.common import arg_loc, adt_base
import stdmodel as SM

CONTAINER = re.compile(r'std::vec::Vec<|std::collections::|std::string::String|std::boxed::Box<\[|VecDeque<|BinaryHeap<|HashMap<|HashSet<|BTreeMap<|BTreeSet<')


def container_fields(crate, adts):
    """[(adt, field, type)] for fields of the given ADTs whose type can hold a growing amount of heap"""
    out = []
    for a in adts:
        d = crate.adts.get(a)
        if not d:
            continue
        for v in d['variants']:
            for f in v['fields']:
                if CONTAINER.search(f['ty']):
                    out.append((a, f['name'], f['ty']))
    return out


def owned_adts(crate, roots, limit=40):
    """local ADTs reachable through fields from the root ADTs"""
    seen = []
    work = list(roots)
    while work and len(seen) < limit:
        a = work.pop()
        if a in seen or a not in crate.adts:
            continue
        seen.append(a)
        for v in crate.adts[a]['variants']:
            for f in v['fields']:
                for m in re.findall(r'([a-z_][\w:]*::[A-Z]\w*)', f['ty']):
                    if m in crate.adts and m not in seen:
                        work.append(m)
    return seen


def root_kind(f, loc):
    """'state' if the receiver is reachable from a parameter (the caller's long-lived object), 'local' otherwise"""
    if loc is None:
        return 'unknown'
    r = loc[0]
    if 1 <= r <= f.arg_count:
        ty = f.local_ty(r)
        # by-value collection parameters that are consumed / returned are the caller's business too
        return 'state'
    return 'local'


def growth_sites(crate, cg, roots, stop=()):
    """[(fn, term, callee, receiver loc, kind)] for growth calls in lib functions reachable from roots"""
    out = []
    reach = [p for p in cg.reachable(roots, stop=stop) if p in crate.fns]
    for path in sorted(reach):
        f = crate.fns[path]
        for bid, t in f.calls():
            c = f.callee(t)
            d = f.callee_decl(t)
            g = c if SM.is_grow(c) else (d if SM.is_grow(d) else None)
            if g is None:
                continue
            loc = arg_loc(f, t, 0)
            out.append((f, t, g, loc, root_kind(f, loc)))
    return out, reach


def resolve_param_sites(crate, cg, f, loc, depth=0):
    """a growth receiver rooted at a by-reference PARAMETER (not self): where do the callers get it from?
    returns list of (caller fn, loc in caller) or None if it cannot be followed"""
    if depth > 3 or loc is None or len(loc) != 1 or not (2 <= loc[0] <= f.arg_count):
        return None
    ai = loc[0] - 1
    out = []
    for caller in sorted(cg.rev.get(f.path, ())):
        cf = crate.fns.get(caller)
        if cf is None:
            return None
        for bid, t in cf.calls():
            if cf.callee(t) == f.path:
                l = arg_loc(cf, t, ai)
                if l is None:
                    return None
                if len(l) == 1 and 2 <= l[0] <= cf.arg_count:
                    sub = resolve_param_sites(crate, cg, cf, l, depth + 1)
                    if sub is None:
                        return None
                    out.extend(sub)
                else:
                    out.append((cf, l))
    return out or None


def type_sig(ty):
    """coarse, compilation-stable signature of a container type: outer Option/Box, container kind, head of the element type"""
    m = re.search(r'(Vec|BinaryHeap|HashMap|HashSet|VecDeque|BTreeMap|BTreeSet|String|Box<\[)<?\s*([A-Za-z_][\w:]*)?', ty)
    if not m:
        return ty[:40]
    return '%s%s<%s' % ('Option<' if ty.startswith('std::option::Option<') else '', m.group(1), m.group(2) or '')


def type_inventory(crate, adts):
    """multiset of (adt, container type signature) - robust against field renames and compilation-specific ids"""
    from collections import Counter
    return Counter((a, type_sig(ty)) for a, f, ty in container_fields(crate, adts))


def site_key(f, g, loc):
    path = '.'.join(str(x) for x in (loc[1:] if loc else ())) or '<self>'
    return '%s|%s|%s' % (f.path, path, g.rsplit('::', 1)[-1])


def alloc_sites(crate, cg, roots, stop=()):
    out = []
    reach = [p for p in cg.reachable(roots, stop=stop) if p in crate.fns]
    for path in sorted(reach):
        f = crate.fns[path]
        for bid, t in f.calls():
            c = f.callee(t)
            d = f.callee_decl(t)
            for x in (c, d):
                if SM.is_alloc(x):
                    out.append((f, t, x))
                    break
    return out, reach


def cleared_before(f, t_bid, loc):
    """is there a clear()/truncate(0) of the same receiver that dominates the growth call (same function)"""
    for bid, t in f.calls():
        c = f.callee(t) or ''
        if c.endswith('::clear') or c.endswith('::truncate'):
            l = arg_loc(f, t, 0)
            if l == loc and f.dominates(bid, t_bid) and bid != t_bid:
                return True
    return False
