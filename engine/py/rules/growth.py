"""Who-may-grow / who-may-allocate analyses shared by C13 and C14."""
import re
from callgraph import CallGraph
from rules.common import arg_loc, adt_base
import stdmodel as SM

CONTAINER = re.compile(r'std::vec::Vec<|std::collections::|std::string::String|std::boxed::Box<\[|VecDeque<|BinaryHeap<|HashMap<|HashSet<|BTreeMap<|BTreeSet<')


def container_fields(crate, adts):
    """[(adt, field, type)] for fields of the given ADTs whose type can hold a growing amount of heap"""
    out = []
    for a in adts:
        d = crate.adts.get(a)
        if not d:
            continue
        for v in d['variants']:
            for f in v['fields']:
                if CONTAINER.search(f['ty']):
                    out.append((a, f['name'], f['ty']))
    return out


def owned_adts(crate, roots, limit=40):
    """local ADTs reachable through fields from the root ADTs"""
    seen = []
    work = list(roots)
    while work and len(seen) < limit:
        a = work.pop()
        if a in seen or a not in crate.adts:
            continue
        seen.append(a)
        for v in crate.adts[a]['variants']:
            for f in v['fields']:
                for m in re.findall(r'([a-z_][\w:]*::[A-Z]\w*)', f['ty']):
                    if m in crate.adts and m not in seen:
                        work.append(m)
    return seen


def root_kind(f, loc):
    """'state' if the receiver is reachable from a parameter (the caller's long-lived object), 'local' otherwise"""
    if loc is None:
        return 'unknown'
    r = loc[0]
    if 1 <= r <= f.arg_count:
        ty = f.local_ty(r)
        # by-value collection parameters that are consumed / returned are the caller's business too
        return 'state'
    return 'local'


def growth_sites(crate, cg, roots, stop=()):
    """[(fn, term, callee, receiver loc, kind)] for growth calls in lib functions reachable from roots"""
    out = []
    reach = [p for p in cg.reachable(roots, stop=stop) if p in crate.fns]
    for path in sorted(reach):
        f = crate.fns[path]
        for bid, t in f.calls():
            c = f.callee(t)
            d = f.callee_decl(t)
            g = c if SM.is_grow(c) else (d if SM.is_grow(d) else None)
            if g is None:
                continue
            loc = arg_loc(f, t, 0)
            out.append((f, t, g, loc, root_kind(f, loc)))
    return out, reach


def site_key(f, g, loc):
    path = '.'.join(str(x) for x in (loc[1:] if loc else ())) or '<self>'
    return '%s|%s|%s' % (f.path, path, g.rsplit('::', 1)[-1])


def alloc_sites(crate, cg, roots, stop=()):
    out = []
    reach = [p for p in cg.reachable(roots, stop=stop) if p in crate.fns]
    for path in sorted(reach):
        f = crate.fns[path]
        for bid, t in f.calls():
            c = f.callee(t)
            d = f.callee_decl(t)
            for x in (c, d):
                if SM.is_alloc(x):
                    out.append((f, t, x))
                    break
    return out, reach


def cleared_before(f, t_bid, loc):
    """is there a clear()/truncate(0) of the same receiver that dominates the growth call (same function)"""
    for bid, t in f.calls():
        c = f.callee(t) or ''
        if c.endswith('::clear') or c.endswith('::truncate'):
            l = arg_loc(f, t, 0)
            if l == loc and f.dominates(bid, t_bid) and bid != t_bid:
                return True
    return False
