"""C09 — builder output conforms to the documented version-3 on-disk format."""
from rules import layout, formatrules

LEVEL = 'other'
ROLES = ['lib']
EXPLANATION = ('Family F1 against the declarative format table (DESIGN.md §3 / spec/format.py): R09.1 format constants and the common-input '
               'tables; R09.2 state-byte tags and fields (bit provenance); R09.3 sizes-byte nibbles; R09.4 little-endian minimal-width '
               'integer packing and its width thresholds; R09.5 the emission order, direction, width argument and presence guard of every '
               'section of the three node encoders, the max-width computation and the index table; R09.6 form selection; R09.7 delta '
               'addressing (0 <-> empty final node, base = node start); R09.8 header and footer words and their order. The reader-side '
               'half of the same table is decided under C01/C02/C10. Not decided: that decoding by the spec yields exactly the inserted '
               'map for every input (inherits the value-level part of C01).')
TRUSTED = ['the format table in spec/format.py was transcribed from the format comments of the pinned revision']
ASSUMPTIONS = []


def run(ctx):
    ctx.step(formatrules.constants, ctx)
    ctx.step(formatrules.state_and_sizes_bits, ctx)
    ctx.step(formatrules.packing, ctx)
    R = {'events': ctx.rule('R09.5', 'emission languages: order, direction, width and guard of every section; max widths; index table', floor=20),
         'widths': 'R09.5', 'index': 'R09.5',
         'sizes': ctx.rule('R09.3', 'sizes byte: transition width in the high nibble, output width in the low nibble; provenance of the recorded widths', floor=5),
         'state': ctx.rule('R09.2', 'state byte: tags 11 / 10 / 0f, low six bits = common-input index or transition count', floor=8)}
    ctx.step(layout.writer_rules, ctx, R)
    ctx.step(formatrules.form_selection, ctx)
    ctx.step(formatrules.delta_addressing, ctx)
    ctx.step(formatrules.header_footer, ctx)
    # the footer's first word is the NUMBER OF KEYS: the accounting of that counter is R01.2
    import rules.C01 as C01
    from rules.common import Anchors as _A
    a01 = _A(ctx.lib)
    if not a01.err:
        ctx.step(C01.r01_2, ctx, a01)
        # the body is the concatenation of the encoded nodes (no padding between them): the tiling rule R01.3
        ctx.step(C01.r01_3, ctx, a01)
    # the checksum clause of the format ("trailing word = masked CRC-32C of ALL preceding bytes") is the coverage rule of C08
    import rules.C08 as C08
    from rules.common import Anchors
    from absint import Prover
    A = Anchors(ctx.lib)
    if not A.err:
        pv = Prover(ctx.lib)
        ctx.step(C08.r08_1, ctx)
        mf = ctx.step(C08.r08_2, ctx, A)
        ctx.step(C08.r08_4, ctx, A, pv, mf, ctx.lib.fn(C08.SLICE16))
        # "... of ALL preceding bytes" for every sink: the rolling sum must be fed exactly the bytes the sink accepted (R07.1)
        import rules.C07 as C07
        ctx.step(C07.r07_1, ctx, A, pv)
    # the files the CLI writes FSTs into start empty (no stale tail behind the new image)
    from rules import cli
    ctx.step(cli.fresh_sinks, ctx, ctx.rule('R09.9', 'CLI outputs are created empty (File::create / truncate / create_new)', floor=3))
    ctx.step(cli.builders_finished, ctx, 'R09.9')
    # the artefact is complete: every success of the finishing routine has written pending nodes, footer, checksum and flushed (R11.3)
    import rules.C11 as C11
    if not A.err:
        ctx.step(C11.r11_3, ctx, A)
    # what a command writes as an FST comes out of the CURRENT writer: a command that copies an input file to its output (a "nothing to
    # do" shortcut for a single input) passes on whatever version, type word and values that file has
    b = ctx.bin
    if b is not None:
        RA = ctx.rule('R09.10', 'CLI commands produce their FST with the builder, not by copying a file', floor=1)
        n_b = 0
        for g in b.fn_list:
            if g.from_expansion or not g.path.startswith(('cmd::', '<cmd::')):
                continue
            for _, t in g.calls():
                cal = g.callee(t) or ''
                if cal in ('std::fs::copy', 'std::io::copy', 'std::fs::rename', 'std::fs::hard_link') or (cal.startswith('std::fs::') and cal.rsplit('::', 1)[-1] in ('copy', 'rename', 'hard_link')):
                    ctx.violation(RA, 'file-copy:' + g.path, '%s produces its output with %s: the result is a byte copy of an input (its version, type word, values and missing checksum included), not an FST written by this builder' % (g.path, cal), fn=g, at=t.get('span'))
                if cal.startswith('fst::') and 'Builder' in cal and cal.endswith('::new'):
                    n_b += 1
                    ctx.ok(RA, 'built:%s#%s' % (g.path, t.get('span')), None, g, t.get('span'))
        if n_b == 0:
            ctx.undecided(RA, 'built', 'no builder construction found in the commands')
        # a command that can send its FST to stdout (`-`) must not print anything else there: a progress or summary line lands inside or
        # behind the image
        RB = ctx.rule('R09.11', 'commands that write an FST print nothing to stdout themselves', floor=1)
        writers = [g for g in b.fn_list if g.path.startswith(('cmd::set::', 'cmd::map::', 'cmd::union::', 'merge::', '<merge::')) and not g.from_expansion]
        bad_p = [(g, t) for g in writers for _, t in g.calls() if (g.callee(t) or '') in ('std::io::_print', 'std::io::stdio::_print') or (g.callee(t) or '').endswith('io::_print')]
        for g, t in bad_p:
            ctx.violation(RB, 'stdout-print:' + g.path, '%s prints to stdout although its FST may be written there (output `-`): the text ends up inside the file image' % g.path, fn=g, at=t.get('span'))
        ctx.check(RB, not bad_p and bool(writers), 'no-stdout-print', 'stdout prints in FST-writing commands')
