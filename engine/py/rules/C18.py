"""C18 — built-in automata and combinators: sound pruning hints (structural part)."""
import itertools
from paths import explore
from sym import fmt, walk
from rules.common import path_calls
from rules.streams import norm, is_call

LEVEL = 'other'
ROLES = ['lib']
EXPLANATION = ('Decides hint soundness, not the languages of Str/Subsequence as such: R18.1 for every combinator the truth table of '
               'is_match / can_match / will_always_match over the component\'s own answers is reconstructed from MIR (short-circuit CFGs '
               'included) and checked, by exhaustive enumeration of all semantic worlds (reachability facts CM*, WAM*, M of each component '
               'with WAM* => M => CM*) and all SOUND component hints, to entail the combinator\'s own soundness (can_match false => no '
               'continuation matches; will_always_match true => every continuation matches) and the Boolean language clause; StartsWith is '
               'checked per state variant; R18.2 leaf hints: the class where can_match is false is closed under accept and disjoint from '
               'is_match, the class where will_always_match is true is closed and inside is_match; R18.3 start/accept of the combinators are '
               'the componentwise constructions and &T delegates each method to its namesake.')
TRUSTED = ['Option / PartialEq semantics on Option<usize>']
ASSUMPTIONS = ['component automata have sound hints (premise of the property)']

AUT = 'inner_automaton::Automaton::'
IMPL = '<inner_automaton::%s as inner_automaton::Automaton>::%s'
METHODS = ('is_match', 'can_match', 'will_always_match')


def truth_table(ctx, f, atoms_of):
    """evaluate a bool method under every assignment of its component-call atoms; returns (atoms, {assignment: value})"""
    # discover atoms: calls to Automaton::<m> on self.<i>
    found = []
    for p in explore(f, max_visits=1):
        for d in p.decisions:
            a = atoms_of(d[2])
            if a and a not in found:
                found.append(a)
        if p.end == 'return':
            a = atoms_of(strip_not(p.ret()))
            if a and a not in found:
                found.append(a)
    table = {}
    for vals in itertools.product((0, 1), repeat=len(found)):
        asg = dict(zip(found, vals))

        def oracle(e, c):
            a = atoms_of(e)
            if a in asg:
                return asg[a]
            if e[0] == 'un' and e[1] == 'Not':
                v = oracle(e[2], c)
                return None if v is None else 1 - v
            return None
        outs = set()
        for p in explore(f, oracle=oracle, max_visits=1):
            if p.end != 'return':
                continue
            rv = p.ret()
            v = value_of(rv, asg, atoms_of)
            outs.add(v)
        table[vals] = outs.pop() if len(outs) == 1 else None
    return found, table


def strip_not(e):
    while e[0] == 'un' and e[1] == 'Not':
        e = e[2]
    return e


def value_of(e, asg, atoms_of):
    if e[0] == 'const':
        return e[1]
    if e[0] == 'un' and e[1] == 'Not':
        v = value_of(e[2], asg, atoms_of)
        return None if v is None else 1 - v
    a = atoms_of(e)
    if a in asg:
        return asg[a]
    return None


def comp_atom(e):
    """('cm'|'wam'|'m', component index) for a call Automaton::<method>(self.<i>, state.<i>)"""
    if e[0] == 'call' and isinstance(e[1], str) and e[1].startswith(AUT) and e[1][len(AUT):] in METHODS:
        recv = e[2][0]
        st = e[2][1]
        if recv[0] == 'field' and recv[1][0] == 'param' and recv[1][2] == 1:
            comp = recv[2]
            # the state handed over must be the matching component of the state
            ok_state = (st[0] == 'field' and st[2] == comp) or (st[0] == 'field' and st[1][0] == 'variant')
            if ok_state:
                return ({'is_match': 'm', 'can_match': 'cm', 'will_always_match': 'wam'}[e[1][len(AUT):]], comp)
            return ('mismatched-state', comp)
    return None


def worlds(ncomp):
    """all (CM*, WAM*, M, cm, wam) per component with WAM* => M => CM* and sound hints (not cm => not CM*, wam => WAM*)"""
    one = []
    for CM, WAM, M, cm, wam in itertools.product((0, 1), repeat=5):
        if WAM and not M:
            continue
        if M and not CM:
            continue
        if not cm and CM:
            continue
        if wam and not WAM:
            continue
        one.append({'CM': CM, 'WAM': WAM, 'M': M, 'cm': cm, 'wam': wam, 'm': M})
    return list(itertools.product(one, repeat=ncomp))


def r18_1(ctx):
    R = ctx.rule('R18.1', 'combinator hints are sound for every sound component (exhaustive entailment over truth tables)', floor=11)
    lib = ctx.lib
    specs = {
        'Union<A, B>': {'lang': lambda w: w[0]['M'] or w[1]['M'], 'CM': lambda w: w[0]['CM'] or w[1]['CM'], 'WAM_lb': lambda w: w[0]['WAM'] or w[1]['WAM']},
        'Intersection<A, B>': {'lang': lambda w: w[0]['M'] and w[1]['M'], 'CM': lambda w: w[0]['CM'] and w[1]['CM'], 'WAM_lb': lambda w: w[0]['WAM'] and w[1]['WAM']},
        'Complement<A>': {'lang': lambda w: not w[0]['M'], 'CM': lambda w: not w[0]['WAM'], 'WAM_lb': lambda w: not w[0]['CM']},
    }
    for ty, sp in specs.items():
        ncomp = 2 if 'B' in ty else 1
        W = worlds(ncomp)
        for m in METHODS:
            f = lib.fn(IMPL % (ty, m))
            if f is None:
                ctx.missing(R, 'anchor:%s::%s' % (ty, m), 'method not found')
                continue
            atoms, table = truth_table(ctx, f, comp_atom)
            if any(a[0] == 'mismatched-state' for a in atoms) or any(v is None for v in table.values()):
                ctx.undecided(R, '%s::%s' % (ty, m), 'cannot reconstruct %s as a Boolean function of its components\' answers (atoms %s)' % (m, atoms), fn=f)
                continue
            comps = {'0': 0, '1': 1}

            def ev(w):
                vals = tuple(w[comps[a[1]]][a[0]] for a in atoms)
                return table[vals]
            bad = None
            for w in W:
                out = ev(w)
                if m == 'is_match':
                    if bool(out) != bool(sp['lang'](w)):
                        bad = ('language', w, out)
                        break
                elif m == 'can_match':
                    # unsound iff it says "cannot match" while a match is still reachable (largest consistent CM*)
                    if not out and sp['CM'](w):
                        bad = ('can_match false although a continuation can still match', w, out)
                        break
                else:
                    if out and not sp['WAM_lb'](w):
                        bad = ('will_always_match true although some continuation may not match', w, out)
                        break
            why = ''
            if bad:
                w = bad[1]
                why = '%s when %s' % (bad[0], '; '.join('component %d: reachable-match=%d always-match=%d matches-now=%d, hints can_match=%d will_always_match=%d' % (i, x['CM'], x['WAM'], x['M'], x['cm'], x['wam']) for i, x in enumerate(w)))
            ctx.check(R, bad is None, '%s::%s' % (ty.split('<')[0], m), '%s::%s is not %s for sound components: %s' % (ty.split('<')[0], m, 'the Boolean combination of the component languages' if m == 'is_match' else 'sound', why), fn=f,
                      detail={'atoms': [a[0] + str(a[1]) for a in atoms], 'table': {''.join(map(str, k)): v for k, v in table.items()}})
    # StartsWith per variant
    ty = 'StartsWith<A>'
    for m in METHODS:
        f = lib.fn(IMPL % (ty, m))
        if f is None:
            ctx.missing(R, 'anchor:%s::%s' % (ty, m), 'method not found')
            continue
        a = lib.adts.get('inner_automaton::StartsWithStateKind')
        names = [v['name'] for v in a['variants']] if a else []
        res = {}
        for p in explore(f, max_visits=1):
            if p.end != 'return':
                continue
            d = [x for x in p.decisions if x[2][0] == 'discr']
            if not d:
                continue
            val = d[-1][3]
            if isinstance(val, tuple) and val and val[0] == 'not':
                rest = [i for i in range(len(names)) if i not in val[1]]
                val = rest[0] if len(rest) == 1 else None
            if not isinstance(val, int) or val >= len(names):
                continue
            rv = p.ret()
            from sym import const_eval
            cv = const_eval(rv)
            if cv is None and rv[0] == 'un' and rv[1] == 'Not' and rv[2][0] == 'const' and rv[2][1] in (0, 1):
                cv = 1 - rv[2][1]       # boolean negation of a literal (`!matches!(..)`)
            if cv is not None:
                rv = ('const', int(cv))
            res[names[val]] = rv
        done, run = res.get('Done'), res.get('Running')
        if m == 'is_match':
            ok = done == ('const', 1) and run == ('const', 0)
            msg = 'StartsWith matches exactly in the Done state'
        elif m == 'can_match':
            ok = done == ('const', 1) and (run == ('const', 1) or (run is not None and comp_atom(run) == ('cm', '0')))
            msg = 'StartsWith::can_match must be true when Done and at most as pessimistic as the inner can_match while running'
        else:
            ok = done in (('const', 1), ('const', 0)) and run == ('const', 0)
            msg = 'StartsWith::will_always_match may be true only when Done (a running state does not match yet)'
        ctx.check(R, ok, 'StartsWith::' + m, msg + ': Done -> %s, Running -> %s' % (fmt(done)[:40], fmt(run)[:60]), fn=f)


def trait_defaults(ctx, R):
    """the provided methods of the Automaton trait are the hints every user automaton gets unless it overrides them: they must be the
    trivially sound ones (can_match = true, will_always_match = false, no end-of-key hook)"""
    lib = ctx.lib
    for m, want, why in (('can_match', ('const', 1), 'every automaton that does not override it is pruned at the root: searches return nothing'),
                         ('will_always_match', ('const', 0), 'every automaton that does not override it is treated as matching everything below any state')):
        f = lib.fn(AUT + m)
        if f is None:
            ctx.missing(R, 'anchor:default-' + m, 'provided method Automaton::%s not found' % m)
            continue
        r = [p.ret() for p in explore(f, max_visits=1) if p.end == 'return']
        ctx.check(R, r == [want], 'default:' + m, 'the provided Automaton::%s must return %s (found %s): %s' % (m, bool(want[1]), [fmt(x)[:30] for x in r], why), fn=f)
    f = lib.fn(AUT + 'accept_eof')
    if f is not None:
        r = [p.ret() for p in explore(f, max_visits=1) if p.end == 'return']
        ctx.check(R, len(r) == 1 and r[0][0] == 'agg' and r[0][1].endswith('::None'), 'default:accept_eof', 'the provided Automaton::accept_eof must be None (no end-of-key transition)', fn=f)


def r18_2(ctx):
    R = ctx.rule('R18.2', 'leaf hints: the can_match-false class is closed under accept and outside is_match; the will_always_match class is closed and inside is_match', floor=5)
    lib = ctx.lib
    # Str: state Option<usize>; can_match = pos.is_some()
    ty = "Str<'a>"
    cm, acc, im = (lib.fn(IMPL % (ty, m)) for m in ('can_match', 'accept', 'is_match'))
    if not (cm and acc and im):
        ctx.missing(R, 'anchor:Str', 'Str automaton methods not found')
    else:
        r = [p.ret() for p in explore(cm, max_visits=1) if p.end == 'return']
        dead_is_none = len(r) == 1 and is_call(r[0], 'Option::<T>::is_some') and r[0][2][0][0] == 'param'
        ctx.check(R, dead_is_none, 'Str:can_match', 'Str::can_match must be "state is Some" (found %s)' % [fmt(x)[:50] for x in r], fn=cm)
        outs = set()

        def dead_oracle(e, c):
            # the state parameter is None: `match *pos` sees variant 0, `(*pos)?` branches to Break (variant 1)
            if e[0] == 'discr' and e[1][0] == 'param':
                return 0
            if e[0] == 'discr' and is_call(e[1], 'Try>::branch') and e[1][2][0][0] == 'param':
                return 1
            return None
        for p in explore(acc, oracle=dead_oracle, max_visits=1):
            if p.end == 'return':
                rv = p.ret()
                none = (rv[0] == 'agg' and rv[1].endswith('::None')) or (is_call(rv, 'from_residual') and 'std::option::Option<T> as' in rv[1])     # `?` on None returns None
                outs.add('None' if none else fmt(rv)[:40])
        if outs != {'None'}:
            # second reading through the std combinators (`pos.and_then(|pos| ..)`): the virtual paths on which the state is None
            import vsplit
            vouts = set()
            for p in vsplit.vpaths(lib, acc, enter=True, havoc=False):
                if any(d[2][0] == 'discr' and d[2][1][0] == 'param' and d[3] == 0 for d in p.cdecisions()):
                    rv = p.ret()
                    vouts.add('None' if (rv[0] == 'agg' and rv[1].endswith('::None')) else fmt(rv)[:40])
            if vouts:
                outs = vouts
        ctx.check(R, outs == {'None'}, 'Str:dead-closed', 'from the dead state (None) accept must stay dead: %s' % sorted(outs), fn=acc)
        r = [p.ret() for p in explore(im, max_visits=1) if p.end == 'return']
        ok = len(r) == 1 and is_call(r[0], 'PartialEq>::eq') and r[0][2][0][0] == 'param' and r[0][2][1][0] == 'agg' and r[0][2][1][1].endswith('::Some')
        ctx.check(R, ok, 'Str:dead-not-match', 'the dead state (None) must not match: is_match must compare the state with Some(..): %s' % [fmt(x)[:60] for x in r], fn=im)
        # advancing requires the byte at the current position to equal the input byte
        adv = False
        import vsplit as _vs
        for p in list(explore(acc, max_visits=1)) + list(_vs.vpaths(lib, acc, enter=True, havoc=False)):
            if getattr(p, 'end', 'return') == 'return':
                rv = p.ret()
                if rv[0] == 'agg' and rv[1].endswith('::Some'):
                    d = [x for x in (p.cdecisions() if hasattr(p, 'cdecisions') else p.decisions) if (is_call(x[2], 'PartialEq>::eq') or (x[2][0] == 'bin' and x[2][1] == 'Eq')) and x[3] == 1
                         and any(y[0] == 'param' and y[2] == 3 for y in walk(x[2]))]
                    # the other side is the pattern byte at the current position: string.get(pos) or string[pos]
                    def is_pos(z):
                        # the position held in the state: `(*pos as Some).0` or the payload taken with `?`
                        return (z[0] == 'variant' and z[2] == 'Some') or (z[0] == 'okof' and z[1][0] == 'param')
                    elem = bool(d) and (any(is_call(y, '<impl [T]>::get') for y in walk(d[-1][2]))
                                        or any(y[0] == 'index' and any(z[0] == 'field' and z[2] == 'string' for z in walk(y[1])) and any(is_pos(z) for z in walk(y[2])) for y in walk(d[-1][2])))
                    adv = adv or (bool(d) and elem and rv[2][0][1][0] == 'bin' and rv[2][0][1][1] == 'Add' and rv[2][0][1][3] == ('const', 1) and any(is_pos(z) for z in walk(rv[2][0][1][2])))
        ctx.check(R, adv, 'Str:advance', 'Str::accept must advance by one exactly when the pattern byte at the current position equals the input byte', fn=acc)
    # Str accepts exactly one string: no state has only accepting continuations (one more byte after the full string is dead), so the
    # hint must be the provided `false`; an override that is ever true lets Complement prune keys that match
    sw = lib.fn(IMPL % ("Str<'a>", 'will_always_match'))
    if sw is not None:
        rets_ = [q.ret() for q in explore(sw, max_visits=1) if q.end == 'return']
        ctx.check(R, bool(rets_) and all(r_ == ('const', 0) for r_ in rets_), 'Str:never-always', 'Str::will_always_match is overridden and can be true (%s): after the whole string one more byte still leads to the dead state' % [fmt(r_)[:40] for r_ in rets_], fn=sw)
    # Subsequence: will_always_match(s) = (s == len); accept keeps s when s == len; is_match is the same predicate
    ty = "Subsequence<'a>"
    wam, acc, im, cm = (lib.fn(IMPL % (ty, m)) for m in ('will_always_match', 'accept', 'is_match', 'can_match'))
    if not (wam and acc and im):
        ctx.missing(R, 'anchor:Subsequence', 'Subsequence automaton methods not found')
    else:
        rw = [p.ret() for p in explore(wam, max_visits=1) if p.end == 'return']
        ri = [p.ret() for p in explore(im, max_visits=1) if p.end == 'return']
        same = len(rw) == 1 and len(ri) == 1 and strip_params(rw[0]) == strip_params(ri[0]) and rw[0][0] == 'bin' and rw[0][1] == 'Eq'
        ctx.check(R, same, 'Subsequence:wam-inside-match', 'Subsequence::will_always_match must hold only where is_match holds (same "whole pattern seen" predicate): %s vs %s' % ([fmt(x)[:50] for x in rw], [fmt(x)[:50] for x in ri]), fn=wam)
        closed = False
        for p in explore(acc, max_visits=1):
            if p.end == 'return':
                d = [x for x in p.decisions if x[2][0] == 'bin' and x[2][1] in ('Eq', 'Ne') and any(is_call(y, '::len') for y in walk(x[2]))]
                if d and ((d[-1][2][1] == 'Eq') == (d[-1][3] == 1)):
                    rv = p.ret()
                    closed = rv[0] == 'param' or (rv[0] == 'field' and rv[1][0] == 'param')
        ctx.check(R, closed, 'Subsequence:wam-closed', 'once the whole pattern was seen accept must keep the state (the always-match class is closed)', fn=acc)
        # advancing: before the whole pattern was seen the state grows by one exactly when the input byte EQUALS the next pattern byte
        st = ('param', acc.local_name(2), 2)
        by = ('param', acc.local_name(3), 3)

        def unc(e):
            while isinstance(e, tuple) and e[0] == 'cast':
                e = e[1]
            return e

        def is_pat(e):
            e = unc(e)
            return e[0] == 'index' and any(z[0] == 'field' and z[1][0] == 'param' for z in walk(e[1])) and (unc(e[2]) == st if not isinstance(e[2], str) else False)

        def cmp_of(e):
            e = unc(e)
            if e[0] == 'bin' and e[1] in ('Eq', 'Ne', 'Lt', 'Le', 'Gt', 'Ge') and ((unc(e[2]) == by and is_pat(e[3])) or (unc(e[3]) == by and is_pat(e[2]))):
                return e[1]
            if is_call(e, 'PartialEq>::eq') or is_call(e, 'PartialEq>::ne'):
                a, b = unc(e[2][0]), unc(e[2][1])
                if (a == by and is_pat(b)) or (b == by and is_pat(a)):
                    return 'Eq' if e[1].endswith('::eq') else 'Ne'
            return None
        verdicts = []
        for p in explore(acc, max_visits=1):
            if p.end != 'return':
                continue
            d = [x for x in p.decisions if x[2][0] == 'bin' and x[2][1] in ('Eq', 'Ne') and any(is_call(y, '::len') for y in walk(x[2]))]
            if d and ((d[-1][2][1] == 'Eq') == (d[-1][3] == 1)):
                continue          # the "whole pattern seen" path, checked above
            rv = unc(p.ret())
            cd = [(cmp_of(x[2]), x[3]) for x in p.decisions if cmp_of(x[2])]
            if rv[0] == 'bin' and rv[1] == 'Add' and st in (unc(rv[2]), unc(rv[3])):
                other = unc(rv[3]) if unc(rv[2]) == st else unc(rv[2])
                op = cmp_of(other)
                if op is not None:
                    verdicts.append('ok' if op == 'Eq' else 'bad:state + (byte %s pattern byte)' % op)
                elif other == ('const', 1) and cd:
                    op, o = cd[-1]
                    eq = (op == 'Eq' and o == 1) or (op == 'Ne' and o == 0)
                    verdicts.append('ok' if eq else 'bad:advances when byte %s pattern byte is %s' % (op, bool(o)))
                else:
                    verdicts.append('?')
            elif rv == st and cd:
                op, o = cd[-1]
                ne = (op == 'Eq' and o == 0) or (op == 'Ne' and o == 1)
                verdicts.append('ok' if ne else 'bad:stays although byte %s pattern byte is %s' % (op, bool(o)))
            else:
                verdicts.append('?')
        bad = [v[4:] for v in verdicts if v.startswith('bad:')]
        if bad:
            ctx.violation(R, 'Subsequence:advance', 'Subsequence::accept must advance by one exactly when the input byte equals the next pattern byte: %s' % bad[0], fn=acc)
        elif not verdicts or '?' in verdicts:
            ctx.undecided(R, 'Subsequence:advance', 'the advancing step of Subsequence::accept is not in a recognised form', fn=acc)
        else:
            ctx.check(R, True, 'Subsequence:advance', '', fn=acc)
        if cm is not None:
            r = [p.ret() for p in explore(cm, max_visits=1) if p.end == 'return']
            ctx.check(R, r == [('const', 1)], 'Subsequence:can_match', 'Subsequence can always still match: can_match must be true', fn=cm)
    # start states and the accepting position of the two pattern automata (language clause: "exactly its string" / "contains the pattern")
    for ty, want in (("Str<'a>", 'Some(0)'), ("Subsequence<'a>", '0')):
        stf = lib.fn(IMPL % (ty, 'start'))
        if stf is None:
            continue
        r = [p.ret() for p in explore(stf, max_visits=1) if p.end == 'return']
        if len(r) == 1 and (r[0][0] == 'const' or (r[0][0] == 'agg' and r[0][2] and r[0][2][0][1][0] == 'const') or (r[0][0] == 'agg' and r[0][1].endswith('::None'))):
            v = r[0] if r[0][0] == 'const' else (r[0][2][0][1] if r[0][2] else None)
            good = v == ('const', 0) and ((r[0][0] == 'agg' and r[0][1].endswith('::Some')) == (want == 'Some(0)'))
            ctx.check(R, good, ty.split('<')[0] + ':start', '%s must start at pattern position 0 (%s), found %s: a different start skips or never reaches part of the pattern' % (ty.split('<')[0], want, fmt(r[0])[:40]), fn=stf)
        else:
            ctx.undecided(R, ty.split('<')[0] + ':start', 'start state not a literal: %s' % [fmt(x)[:40] for x in r], fn=stf)
    im = lib.fn(IMPL % ("Str<'a>", 'is_match'))
    if im is not None:
        r = [p.ret() for p in explore(im, max_visits=1) if p.end == 'return']
        if len(r) == 1 and is_call(r[0], 'PartialEq>::eq') and r[0][2][1][0] == 'agg' and r[0][2][1][1].endswith('::Some') and r[0][2][1][2]:
            pay = r[0][2][1][2][0][1]
            good = is_call(pay, '::len') and any(z[0] == 'field' and z[1][0] == 'param' for z in walk(pay))
            ctx.check(R, good, 'Str:match-at-end', 'Str matches exactly when the whole string was consumed: the accepting position must be the length of the pattern, found %s' % fmt(pay)[:60], fn=im)
    trait_defaults(ctx, R)
    ty = 'AlwaysMatch'
    for m, want in (('is_match', 1), ('can_match', 1)):
        f = lib.fn(IMPL % (ty, m))
        if f is None:
            continue
        r = [p.ret() for p in explore(f, max_visits=1) if p.end == 'return']
        ctx.check(R, r == [('const', want)], 'AlwaysMatch:' + m, 'AlwaysMatch::%s must be %s' % (m, bool(want)), fn=f)


def strip_params(e):
    """compare predicates modulo the name/index of the state parameter"""
    from sym import map_children
    if not isinstance(e, tuple):
        return e
    if e[0] == 'param':
        return ('param', 'self' if e[2] == 1 else 'state')
    if e[0] == 'call':
        return ('call', e[1], tuple(strip_params(a) for a in e[2]), None)
    return map_children(e, strip_params)


def r18_3(ctx):
    R = ctx.rule('R18.3', 'combinator start/accept are componentwise; &T delegates every method to its namesake', floor=9)
    lib = ctx.lib
    for ty, n in (('Union<A, B>', 2), ('Intersection<A, B>', 2), ('Complement<A>', 1)):
        for m in ('start', 'accept'):
            f = lib.fn(IMPL % (ty, m))
            if f is None:
                ctx.missing(R, 'anchor:%s::%s' % (ty, m), 'method not found')
                continue
            ok = False
            per_path = []
            for p in explore(f, max_visits=1):
                if p.end == 'return':
                    rv = p.ret()
                    if rv[0] == 'agg' and len(rv[2]) == n:
                        ok = True
                        for i, (fname, v) in enumerate(rv[2]):
                            good = is_call(v, AUT + m) and v[2][0] == ('field', ('param', f.local_name(1), 1), str(i))
                            if m == 'accept':
                                good = good and v[2][1] == ('field', ('param', f.local_name(2), 2), str(i)) and v[2][2] == ('param', f.local_name(3), 3)
                                if not good and is_call(v, AUT + 'start') and p.decisions:
                                    # a shortcut path that puts a component back into its START state: whatever the test, a component that was
                                    # dead (or anywhere else) is revived and the Boolean combination no longer describes the input read so far
                                    ctx.violation(R, '%s::accept:restart' % ty.split('<')[0], '%s::accept returns component %d in its start state on a path (%s) instead of stepping it: the component forgets the input read so far' % (
                                        ty.split('<')[0], i, fmt(p.decisions[-1][2])[:80]), fn=f)
                            ok = ok and good
                        per_path.append(ok)
            if per_path and any(per_path) and not all(per_path):
                ok = True           # the straight path is componentwise; shortcut paths were judged above (restart) ...
                if not any(v_['key'].endswith('accept:restart') and v_.get('fn') == f.path for v_ in ctx.violations):
                    ctx.undecided(R, '%s::%s:shortcut' % (ty.split('<')[0], m), '%s::%s has a path that does not apply %s to each component; the rule does not judge that shortcut' % (ty.split('<')[0], m, m), fn=f)
            ctx.check(R, ok, '%s::%s' % (ty.split('<')[0], m), '%s::%s must apply %s to each component with that component\'s own state' % (ty.split('<')[0], m, m), fn=f)
    for m in ('start', 'is_match', 'can_match', 'will_always_match', 'accept', 'accept_eof'):
        f = lib.fn("<&'a T as inner_automaton::Automaton>::" + m)
        if f is None:
            ctx.missing(R, 'anchor:&T::' + m, 'reference impl method not found')
            continue
        ok = False
        for p in explore(f, max_visits=1):
            if p.end == 'return':
                rv = p.ret()
                ok = is_call(rv, AUT + m) and rv[2][0][0] == 'param' and all(a[0] == 'param' and a[2] == i + 1 for i, a in enumerate(rv[2]))
        ctx.check(R, ok, '&T::' + m, 'the impl for &T must forward %s to T::%s with the same arguments' % (m, m), fn=f)
    # StartsWith start/accept: Done iff the inner automaton matches
    for m in ('start', 'accept'):
        f = lib.fn(IMPL % ('StartsWith<A>', m))
        if f is None:
            continue
        seen = {}
        for p in explore(f, max_visits=1):
            if p.end != 'return':
                continue
            d = [x for x in p.decisions if is_call(x[2], AUT + 'is_match')]
            st = [x for x in p.decisions if x[2][0] == 'discr']
            rv = p.ret()
            kind = [x[1].rsplit('::', 1)[-1] for x in walk(rv) if x[0] == 'agg' and 'StartsWithStateKind::' in x[1]]
            if d:
                seen[('inner-match', d[-1][3])] = kind[-1] if kind else None
            elif st:
                seen[('was-done',)] = kind[-1] if kind else None
        ok = seen.get(('inner-match', 1)) == 'Done' and seen.get(('inner-match', 0)) == 'Running' and (m == 'start' or seen.get(('was-done',)) == 'Done')
        ctx.check(R, ok, 'StartsWith::' + m, 'StartsWith::%s must become Done exactly when the inner automaton matches (and stay Done): %s' % (m, seen), fn=f)


def run(ctx):
    ctx.step(r18_1, ctx)
    ctx.step(r18_2, ctx)
    ctx.step(r18_3, ctx)
