"""C13 — construction memory is bounded independently of the number of keys (structural part)."""
from callgraph import CallGraph
from rules.common import Anchors, adt_base, arg_loc
from rules import growth
import stdmodel as SM

LEVEL = 'other'
NEED_FIXTURE = True
ROLES = ['lib']
EXPLANATION = ('Decides who-may-grow, not measured heap: R13.1 every call to a growing container method reachable from the builder\'s '
               'add / insert / finish whose receiver is rooted in builder state is on the allow-list below with its structural bound '
               '(unfinished stack: one frame per key byte, popped by the freeze loop; per-node transition vector: one per distinct byte; '
               'remembered last key and cache-cell refresh: dominated by clear()); the set of container-typed fields of every type the '
               'builder owns is exactly the confirmed inventory (a new Vec/HashMap field is a new place for per-key retention); the node '
               'cache table is sized only in its constructor (R12.3) and the never-forgetting registry_minimal is not linked in. '
               'Replacing a buffer by a fresh allocation is churn, not growth, and is not flagged.')
TRUSTED = ['growth methods of std containers as listed in stdmodel.GROW_METHODS']
ASSUMPTIONS = ['the bound for the allow-listed sites is argued from the builder\'s stack discipline (DESIGN.md), not measured']

# (type of self of the function, receiver path, method) -> (bound, needs clear-dominance)
ALLOW = {
    ('raw::build::UnfinishedNodes', 'Vec<raw::build::BuilderNodeUnfinished'): ('one frame per byte of the current key; frames are popped by compile_from before new ones are pushed', False),
    ('raw::build::Builder', 'Vec<u8'): ('the remembered key is cleared before it is refilled', True),
    # keyed by the type that DECLARES the container: element-wise growth (one transition per distinct next byte, <= 256, the node is
    # moved out when frozen) needs no clear; a bulk refill (cache-cell refresh via clone_from/extend) must be dominated by clear()
    ('raw::build::BuilderNode', 'Vec<raw::Transition'): {'push': ('one transition per distinct next byte (<= 256), the node is moved out when frozen', False),
                                                         'bulk': ('cache-cell refresh: cleared before it is refilled (<= 256 transitions)', True)},
}
# (owning type, container type) - by type, so that renaming a field is not an alarm
INVENTORY = {('raw::build::Builder', 'Option<Vec<u8'): 1, ('raw::registry::Registry', 'Vec<raw::registry::RegistryCell'): 1,
             ('raw::build::BuilderNode', 'Vec<raw::Transition'): 1, ('raw::build::UnfinishedNodes', 'Vec<raw::build::BuilderNodeUnfinished'): 1}


def self_adt(f):
    if f.impl:
        return adt_base(f.impl['self_ty'])
    return None


def owner_adt(lib, f, loc):
    """the type that declares the container field a growth call is applied to (not the type whose method happens to contain the call)"""
    ty = f.local_ty(loc[0])
    a = adt_base(ty)
    owner = a
    for el in loc[1:]:
        if el.startswith('@') or el.startswith('['):
            continue
        d = lib.adts.get(a)
        nxt = None
        if d:
            for v in d['variants']:
                for fd in v['fields']:
                    if fd['name'] == el:
                        nxt = fd['ty']
        if nxt is None:
            break
        owner = a
        ty = nxt
        a = adt_base(ty)
    return owner if owner in lib.adts else None


def recv_type(lib, f, loc):
    """element type signature of the container a growth call is applied to, e.g. 'Vec<u8'"""
    import re
    ty = f.local_ty(loc[0])
    a = adt_base(ty)
    for el in loc[1:]:
        if el.startswith('@') or el.startswith('['):
            continue
        d = lib.adts.get(a)
        nxt = None
        if d:
            for v in d['variants']:
                for fd in v['fields']:
                    if fd['name'] == el:
                        nxt = fd['ty']
        if nxt is None:
            if el.isdigit() and 'Option<' in ty:
                nxt = ty[ty.index('Option<') + 7:]
            else:
                return None
        ty = nxt
        a = adt_base(ty)
    sig = growth.type_sig(ty)
    return sig[len('Option<'):] if sig.startswith('Option<') else sig


def run(ctx):
    lib = ctx.lib
    A = Anchors(lib)
    R = ctx.rule('R13.1', 'who-may-grow: every retained-growth site reachable from add/insert/finish is allow-listed and structurally bounded', floor=6)
    if A.err:
        for e in A.err:
            ctx.missing(R, 'anchor', e)
        return
    cg = CallGraph(lib)
    roots = [A.builder + '::<W>::' + m for m in ('add', 'insert', 'into_inner', 'finish', 'new_type')]
    roots = [r for r in roots if r in lib.fns]
    if len(roots) < 5:
        ctx.missing(R, 'anchor:roots', 'builder entry points not found')
        return
    sites, reach = growth.growth_sites(lib, cg, roots)
    ctx.count('functions_reachable', len(reach))
    for f, t, g, loc, kind in sites:
        if kind != 'state':
            continue
        key = ((owner_adt(lib, f, loc) or self_adt(f)), recv_type(lib, f, loc))
        path = '.'.join(str(x) for x in loc[1:])
        bid = next(b for b, tt in f.calls() if tt is t)
        if key in ALLOW:
            entry = ALLOW[key]
            if isinstance(entry, dict):
                entry = entry['push' if g.rsplit('::', 1)[-1] == 'push' else 'bulk']
            bound, need_clear = entry
            okc = (not need_clear) or growth.cleared_before(f, bid, loc)
            ctx.check(R, okc, 'site:%s.%s' % (key[0], path), 'growth of %s is allow-listed only because it is cleared first, and it no longer is' % path, fn=f, at=t.get('span'), detail=bound)
        else:
            ctx.violation(R, 'site:%s.%s' % (key[0], path), 'a container rooted in builder state grows (%s on %s: %s) at a site that is not on the allow-list of structurally bounded sites: heap may now grow with the number of keys' % (g.rsplit('::', 1)[-1], path, key[1]), fn=f, at=t.get('span'))
    owned = growth.owned_adts(lib, [A.builder])
    inv = growth.type_inventory(lib, owned)
    extra = {k: n for k, n in inv.items() if n > INVENTORY.get(k, 0)}
    for (a, ty), n in sorted(extra.items()):
        ctx.violation(R, 'field:%s:%s' % (a, ty[:50]), 'builder-owned type %s gained a container field of type %s - a new place where per-key data can be retained (not on the confirmed inventory)' % (a, ty[:70]), fn=a)
    ctx.check(R, not extra, 'inventory', 'container inventory of builder-owned types changed', detail=sorted('%s: %s x%d' % (a, t[:50], n) for (a, t), n in inv.items()))
    # the minimal (never forgetting) registry must stay unlinked
    used = [p for p in reach if p.startswith('raw::registry_minimal::')]
    ctx.check(R, not used, 'no-unbounded-registry', 'the builder reaches raw::registry_minimal (a map that gains an entry per compiled node): %s' % used[:3])
    # positive control
    # the front ends consume their input one item at a time: nothing materialises (collects / sorts) a whole batch
    R2 = ctx.rule('R13.2', 'no front end of the builder collects or sorts its input: items are consumed one at a time', floor=1)
    fronts = [f.path for f in lib.fn_list if not f.from_expansion and f.kind in ('AssocFn', 'Fn') and f.impl and
              (adt_base(f.impl.get('self_ty') or '') in (A.builder, 'map::MapBuilder', 'set::SetBuilder', 'inner_map::MapBuilder', 'inner_set::SetBuilder') or
               (f.path.rsplit('::', 1)[-1] in ('from_iter',) and adt_base(f.impl.get('self_ty') or '').rsplit('::', 1)[-1] in ('Map', 'Set')))]
    als, reach2 = growth.alloc_sites(lib, cg, fronts)
    mat = [(g, t, x) for g, t, x in als if x.rsplit('::', 1)[-1] in ('collect', 'from_iter', 'sort', 'sort_by', 'sort_by_key', 'concat', 'join', 'repeat')]
    for g, t, x in mat:
        ctx.violation(R2, 'materialise:%s' % g.path, 'a builder front end materialises its input (%s): memory now grows with the number of keys handed over in one call' % x.rsplit('::', 2)[-2:], fn=g, at=t.get('span'))
    ctx.check(R2, not mat, 'streaming-front-ends', 'input materialised', detail='%d front-end functions, %d reachable' % (len(fronts), len(reach2)))
    ctx.check(R2, len(fronts) >= 10, 'front-ends', 'only %d builder front ends found' % len(fronts), kind='anchor-missing')
    fx = ctx.fixture
    fcg = CallGraph(fx)
    fs, _ = growth.growth_sites(fx, fcg, [f.path for f in fx.fn_list if 'ctl_grow' in f.path])
    ctx.check(R, len([s for s in fs if s[4] == 'state']) >= 2, 'control-fixture', 'the growth scan misses the fixture\'s growing map/log: checker broken', kind='violation')
    # the node cache is the one large, FIXED allocation of the builder: literal geometry, sized once (R12.3, shared with C12)
    import rules.C12 as C12
    ctx.step(C12.r12_3_6, ctx, A)
    # the CLI's pipeline hands batches over bounded channels (an unbounded one lets the reader slurp the whole input)
    b = ctx.bin
    if b is not None:
        R3 = ctx.rule('R13.3', 'fst-bin: the channels of the merge pipeline are bounded', floor=1)
        ub = [(g, t) for g in b.fn_list if g.path.startswith(('merge::', '<merge::')) for _, t in g.calls() if (g.callee(t) or '').endswith('crossbeam_channel::unbounded')]
        for g, t in ub:
            ctx.violation(R3, 'unbounded:' + g.path, 'the merge pipeline creates an unbounded channel: the producer can run arbitrarily far ahead and memory grows with the input', fn=g, at=t.get('span'))
        nb = sum(1 for g in b.fn_list if g.path.startswith(('merge::', '<merge::')) for _, t in g.calls() if (g.callee(t) or '').endswith('crossbeam_channel::bounded'))
        ctx.check(R3, not ub and nb >= 1, 'bounded-channels', 'unbounded channel in the merge pipeline (bounded ones found: %d)' % nb)
        # the CLI builds FSTs straight into their output files: an in-memory builder (`::memory()`) holds the whole FST on the heap
        R4 = ctx.rule('R13.4', 'fst-bin: every FST builder writes to a file as it goes (no in-memory builder)', floor=2)
        for g in b.fn_list:
            if g.from_expansion:
                continue
            for _, t in g.calls():
                cal = g.callee(t) or ''
                if not (cal.startswith('fst::') and 'Builder' in cal):
                    continue
                if cal.endswith('::memory'):
                    ctx.violation(R4, 'memory-builder:' + g.path, '%s builds an FST in memory (%s) before writing it out: the heap holds the whole output, which grows with the input' % (g.path.rsplit('::', 1)[-1], cal.rsplit('::', 2)[-2]), fn=g, at=t.get('span'))
                elif cal.endswith('::new'):
                    ctx.ok(R4, 'file-builder:%s#%s' % (g.path, t.get('span')), None, g, t.get('span'))
    # capacity requests in builder code are sized by the key at hand or by literals, never by how much has been built so far
    R5 = ctx.rule('R13.5', 'builder buffers are not sized by the number of keys / bytes built so far', floor=1)
    SIZED = ('Vec::<T>::with_capacity', 'Vec::<T, A>::reserve', 'Vec::<T, A>::reserve_exact', 'Vec::<T, A>::resize', 'String::with_capacity', 'vec::from_elem')
    from paths import explore as _explore
    from rules.common import path_calls as _pc
    from sym import walk as _walk, fmt as _fmt
    n5 = 0
    for g in lib.fn_list:
        if g.from_expansion or not g.path.startswith(('raw::build::', '<raw::build::', 'raw::registry::')):
            continue
        if not any((g.callee(t) or '').endswith(SIZED) for _, t in g.calls()):
            continue
        seen5 = set()
        for p in _explore(g, max_visits=1, havoc=True, limit=300):
            for (k, bid, callee, args, t) in _pc(p, expand=False):
                if not isinstance(callee, str) or not callee.endswith(SIZED) or bid in seen5:
                    continue
                seen5.add(bid)
                n5 += 1
                size = args[-1] if not callee.endswith('resize') else args[1]
                grows = [x for x in _walk(size) if (x[0] == 'field' and x[2] in ('len', 'last_addr') and x[1][0] == 'param' and x[1][2] == 1 and 'raw::build::Builder<' in g.local_ty(1)) or
                         (x[0] == 'call' and isinstance(x[1], str) and x[1].endswith(('CountingWriter::<W>::count', 'Builder::<W>::bytes_written')))]
                ctx.check(R5, not grows, 'sized:%s#%s' % (g.path, t.get('span')), '%s requests a capacity that grows with what has been built so far (%s): the builder\'s memory is then proportional to the number of keys, not to the key length' % (
                    g.path.rsplit('::', 1)[-1], _fmt(size)[:60]), fn=g, at=t.get('span'))
    if n5 == 0:
        ctx.ok(R5, 'sized:none', None, None, None)
    # the batch size bounds what the unsorted build holds in memory: it is a constant of the run, not something the batching loop adjusts
    if b is not None:
        R6 = ctx.rule('R13.6', 'fst-bin: the batching loop compares the batch against a bound that does not change while batching', floor=1)
        n6 = 0
        for g in b.fn_list:
            if not (g.kind == 'Closure' and g.path.startswith('merge::batcher::')):
                continue
            verdicts = set()
            for p in _explore(g, max_visits=1, havoc=True, limit=3000):
                for d in p.decisions:
                    e = d[2]
                    if e[0] == 'bin' and e[1] in ('Ge', 'Gt', 'Lt', 'Le', 'Eq', 'Ne') and any(x[0] == 'call' and isinstance(x[1], str) and x[1].endswith('::len') for x in _walk(e)):
                        other = e[3] if any(x[0] == 'call' and isinstance(x[1], str) and x[1].endswith('::len') for x in _walk(e[2])) else e[2]
                        verdicts.add('varies' if any(x[0] in ('havoc', 'phi') for x in _walk(other)) else 'fixed')
            if verdicts:
                n6 += 1
                ctx.check(R6, verdicts == {'fixed'}, 'batch-bound:' + g.path, 'the bound a batch is compared with is updated inside the batching loop: batches (and with them the memory of the build) grow with the input', fn=g)
        if n6 == 0:
            ctx.undecided(R6, 'batch-bound', 'no size test recognised in the batching loop')
    # the sorted CLI builds stream their input into the builder: reading all rows into memory first makes the command's memory linear
    # in the input (that is what the unsorted mode with its bounded batches is for)
    if b is not None:
        R7 = ctx.rule('R13.7', 'fst-bin: the --sorted builds do not collect their input', floor=1)
        n7 = 0
        for g in b.fn_list:
            if g.from_expansion or not g.path.endswith('::run_sorted'):
                continue
            n7 += 1
            coll = [(g.callee(t) or '') for _, t in g.calls() if (g.callee(t) or '').rsplit('::', 1)[-1] in ('collect', 'from_iter', 'sort', 'sort_unstable', 'sort_by', 'sort_by_key', 'dedup_by', 'dedup', 'extend')]
            ctx.check(R7, not coll, 'streams:' + g.path, '%s gathers its input rows in memory (%s) before building: memory grows with the input' % (g.path, sorted({c_.rsplit('::', 1)[-1] for c_ in coll})), fn=g)
        if n7 == 0:
            ctx.undecided(R7, 'streams', 'no run_sorted command found')
