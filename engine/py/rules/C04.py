"""C04 — automaton search returns exactly the accepted in-range keys, with states (structural part)."""
from rules import streams

LEVEL = 'other'
ROLES = ['lib']
EXPLANATION = ('Decides the structural clauses, not "exactly the accepted keys" for all automata: R04.1 the automaton state is threaded '
               'synchronously with node and output in every frame the seek and the DFS step push (pre-update triple while following the '
               'bound, untouched triple where the bound leaves the FST, post-bound triple for an exclusive bound, accept(parent state, '
               'byte of the same transition) for a child); R04.2 the byte fed to accept is the byte appended to the key buffer; R04.3 a '
               'key is emitted only under "node final AND is_match(state after its last byte)", can_match is asked only about the '
               'resumed frame\'s state, will_always_match is never consulted; R04.4 the empty key uses start(); R04.5 the reported '
               'state is the post-accept state. The range rules R03.x apply to the same code and are decided under C03.')
TRUSTED = ['the Automaton contract of the property (deterministic accept/is_match, sound can_match, no accept_eof hook)']
ASSUMPTIONS = ['R03.1-R03.6 (checked under C03) for the bound handling shared with range streams']


def run(ctx):
    R41 = ctx.rule('R04.1', 'synchrony of (node, output, automaton state) in every pushed frame', floor=6)
    R42 = ctx.rule('R04.2', 'the byte fed to accept is the byte appended to the key buffer (seek and DFS)', floor=2)
    R43 = ctx.rule('R04.3', 'emission depends on is_final and is_match of the post-accept state only; hints only prune', floor=3)
    R44 = ctx.rule('R04.4', 'the empty key is matched and reported with start()', floor=2)
    R45 = ctx.rule('R04.5', 'search_with_state reports the state after the key\'s last byte', floor=1)
    # the in-range clause for searches: the (min, max) given to the search builders must reach the stream constructor in that order,
    # for the plain and the with-state builder alike (R03.1, decided on the same code as C03)
    import rules.C03 as C03
    ctx.step(C03.r03_1, ctx)
    ctx.step(C03.r03_3, ctx)        # the cut-off table: "in-range keys" of a bounded search
    # a bounded search walks the same seek / DFS code as a plain range: its endgames, lock step and empty-key gating (R03.4-R03.6) are
    # necessary for "exactly the accepted keys WITHIN THE BOUNDS" and are decided here on the same paths
    R34 = ctx.rule('R03.4', 'seek endgames: inclusive steps back one transition and pops one key byte; exclusive pushes the child frame at transition 0 with the whole bound\'s output; divergence resumes at the first larger byte', floor=5)
    R35 = ctx.rule('R03.5', 'DFS step: stack and key buffer move in lock step on every path; frame contents, emitted key/value and cut-off placement', floor=8)
    R36 = ctx.rule('R03.6', 'empty key: armed iff the lower bound is empty and inclusive; emitted only after the cut-off test on the empty string', floor=4)
    ctx.step(streams.seek_rules, ctx, R41, R42, R34, R36, want_c03=True, want_c04=True, R35s=R35)
    ctx.step(streams.next_rules, ctx, R41, R42, R43, R44, R45, R35, R36, want_c03=True, want_c04=True)
    # "any automaton that obeys the contract": one that does not override the optional hints gets the provided ones, which must be the
    # trivially sound ones
    import rules.C18 as C18
    ctx.step(C18.trait_defaults, ctx, R43)
    # a borrowed automaton (`&aut`) and the Map / Set front ends of the bounded searches behave like the thing they wrap:
    # R18.3 (&T forwards every method to its namesake) and R03.2 (the 16 wrapper setters delegate name for name)
    ctx.step(C18.r18_3, ctx)
    ctx.step(C03.r03_2, ctx)
