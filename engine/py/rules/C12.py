"""C12 — equivalent sub-automata are shared (structural part)."""
import re
from paths import explore
from sym import fmt, walk, Sym
from callgraph import CallGraph
from rules.common import Anchors, adt_base, path_calls, ret_kind, arg_loc, arg_locs
from rules.streams import norm, is_call
import stdmodel as SM

LEVEL = 'other'
ROLES = ['lib']
EXPLANATION = ('Decides the structural clauses, not minimality or sharing ratios as quantities: R12.1 in the node compiler every encoder '
               'call is preceded by a cache lookup OF THAT NODE that did not hit, a miss records the new address in the returned cell on '
               'every path to Ok, a hit returns the cached address without emitting; R12.2 a hit requires "cell occupied AND node == '
               'cached node" with == the derived structural equality over all fields of node and transition, and the bucket function '
               'reads only compared fields; R12.3 the cache is constructed with positive literal geometry and the table is sized only '
               'there; R12.4 who-may-call the compiler: the freeze loop (one node per iteration) and the finisher (root); R12.5 cell '
               'identity under the MRU moves (swap / rotate-to-front as a permutation domain): the cell refreshed with the new node is the '
               'cell handed back, a hit returns the address stored beside the node that compared equal; R12.6 the row index is reduced '
               'modulo the ROW COUNT of the table (the field that is not the row stride) and the row is [stride*bucket, +stride).')
TRUSTED = ['derived PartialEq/Eq compare all fields']
ASSUMPTIONS = ['minimality additionally needs "no eviction" (precondition of the property) and the classical argument for incremental construction of minimal acyclic automata']

REG = 'raw::registry::Registry'
CACHE = "raw::registry::RegistryCache::<'a>"
CELL = 'raw::registry::RegistryCell'


def r12_1_4(ctx, A):
    R1 = ctx.rule('R12.1', 'lookup before emit, record after emit, no emit on a hit', floor=4)
    R4 = ctx.rule('R12.4', 'who-may-call the node compiler: the freeze loop and the finisher', floor=2)
    lib = ctx.lib
    cg = CallGraph(lib)
    comp = [m for m in A.builder_methods() if any((m.callee(t) or '').endswith('::compile_to') for _, t in m.calls())]
    if len(comp) != 1:
        ctx.missing(R1, 'anchor:compiler', 'node compiler not found')
        return
    f = comp[0]
    node_p = [i for i in range(1, f.arg_count + 1) if 'BuilderNode' in f.local_ty(i)]
    seen = set()
    for p in explore(f, max_visits=1):
        if p.end != 'return' or ret_kind(p.ret()) != 'ok':
            continue
        calls = path_calls(p)
        enc = [c for c in calls if isinstance(c[2], str) and c[2].endswith('::compile_to')]
        look = [c for c in calls if c[2] == REG + '::entry']
        dfound = [d for d in p.decisions if d[2][0] == 'discr' and is_call(d[2][1], 'Registry::entry')]
        a = lib.adts.get('raw::registry::RegistryEntry')
        vname = None
        if dfound and a and isinstance(dfound[0][3], int):
            vname = a['variants'][dfound[0][3]]['name']
        elif dfound and isinstance(dfound[0][3], tuple):
            vname = 'not-Found'
        okv = dict(p.ret()[2]).get('0')
        if enc:
            seen.add('emit')
            good = len(look) == 1 and look[0][0] < enc[0][0] and node_p and look[0][3][1] == ('param', f.local_name(node_p[0]), node_p[0]) and vname in ('not-Found', 'NotFound', 'Rejected')
            ctx.check(R1, bool(good), 'lookup-before-emit', 'a node is encoded on a path where the cache was not consulted for that node first (lookups: %d, outcome: %s): equivalent nodes are then written again' % (len(look), vname), fn=f, at=enc[0][4].get('span'))
            # record: on NotFound the cell receives the new address
            later = [d for d in p.decisions if d[2][0] == 'discr' and is_call(d[2][1], 'Registry::entry') and d[0] > enc[0][0]]
            vn2 = None
            if later and a and isinstance(later[-1][3], int):
                vn2 = a['variants'][later[-1][3]]['name']
            ins = [c for c in calls if c[2] == CELL + '::insert' and c[0] > enc[0][0]]
            if vn2 == 'NotFound' or (vname == 'NotFound' and not later):
                seen.add('record')
                okr = len(ins) == 1 and okv is not None and norm(ins[0][3][1]) == norm(okv) and any(x[0] == 'variant' and x[2] == 'NotFound' for x in walk(ins[0][3][0]))
                ctx.check(R1, okr, 'record-after-emit', 'after writing a new node its address must be stored in the cell the lookup handed back (and be the address returned): inserts %d' % len(ins), fn=f)
        elif vname == 'Found':
            seen.add('hit')
            good = okv is not None and okv[0] == 'field' and okv[1][0] == 'variant' and okv[1][2] == 'Found' and is_call(okv[1][1], 'Registry::entry')
            ctx.check(R1, good, 'hit-returns-cached', 'a cache hit must return the cached address: %s' % fmt(okv)[:80], fn=f)
        else:
            # the empty final node
            em = okv in (('citem', 'raw::EMPTY_ADDRESS'), ('const', 0))
            if em:
                seen.add('empty')
                # address 0 is read back as "final, no transitions, zero final output" (Node::new): the shortcut may be taken
                # only for exactly that node
                facts = {}
                for d in p.decisions:
                    e, o = d[2], d[3]
                    if not isinstance(o, int):
                        continue
                    neg = False
                    while e[0] == 'un' and e[1] == 'Not':
                        e, neg = e[2], not neg
                    flds = {x[2] for x in walk(e) if x[0] == 'field' and x[1][0] == 'param'}
                    val = bool(o) != neg
                    if e[0] == 'field' and e[2] == 'is_final':
                        facts['is_final'] = val
                    elif 'trans' in flds and (is_call(e, '::is_empty') or (e[0] == 'bin' and e[1] == 'Eq' and e[3] == ('const', 0) and is_call(e[2], '::len'))):
                        facts['trans'] = val
                    elif 'trans' in flds and e[0] == 'bin' and e[1] == 'Ne' and e[3] == ('const', 0) and is_call(e[2], '::len'):
                        facts['trans'] = not val
                    elif 'final_output' in flds and (is_call(e, 'Output::is_zero') or (e[0] == 'bin' and e[1] == 'Eq' and e[3] == ('const', 0))):
                        facts['final_output'] = val
                    elif 'final_output' in flds and e[0] == 'bin' and e[1] == 'Ne' and e[3] == ('const', 0):
                        facts['final_output'] = not val
                if not facts:
                    ctx.undecided(R1, 'empty-shortcut', 'address 0 is returned on a path whose guard is not in a recognised form', fn=f)
                else:
                    lacking = [k for k in ('is_final', 'trans', 'final_output') if facts.get(k) is not True]
                    ctx.check(R1, not lacking, 'empty-shortcut', 'a node is mapped to address 0 (read back as the final node without transitions and with zero final output) '
                              'without requiring %s: its %s is lost' % (' and '.join({'is_final': 'finality', 'trans': 'an empty transition list', 'final_output': 'a zero final output'}[k] for k in lacking),
                                                                         ' / '.join({'is_final': 'non-finality', 'trans': 'transitions', 'final_output': 'value'}[k] for k in lacking)), fn=f)
    if 'emit' in seen and 'record' not in seen:
        ctx.violation(R1, 'record-after-emit', 'a newly emitted node is never recorded in the cache (no path stores its address in the cell the lookup handed back): every later equal node is emitted again', fn=f)
    ctx.check(R1, {'emit', 'record', 'hit'} <= seen, 'paths', 'compiler paths recognised: %s' % sorted(seen), fn=f, kind='undecided')
    callers = sorted(cg.rev.get(f.path, ()))
    names = sorted(c.rsplit('::', 1)[-1] for c in callers)
    ctx.check(R4, names == ['compile_from', 'into_inner'], 'callers', 'the node compiler is called from %s (expected: the freeze loop and the finisher)' % callers, fn=f)
    cf = lib.fn(A.builder + '::<W>::compile_from')
    if cf is not None:
        n = 0
        for p in explore(cf, max_visits=1, havoc=True):
            if p.end == 'cut':
                cs = [c for c in path_calls(p) if c[2] == f.path]
                pops = [c for c in path_calls(p) if isinstance(c[2], str) and (c[2].endswith('::pop_empty') or c[2].endswith('::pop_freeze'))]
                n += 1
                ctx.check(R4, len(cs) == 1 and len(pops) == 1, 'one-compile-per-frozen-node', 'each iteration of the freeze loop must pop exactly one unfinished node and compile it once', fn=cf)
                # the loop freezes exactly the nodes above depth `istate` (guard istate + 1 < len), and links each popped node to the
                # child compiled in the previous iteration (pop_freeze(addr)) - the deepest one has no child (pop_empty)
                ip = [i for i in range(1, cf.arg_count + 1) if cf.local_ty(i) == 'usize']
                gd = [d for d in p.decisions if d[2][0] == 'bin' and d[2][1] in ('Lt', 'Le', 'Gt', 'Ge', 'Ne', 'Eq') and any(is_call(x, 'UnfinishedNodes::len') or is_call(x, '::len') for x in walk(d[2]))
                      and any(x[0] == 'param' and ip and x[2] == ip[0] for x in walk(d[2]))]
                if gd and ip:
                    e, o = gd[0][2], gd[0][3]

                    def lin3(x):
                        # (coefficient of istate, coefficient of len, constant) or None
                        while x[0] == 'cast':
                            x = x[1]
                        if x[0] == 'const':
                            return (0, 0, x[1])
                        if x[0] == 'param' and x[2] == ip[0]:
                            return (1, 0, 0)
                        if is_call(x, '::len'):
                            return (0, 1, 0)
                        if x[0] == 'bin' and x[1] in ('Add', 'Sub'):
                            a, b = lin3(x[2]), lin3(x[3])
                            if a is None or b is None:
                                return None
                            sg = 1 if x[1] == 'Add' else -1
                            return tuple(p_ + sg * q_ for p_, q_ in zip(a, b))
                        return None
                    l, r = lin3(e[2]), lin3(e[3])
                    op = e[1]
                    if not o:
                        op = {'Lt': 'Ge', 'Le': 'Gt', 'Gt': 'Le', 'Ge': 'Lt', 'Eq': 'Ne', 'Ne': 'Eq'}[op]
                    if l is None or r is None or op in ('Eq', 'Ne'):
                        ctx.undecided(R4, 'freeze-depth', 'the guard of the freeze loop is not a linear comparison of the depth with the number of unfinished nodes: %s' % fmt(e)[:80], fn=cf)
                    else:
                        if op in ('Gt', 'Ge'):
                            l, r, op = r, l, {'Gt': 'Lt', 'Ge': 'Le'}[op]
                        d3 = tuple(b_ - a_ for a_, b_ in zip(l, r))       # r - l  (>= 1 for Lt, >= 0 for Le)
                        k = 1 if op == 'Lt' else 0
                        # continue iff  d3.istate * istate + d3.len * len + d3.c >= k ;  wanted: len - istate >= 2
                        good = d3[0] == -1 and d3[1] == 1 and k - d3[2] == 2
                        ctx.check(R4, good, 'freeze-depth', 'the freeze loop must run exactly while more than istate + 1 unfinished nodes remain (found %s = %s): freezing one node too many or too few corrupts the shared prefix of the next key' % (fmt(e)[:80], bool(o)), fn=cf)
                if len(pops) == 1:
                    first = [d for d in p.decisions if d[2][0] == 'bin' and d[2][1] in ('Eq', 'Ne') and ('citem', 'raw::NONE_ADDRESS') in (d[2][2], d[2][3]) and d[0] < pops[0][0]]
                    if first:
                        isnone = (first[-1][2][1] == 'Eq') == (first[-1][3] == 1)
                        ctx.check(R4, isnone == pops[0][2].endswith('::pop_empty'), 'freeze-links-child', 'a popped node must be linked to the child compiled just before it (pop_freeze(addr)) unless it is the deepest one (no child yet: pop_empty); here the choice is inverted', fn=cf)
        if n == 0:
            ctx.undecided(R4, 'freeze-loop', 'freeze loop not recognised', fn=cf)


def node_copy(ctx, R):
    """the cell a miss refreshes must afterwards hold EXACTLY the probe node: BuilderNode::clone_from copies finality, final output and
    replaces (not extends) the transition list - a stale transition left in a recycled cell makes a later, larger node "equal" to it"""
    lib = ctx.lib
    cf = [f for f in lib.fn_list if f.path.endswith('::clone_from') and 'BuilderNode' in f.path and f.kind != 'Closure']
    if not cf:
        ctx.undecided(R, 'node-copy', 'BuilderNode has no hand-written clone_from (the derived one replaces the whole value)', fn=None)
        return
    f = cf[0]
    for p in explore(f, max_visits=1, havoc=True):
        if p.end != 'return':
            continue
        stored = {}
        for (k, i, loc, st) in p.stores():
            if loc[:1] == (1,) and len(loc) >= 2:
                v = p.sym.rvalue_at(st['rv'], (k, i))
                stored[loc[1]] = v
        calls = path_calls(p, expand=False)
        src = ('param', f.local_name(2), 2)

        def from_src(v, fld):
            return any(x[0] == 'field' and x[2] == fld and x[1] == src for x in walk(v))
        ok_fin = 'is_final' in stored and from_src(stored['is_final'], 'is_final')
        ok_out = 'final_output' in stored and from_src(stored['final_output'], 'final_output')
        tcalls = [c for c in calls if isinstance(c[2], str) and arg_loc(f, c[4], 0) is not None and arg_loc(f, c[4], 0)[:2] == (1, 'trans')]
        names = [c[2].rsplit('::', 1)[-1] for c in tcalls]
        whole = ('clone_from' in names) or ('trans' in stored and from_src(stored['trans'], 'trans')) or any(c[2].endswith('::clone_into') and arg_loc(f, c[4], 1) is not None and arg_loc(f, c[4], 1)[:2] == (1, 'trans') for c in calls if isinstance(c[2], str))
        cleared = any(n_ in ('clear', 'truncate') for n_ in names)
        filled = any(n_ in ('extend', 'extend_from_slice', 'append') and any(from_src(a, 'trans') for a in c[3][1:]) for n_, c in zip(names, tcalls))
        if whole or (cleared and filled and names.index('clear' if 'clear' in names else 'truncate') < [i for i, n_ in enumerate(names) if n_ in ('extend', 'extend_from_slice', 'append')][0]):
            ok_tr = True
        elif filled and not cleared:
            ok_tr = False
        else:
            ok_tr = None
        if ok_tr is None:
            ctx.undecided(R, 'node-copy', 'how clone_from fills the transition list is not in a recognised form (%s)' % names, fn=f)
        else:
            ctx.check(R, ok_fin and ok_out and ok_tr, 'node-copy', 'BuilderNode::clone_from must make the cell equal to the probe: finality %s, final output %s, transitions replaced %s - a recycled cell that keeps old transitions matches nodes it does not hold' % (ok_fin, ok_out, ok_tr), fn=f)
        break


def r12_2(ctx):
    R = ctx.rule('R12.2', 'a hit requires an occupied cell whose node equals the probe (derived structural equality); the bucket function reads only compared fields', floor=6)
    lib = ctx.lib
    # derived equality on both node and transition
    for ty in ('raw::build::BuilderNode', 'raw::Transition'):
        imp = [i for i in lib.impls if i['self_ty'] == ty and i.get('trait_path') == 'std::cmp::PartialEq']
        ctx.check(R, len(imp) == 1 and imp[0]['from_expansion'], 'derived-eq:' + ty.rsplit('::', 1)[-1], '%s must use the derived (all-fields) equality (impls: %s)' % (ty, [(i['from_expansion']) for i in imp]))
    # occupancy: a fresh cell carries the "no address" marker, is_none tests for exactly that marker, insert stores the address
    isn, none_f, ins = lib.fn(CELL + '::is_none'), lib.fn(CELL + '::none'), lib.fn(CELL + '::insert')
    marker = (('citem', 'raw::NONE_ADDRESS'),)
    if isn is not None:
        r = [p.ret() for p in explore(isn, max_visits=1) if p.end == 'return']
        if len(r) == 1 and r[0][0] == 'bin' and r[0][1] in ('Eq', 'Ne', 'Lt', 'Le', 'Gt', 'Ge'):
            sides = (r[0][2], r[0][3])
            fld = [x for x in sides if x[0] == 'field' and x[1][0] == 'param']
            mk = [x for x in sides if x[0] in ('citem', 'const')]
            if fld and mk:
                okm = True
                if none_f is not None:
                    rn = [p.ret() for p in explore(none_f, max_visits=1) if p.end == 'return']
                    okm = len(rn) == 1 and rn[0][0] == 'agg' and dict(rn[0][2]).get(fld[0][2]) == mk[0]
                ctx.check(R, r[0][1] == 'Eq' and okm, 'cell-occupancy', 'a cell is free iff its address field EQUALS the marker a fresh cell is created with (found "%s" against %s; fresh cell consistent: %s): '
                          'otherwise occupied cells never hit (nothing is shared) or free cells hit (links to address garbage)' % (r[0][1], fmt(mk[0])[:40], okm), fn=isn)
            else:
                ctx.undecided(R, 'cell-occupancy', 'is_none is not a comparison of a cell field with a constant', fn=isn)
        else:
            ctx.undecided(R, 'cell-occupancy', 'is_none not in a recognised form', fn=isn)
    f = lib.fn(CACHE + '::entry')
    if f is None:
        ctx.missing(R, 'anchor:cache-entry', 'row lookup not found')
        return
    n = 0
    for p in explore(f, max_visits=1, havoc=True):
        if p.end != 'return':
            continue
        rv = p.ret()
        if not (rv[0] == 'agg' and rv[1].endswith('RegistryEntry::Found')):
            continue
        n += 1
        addr = rv[2][0][1]
        # cell whose address is returned
        cell = addr[1] if addr[0] == 'field' and addr[2] == 'addr' else None
        eqs = [d for d in p.decisions if (is_call(d[2], '::eq') and d[3] == 1) or (is_call(d[2], '::ne') and d[3] == 0)]
        occ = [d for d in p.decisions if is_call(d[2], 'RegistryCell::is_none') and d[3] == 0]
        pos = [d for d in p.decisions if d[2][0] == 'discr' and is_call(d[2][1], '::position') and d[3] == 1]
        ok = False
        if cell is not None and eqs:
            e = eqs[-1][2]
            ok = norm(e[2][0]) == norm(('field', cell, 'node')) and e[2][1][0] == 'param' and any(norm(d[2][2][0]) == norm(cell) for d in occ)
        elif cell is not None and pos:
            # general arm: position(find) with find = |c| !c.is_none() && c.node == node
            clo = [x for x in walk(pos[-1][2]) if x[0] == 'closure']
            okc = False
            for c in clo:
                cf = lib.fns.get(c[1])
                if cf is None:
                    continue
                res = {}
                for q in explore(cf, max_visits=1):
                    if q.end == 'return':
                        none = [d for d in q.decisions if is_call(d[2], 'RegistryCell::is_none')]
                        res[none[-1][3] if none else None] = q.ret()
                okc = res.get(1) == ('const', 0) and is_call(res.get(0, ('x',)), '::eq') and any(x[0] == 'field' and x[2] == 'node' for x in walk(res[0][2][0]))
            idx = cell[2] if cell[0] == 'index' else None
            ok = okc and idx is not None and any(is_call(x, '::position') for x in walk(idx))
        if not ok and cell is not None:
            # the hit test is a local predicate closure called on a cell: is_hit(&cells[k]);  the address may be read after the MRU move
            def hit_pred(c):
                cf = lib.fns.get(c[1])
                if cf is None:
                    return False
                res = {}
                for q in explore(cf, max_visits=1):
                    if q.end == 'return':
                        none = [d for d in q.decisions if is_call(d[2], 'RegistryCell::is_none')]
                        res[none[-1][3] if none else None] = q.ret()
                return res.get(1) == ('const', 0) and is_call(res.get(0, ('x',)), '::eq') and any(x[0] == 'field' and x[2] == 'node' for x in walk(res[0][2][0]))
            cd = [d for d in p.decisions if d[2][0] == 'call' and d[3] == 1 and any(x[0] == 'closure' for x in walk(d[2])) and
                  (isinstance(d[2][1], str) and ('Fn' in d[2][1] or 'call' in d[2][1].rsplit('::', 1)[-1] or '{closure' in d[2][1]))]
            pdv = [d for d in p.decisions if d[2][0] == 'discr' and is_call(d[2][1], '::position') and d[3] == 1]
            if cd or pdv:
                compared = None
                good_pred = False
                if cd:
                    clo = [x for x in walk(cd[-1][2]) if x[0] == 'closure']
                    good_pred = bool(clo) and hit_pred(clo[0])
                    ix = [x for x in walk(cd[-1][2]) if x[0] == 'index' and x is not None and (isinstance(x[2], str) or strip(x[2])[0] == 'const')]
                    if ix:
                        compared = int(ix[0][2][1:-1]) if isinstance(ix[0][2], str) else strip(ix[0][2])[1]
                else:
                    clo = [x for x in walk(pdv[-1][2]) if x[0] == 'closure']
                    good_pred = bool(clo) and hit_pred(clo[0])
                    compared = 'pos'
                # where does the returned cell come from, undoing the MRU moves made before the read?
                ret_ix = cell[2] if cell[0] == 'index' else None
                if isinstance(ret_ix, str):
                    ret_ix = int(ret_ix[1:-1]) if ret_ix[1:-1].isdigit() else None
                elif ret_ix is not None and strip(ret_ix)[0] == 'const':
                    ret_ix = strip(ret_ix)[1]
                else:
                    ret_ix = None
                origin = ret_ix
                for (k, bid, callee, args, t) in reversed(path_calls(p, expand=False)):
                    if not isinstance(callee, str):
                        continue
                    if callee.endswith('::swap') and len(args) == 3 and strip(args[1])[0] == 'const' and strip(args[2])[0] == 'const':
                        a_, b_ = strip(args[1])[1], strip(args[2])[1]
                        origin = b_ if origin == a_ else (a_ if origin == b_ else origin)
                    elif callee.endswith('::promote') and origin == 0:
                        origin = 'pos' if any(is_call(x, '::position') for x in walk(args[1])) else None
                if good_pred and compared is not None and origin == compared:
                    ok = True
                elif not good_pred or compared is None or origin is None:
                    ctx.undecided(R, 'hit-condition', 'a hit is decided by a local predicate / the address is read after the MRU move in a form the rule does not follow: %s' % fmt(addr)[:80], fn=f)
                    continue
        if not ok and cell is None and any(is_call(x, '::find_map') or is_call(x, '::find') or is_call(x, '::filter_map') for x in walk(addr)):
            # the address travels out of an iterator search as part of its result ((index, addr) from find_map): a form the rule does not follow
            ctx.undecided(R, 'hit-condition', 'the address of a hit is produced inside an iterator search (find_map / find): %s' % fmt(addr)[:80], fn=f)
            continue
        ctx.check(R, ok, 'hit-condition', 'a hit must return the address stored in the very cell that is occupied and whose node equals the probe: %s' % fmt(addr)[:100], fn=f)
    if n == 0:
        ctx.undecided(R, 'hit-condition', 'no hit path recognised', fn=f)
    # bucket function reads exactly the compared fields
    hs = [g for g in lib.fn_list if g.impl and g.impl['self_ty'] == REG and g.local_ty(0) == 'usize' and g.arg_count == 2 and g.kind == 'AssocFn']
    if len(hs) == 1:
        h = hs[0]
        fields = set()
        # the bucket function and the local helpers / closures it is made of
        cg = CallGraph(lib)
        members = [lib.fns[q] for q in sorted(cg.reachable([h.path])) if q in lib.fns and q.startswith('raw::registry::')]
        for g in members:
            for bid, idx, pl, how in g.places():
                for pr in pl['proj']:
                    if isinstance(pr, dict) and pr.get('of') in ('raw::build::BuilderNode', 'raw::Transition'):
                        fields.add((pr['of'].rsplit('::', 1)[-1], pr['name']))
        # the mixing steps must stay injective-ish: a saturating (absorbing) operation pins the accumulator at the ceiling after a few
        # steps, after which only the last fields mixed in decide the row and whole families of nodes share one row
        absorbing = sorted({(g.callee(t) or '').rsplit('::', 1)[-1] for g in members for _, t in g.calls() if (g.callee(t) or '').rsplit('::', 1)[-1].startswith('saturating_') and 'num::' in (g.callee(t) or '')})
        ctx.check(R, not absorbing, 'hash-mixing', 'the bucket function mixes with %s: the accumulator sticks at the ceiling, the fields mixed in before that point no longer influence the row and equal-suffix nodes evict one another' % absorbing, fn=h)
        want = {('BuilderNode', 'is_final'), ('BuilderNode', 'final_output'), ('BuilderNode', 'trans'), ('Transition', 'inp'), ('Transition', 'out'), ('Transition', 'addr')}
        ctx.check(R, fields == want, 'hash-fields', 'the bucket function must read exactly the fields equality compares (missing %s, extra %s): otherwise equal nodes land in different rows or rows degenerate' % (sorted(want - fields), sorted(fields - want)), fn=h)
    else:
        ctx.missing(R, 'anchor:hash', 'bucket function not found')


def r12_3_6(ctx, A):
    R3 = ctx.rule('R12.3', 'cache geometry: positive literals; the table is sized only in the constructor', floor=3)
    R6 = ctx.rule('R12.6', 'row index = hash mod ROW COUNT; row = [stride * bucket, + stride)', floor=3)
    lib = ctx.lib
    nt = lib.fn(A.builder + '::<W>::new_type')
    geo = []
    if nt is not None:
        for p in explore(nt, max_visits=1):
            for (k, bid, callee, args, t) in path_calls(p):
                if callee == REG + '::new':
                    geo.append(args)

    def lit(a):
        if a[0] == 'const':
            return a[1]
        if a[0] == 'citem':
            return lib.const_scalar(a[1])
        return None
    ctx.check(R3, bool(geo) and all(len(g) == 2 and all((lit(a) or 0) > 0 for a in g) for g in geo), 'geometry', 'the node cache must be created with positive literal (rows, columns): %s - a zero dimension disables sharing altogether' % [[fmt(a) for a in g] for g in geo], fn=nt)
    new = lib.fn(REG + '::new')
    rows_f = stride_f = table_f = None
    if new is None:
        ctx.missing(R3, 'anchor:registry-new', 'cache constructor not found')
        return
    for p in explore(new, max_visits=1):
        if p.end != 'return':
            continue
        rv = p.ret()
        if rv[0] == 'agg' and rv[1] == REG:
            fd = dict(rv[2])
            for k, v in fd.items():
                if v == ('param', new.local_name(1), 1):
                    rows_f = k
                elif v == ('param', new.local_name(2), 2):
                    stride_f = k
                elif any(is_call(x, 'from_elem') or is_call(x, 'vec::from_elem') for x in walk(v)):
                    table_f = k
                    n = [x for x in walk(v) if is_call(x, 'from_elem')]
                    cnt = n[0][2][1] if n else None
                    okn = cnt is not None and any(is_call(x, 'checked_mul') and {y[2] for y in x[2] if y[0] == 'param'} == {1, 2} for x in walk(cnt))
                    ctx.check(R3, okn, 'table-size', 'the table must hold rows x columns cells: %s' % fmt(cnt)[:80], fn=new)
    ctx.check(R3, rows_f is not None and stride_f is not None and table_f is not None, 'fields', 'cache constructor stores (rows, columns, table) = (%s, %s, %s)' % (rows_f, stride_f, table_f), fn=new, kind='undecided')
    # table never resized elsewhere
    grow = []
    for g in lib.fn_list:
        for bid, t in g.calls():
            if SM.is_grow(g.callee(t)) or (g.callee(t) or '').endswith('::truncate') or (g.callee(t) or '').endswith('::clear'):
                l = arg_loc(g, t, 0)
                if l is not None and table_f in l[1:2] and g.local_ty(l[0]).find('registry::Registry') >= 0:
                    grow.append(g.path)
    ctx.check(R3, not grow, 'table-fixed', 'the cache table is resized outside its constructor: %s' % grow)
    # the builder's cache is created once: replacing it (or its table) later forgets every node seen so far
    regf = [fd['name'] for fd in lib.adts.get(A.builder, {'variants': [{'fields': []}]})['variants'][0]['fields'] if fd['ty'].startswith(REG)]
    repl = []
    for g in lib.fn_list:
        for (bid, idx, tgt, kind, extra) in g.raw_defs():
            if kind not in ('assign', 'call') or len(tgt) < 2 or not isinstance(tgt[0], int):
                continue
            rt = g.local_ty(tgt[0])
            if (A.builder + '<') in rt and tgt[1] in regf and len(tgt) == 2:
                repl.append((g, bid))
            rt0 = re.sub(r"^&\s*('\{?\w*\}?\s+)?(mut\s+)?", '', rt)
            if rt0.startswith(REG) and table_f is not None and tgt[1] == table_f and len(tgt) == 2:
                repl.append((g, bid))
    ctx.check(R3, bool(regf) and not repl, 'cache-created-once', 'the node cache is replaced after construction in %s: every node registered so far is forgotten and later equal nodes are emitted again' % sorted({g.path for g, _ in repl}),
              fn=repl[0][0] if repl else None)
    # R12.6
    hs = [g for g in lib.fn_list if g.impl and g.impl['self_ty'] == REG and g.local_ty(0) == 'usize' and g.arg_count == 2 and g.kind == 'AssocFn']
    if len(hs) == 1 and rows_f:
        h = hs[0]
        for p in explore(h, max_visits=1, havoc=True):
            if p.end == 'return':
                rv = p.ret()
                ok = rv[0] == 'bin' and rv[1] == 'Rem' and rv[3] == ('field', ('param', h.local_name(1), 1), rows_f)
                ctx.check(R6, ok, 'modulus', 'the bucket must be hash mod the ROW COUNT (field %s): %s - any other modulus uses only a fraction of the table and evicts shared nodes' % (rows_f, fmt(rv[3] if rv[0] == 'bin' else rv)[:60]), fn=h)
    e = lib.fn(REG + '::entry')
    if e is not None and stride_f:
        for p in explore(e, max_visits=1):
            if p.end != 'return':
                continue
            rvx = p.ret()
            if not [x for x in walk(rvx) if x[0] == 'agg' and x[1].endswith('ops::Range')]:
                # the range may be computed by a local single-path helper (row_range(bucket)): substitute it once
                from absint import Prover
                from sym import map_children, subst, simplify_proj
                pv = Prover(lib)

                def once(x):
                    x = map_children(x, once)
                    if x[0] == 'call' and isinstance(x[1], str) and x[1] in lib.fns and x[1] != hs[0].path and x[1].startswith('raw::registry::') and lib.fns[x[1]].local_ty(0) != 'usize':
                        t = pv.inline_template(x[1])
                        if t is not None:
                            return simplify_proj(subst(t, {i + 1: a for i, a in enumerate(x[2])}))
                    return x
                rvx = once(rvx)
            sl = [x for x in walk(rvx) if (is_call(x, 'IndexMut<I>>::index_mut') or is_call(x, 'IndexMut<I> for [T]>::index_mut')) and x[2][1][0] == 'agg' and x[2][1][1].endswith('ops::Range')]
            if not sl:
                # table.chunks_exact_mut(stride).nth(bucket): the bucket-th row of `stride` cells
                ch = [x for x in walk(rvx) if is_call(x, '::nth') and len(x[2]) == 2 and any(is_call(y, '::chunks_exact_mut') or is_call(y, '::chunks_mut') or is_call(y, '::chunks_exact') for y in walk(x[2][0]))]
                if ch:
                    cx = [y for y in walk(ch[0][2][0]) if is_call(y, '::chunks_exact_mut') or is_call(y, '::chunks_mut') or is_call(y, '::chunks_exact')][0]
                    sf = ('field', ('param', e.local_name(1), 1), stride_f)
                    okc = norm(cx[2][1]) == norm(sf) and any(is_call(x, hs[0].path.rsplit('::', 1)[-1]) or (x[0] == 'call' and x[1] == hs[0].path) for x in walk(ch[0][2][1]))
                    ctx.check(R6, okc, 'row-range', 'a row must be the bucket-th chunk of `stride` cells: chunk size %s, index %s' % (fmt(cx[2][1])[:40], fmt(ch[0][2][1])[:60]), fn=e)
                elif p.ret()[0] == 'agg' and not p.ret()[1].endswith('::Rejected'):
                    ctx.undecided(R6, 'row-range', 'the cells of a row are selected in a form the rule does not follow', fn=e)
                continue
            rg = dict(sl[0][2][1][2])
            st, en = rg.get('start'), rg.get('end')
            sf = ('field', ('param', e.local_name(1), 1), stride_f)
            okst = st[0] == 'bin' and st[1] == 'Mul' and sf in (st[2], st[3]) and any(is_call(x, hs[0].path.rsplit('::', 1)[-1]) or (x[0] == 'call' and x[1] == hs[0].path) for x in (st[2], st[3]))
            oken = en[0] == 'bin' and en[1] == 'Add' and norm(en[2]) == norm(st) and en[3] == sf
            if not (okst and oken):
                # any other spelling of the same two numbers (end = stride * (bucket + 1); start = end - stride): compare as polynomials
                # in the atoms S = stride and B = bucket
                def poly(x):
                    x = strip(x)
                    if x[0] == 'field' and x[2] == '0' and x[1][0] == 'bin' and x[1][1].endswith('WithOverflow'):
                        x = ('bin', x[1][1][:-len('WithOverflow')], x[1][2], x[1][3])
                    if x[0] == 'const':
                        return {(): x[1]} if x[1] else {}
                    if x == sf:
                        return {('S',): 1}
                    if (x[0] == 'call' and x[1] == hs[0].path) or is_call(x, hs[0].path.rsplit('::', 1)[-1]):
                        return {('B',): 1}
                    if x[0] == 'bin' and x[1] in ('Add', 'Sub'):
                        a_, b_ = poly(x[2]), poly(x[3])
                        if a_ is None or b_ is None:
                            return None
                        out_ = dict(a_)
                        for m_, c_ in b_.items():
                            out_[m_] = out_.get(m_, 0) + (c_ if x[1] == 'Add' else -c_)
                        return {m_: c_ for m_, c_ in out_.items() if c_}
                    if x[0] == 'bin' and x[1] == 'Mul':
                        a_, b_ = poly(x[2]), poly(x[3])
                        if a_ is None or b_ is None:
                            return None
                        out_ = {}
                        for m1, c1 in a_.items():
                            for m2, c2 in b_.items():
                                m_ = tuple(sorted(m1 + m2))
                                out_[m_] = out_.get(m_, 0) + c1 * c2
                        return {m_: c_ for m_, c_ in out_.items() if c_}
                    return None
                ps_, pe_ = poly(st), poly(en)
                if ps_ == {('B', 'S'): 1} and pe_ == {('B', 'S'): 1, ('S',): 1}:
                    okst = oken = True
            ctx.check(R6, okst and oken, 'row-range', 'a row must be the cells [stride * bucket, stride * bucket + stride): start %s end %s' % (fmt(st)[:60], fmt(en)[:60]), fn=e)
        rej = [p for p in explore(e, max_visits=1) if p.end == 'return' and p.ret()[0] == 'agg' and p.ret()[1].endswith('::Rejected')]
        ctx.check(R6, all(any(is_call(d[2], '::is_empty') and d[3] == 1 for d in p.decisions) for p in rej), 'rejected-only-when-empty', 'the cache may refuse a node only when it has no cells at all', fn=e)
        # ... and nowhere else in the registry: a row lookup that refuses a node because its row is full never records it, so a node met
        # three times is written three times although nothing was evicted
        for g in lib.fn_list:
            if g.path == e.path or not g.path.startswith('raw::registry::') or g.from_expansion:
                continue
            for q in explore(g, max_visits=1, havoc=True, limit=400):
                if q.end == 'return' and q.ret()[0] == 'agg' and q.ret()[1].endswith('::Rejected'):
                    okq = any((is_call(d[2], '::is_empty') and d[3] == 1) or (d[2][0] == 'bin' and d[2][1] == 'Eq' and d[3] == 1 and ('const', 0) in d[2][2:] and any(is_call(x, '::len') for x in d[2][2:])) for d in q.decisions) \
                        or any(isinstance(d[3], int) and d[3] == 0 and is_call(d[2], '::len') for d in q.decisions)
                    ctx.check(R6, okq, 'rejected-only-when-empty:' + g.path, '%s refuses a node although the row has cells (%s): the node is never recorded and every later occurrence is written again' % (
                        g.path.rsplit('::', 1)[-1], fmt(q.decisions[-1][2])[:60] if q.decisions else ''), fn=g)
                    if not okq:
                        break


def r12_5(ctx):
    R = ctx.rule('R12.5', 'cell identity under MRU moves: the refreshed cell is the cell handed back', floor=3)
    lib = ctx.lib
    f = lib.fn(CACHE + '::entry')
    pr = lib.fn(CACHE + '::promote')
    if f is None:
        ctx.missing(R, 'anchor:cache-entry', 'row lookup not found')
        return
    # promote(i) rotates element i to the front: loop body swap(i-1, i); i -= 1 while i > 0
    prom_ok = False
    if pr is not None:
        for p in explore(pr, max_visits=1, havoc=True):
            if p.end == 'cut':
                sw = [c for c in path_calls(p) if isinstance(c[2], str) and c[2].endswith('::swap')]
                il = [l for l in range(1, pr.arg_count + 1) if pr.local_ty(l) == 'usize']
                if len(sw) == 1 and il:
                    a, b = sw[0][3][1], sw[0][3][2]
                    v = p.sym.loc_value_at((il[0],), (len(p.blocks) - 2, 'T'))
                    g = [d for d in p.decisions if d[2][0] == 'bin' and d[2][1] == 'Gt' and d[2][3] == ('const', 0)]
                    prom_ok = a[0] == 'bin' and a[1] == 'Sub' and a[3] == ('const', 1) and a[2] == b and b[0] == 'havoc' and v == ('bin', 'Sub', b, ('const', 1)) and bool(g) and g[-1][3] == 1
        if not prom_ok:
            # for j in (1..=i).rev() { cells.swap(j - 1, j) }
            from rules import layout as _layout
            for p in explore(pr, max_visits=1, havoc=True):
                if p.end != 'cut':
                    continue
                sw = [c for c in path_calls(p) if isinstance(c[2], str) and c[2].endswith('::swap')]
                src = _layout.iter_source(pr, p.blocks[-1])
                if len(sw) == 1 and src is not None and src[0] == 'rev':
                    a, b = strip(sw[0][3][1]), strip(sw[0][3][2])
                    item = b[0] == 'field' and b[2] == '0' and any(is_call(x, '::next') for x in walk(b))
                    rg = [x for x in walk(src[2]) if (x[0] == 'agg' and x[1].endswith('ops::RangeInclusive')) or is_call(x, 'RangeInclusive::<Idx>::new')]
                    okr = False
                    if rg:
                        if rg[0][0] == 'agg':
                            d_ = dict(rg[0][2])
                            lo_, hi_ = d_.get('start'), d_.get('end')
                        else:
                            lo_, hi_ = rg[0][2][0], rg[0][2][1]
                        okr = lo_ == ('const', 1) and strip(hi_)[0] == 'param'
                    if item and okr and a[0] == 'bin' and a[1] == 'Sub' and a[3] == ('const', 1) and norm(a[2]) == norm(b):
                        prom_ok = True
        if not prom_ok:
            # one-call form: cells[..=i].rotate_right(1)  (or cells[..i + 1])
            for p in explore(pr, max_visits=1, havoc=True):
                if p.end != 'return':
                    continue
                rot = [c for c in path_calls(p) if isinstance(c[2], str) and c[2].endswith('::rotate_right')]
                if len(rot) == 1 and strip(rot[0][3][1]) == ('const', 1):
                    recv = rot[0][3][0]
                    for x in walk(recv):
                        if x[0] == 'agg' and x[1].endswith('RangeToInclusive') and strip(dict(x[2]).get('end', ('?',)))[0] == 'param':
                            prom_ok = True
                        if x[0] == 'agg' and x[1].endswith('ops::RangeTo'):
                            e = strip(dict(x[2]).get('end', ('?',)))
                            if e[0] == 'bin' and e[1] == 'Add' and strip(e[2])[0] == 'param' and e[3] == ('const', 1):
                                prom_ok = True
        ctx.check(R, prom_ok, 'promote', 'promote(i) must rotate cell i to the front (adjacent swaps down to 0, or cells[..=i].rotate_right(1))', fn=pr)
    n = 0
    for p in explore(f, max_visits=1, havoc=True):
        if p.end != 'return':
            continue
        rv = p.ret()
        if not (rv[0] == 'agg' and rv[1].endswith('RegistryEntry::NotFound')):
            continue
        n += 1
        calls = path_calls(p, expand=False)      # promote() is modelled as a whole below
        # simulate positions: perm maps current position -> original identity (symbolic names)
        ident = {}

        def key(e):
            if isinstance(e, str):
                m = re.fullmatch(r'\[(\d+)\]', e)
                return int(m.group(1)) if m else e
            e = strip(e)
            if e[0] == 'const':
                return e[1]
            return fmt(norm(e))[:80]

        def get(pos):
            return ident.get(pos, ('orig', pos))
        refreshed = None
        n_clone = 0
        for (k, bid, callee, args, t) in calls:
            if isinstance(callee, str) and callee.endswith('Clone>::clone_from'):
                tgt = args[0]
                n_clone += 1
                if tgt[0] == 'field' and tgt[2] == 'node' and tgt[1][0] == 'index':
                    refreshed = get(key(tgt[1][2]))
                else:
                    # `let (lru, _) = cells.split_last_mut().unwrap(); lru.node.clone_from(..)` / `cells.last_mut()`: the last cell
                    sl = [x for x in walk(tgt) if is_call(x, '::split_last_mut') or is_call(x, '::last_mut')]
                    if sl and tgt[0] == 'field' and tgt[2] == 'node':
                        recv = sl[0][2][0]
                        refreshed = get(key(('bin', 'Sub', ('call', 'core::slice::<impl [T]>::len', (recv,), None), ('const', 1))))
            elif isinstance(callee, str) and callee.endswith('::swap'):
                a, b = key(args[1]), key(args[2])
                ia, ib = get(a), get(b)
                ident[a], ident[b] = ib, ia
            elif isinstance(callee, str) and (callee.endswith('::rotate_left') or callee.endswith('::rotate_right')):
                # whole-slice rotation: needs the slice length on this path
                n_known = None
                for d in p.decisions:
                    e = d[2]
                    if e[0] == 'bin' and e[1] == 'Eq' and d[3] == 1 and strip(e[3])[0] == 'const' and any(is_call(x, '::len') for x in walk(e[2])):
                        n_known = strip(e[3])[1]
                kk = strip(args[1])
                whole = not any(x[0] == 'agg' and 'ops::Range' in x[1] for x in walk(args[0]))
                if n_known is None or kk[0] != 'const' or not whole:
                    ident = {'_unknown': True}
                    continue
                r = kk[1] % n_known
                if callee.endswith('::rotate_right'):
                    r = (n_known - r) % n_known
                old = {i: get(i) for i in range(n_known)}
                for i in range(n_known):
                    ident[i] = old[(i + r) % n_known]
            elif pr is not None and callee == pr.path:
                i = key(args[1])
                moved = get(i)
                # everything in front shifts back by one; only position 0 is read afterwards
                ident = {0: moved, '_rotated_from': i}
        cell = rv[2][0][1]
        cell = strip(cell)
        while cell[0] == 'after':
            cell = cell[3]
        pos = key(cell[2]) if cell[0] == 'index' else None
        if pos is None:
            # the payload is a reference local: use the location it points to
            for kk, bid in enumerate(p.blocks):
                for st in f.blocks[bid]['stmts']:
                    if st['k'] == 'assign' and isinstance(st['rv'].get('agg'), dict) and st['rv']['agg'].get('variant') == 'NotFound':
                        pl = st['rv']['ops'][0].get('move') or st['rv']['ops'][0].get('copy')
                        if pl is not None:
                            l = f.loc(pl)
                            rm = f.refmap()
                            while len(l) == 1 and l[0] in rm:
                                l = rm[l[0]]
                            ixs = [x for x in l if isinstance(x, str) and x.startswith('[')]
                            if ixs:
                                pos = key(ixs[-1])
        handed = get(pos) if pos is not None else None
        if ident.get('_unknown'):
            ctx.undecided(R, 'refreshed-is-returned', 'cells are permuted by a rotation whose extent is not known on the path', fn=f)
            continue
        if refreshed is None and n_clone:
            ctx.undecided(R, 'refreshed-is-returned', 'the cell refreshed with the new node is addressed in a form the rule does not follow', fn=f)
            continue
        ok = refreshed is not None and handed == refreshed
        ctx.check(R, ok, 'refreshed-is-returned', 'the cell overwritten with the new node (%s) is not the cell handed back for its address (%s): the address would be recorded beside another node and a later hit would link to the wrong sub-automaton' % (refreshed, handed), fn=f)
    if n == 0:
        ctx.undecided(R, 'refreshed-is-returned', 'no miss path recognised', fn=f)


def r12_7(ctx, A):
    """a miss may be declared only after EVERY cell of the row was compared with the probe, and the cell it overwrites is the last
    (least recently used) one - with MRU order the occupied cells form a prefix of the row, so the last cell is a free one whenever
    there is one.  A branch specialised for a row length it is not guarded by (`len != 1` for `len == 1`) halves the cache: nodes
    are forgotten although no eviction was necessary."""
    R = ctx.rule('R12.7', 'a miss inspects the whole row and overwrites its last (LRU) cell', floor=2)
    lib = ctx.lib
    f = lib.fn(CACHE + '::entry')
    if f is None:
        ctx.missing(R, 'anchor:cache-entry', 'row lookup not found')
        return
    # the row length in the shipped configuration: the column literal of the only Registry::new call outside tests
    cols = set()
    nt = lib.fn(A.builder + '::<W>::new_type')
    if nt is not None:
        for p in explore(nt, max_visits=1):
            for (k, bid, callee, args, t) in path_calls(p):
                if callee == REG + '::new' and len(args) == 2:
                    a = strip(args[1])
                    cols.add(a[1] if a[0] == 'const' else (lib.const_scalar(a[1]) if a[0] == 'citem' else None))
    n_cfg = cols.pop() if len(cols) == 1 and None not in cols else None

    def is_len(e):
        e = strip(e)
        return e[0] == 'call' and isinstance(e[1], str) and e[1].endswith('::len')

    def holds(op, a, b):
        return {'Eq': a == b, 'Ne': a != b, 'Lt': a < b, 'Le': a <= b, 'Gt': a > b, 'Ge': a >= b}.get(op)
    n = 0
    for p in explore(f, max_visits=1, havoc=True):
        if p.end != 'return':
            continue
        rv = p.ret()
        if not (rv[0] == 'agg' and rv[1].endswith('RegistryEntry::NotFound')):
            continue
        lens = []
        whole = False
        seen = set()
        odd = False
        for d in p.decisions:
            e = strip(d[2])
            if is_len(e) and isinstance(d[3], int):
                lens.append(('Eq', d[3], 1))            # `match cells.len() { 1 => .., 2 => .., _ => .. }`
            elif is_len(e) and isinstance(d[3], tuple) and d[3] and d[3][0] == 'not':
                lens.extend(('Ne', v, 1) for v in d[3][1])
            elif e[0] == 'bin' and is_len(e[2]) and strip(e[3])[0] == 'const':
                lens.append((e[1], strip(e[3])[1], d[3]))
            elif e[0] == 'bin' and is_len(e[3]) and strip(e[2])[0] == 'const':
                lens.append(({'Lt': 'Gt', 'Gt': 'Lt', 'Le': 'Ge', 'Ge': 'Le'}.get(e[1], e[1]), strip(e[2])[1], d[3]))
            elif e[0] == 'discr' and any(is_call(x, '::position') or is_call(x, '::find') or is_call(x, '::any') for x in walk(e)) and d[3] == 0:
                whole = True
            elif e[0] == 'call' and e[2]:
                for a in walk(e):
                    if a[0] == 'index':
                        i = strip(a[2]) if not isinstance(a[2], str) else None
                        if isinstance(a[2], str) and re.fullmatch(r'\[(\d+)\]', a[2]):
                            seen.add(int(a[2][1:-1]))
                        elif i is not None and i[0] == 'const':
                            seen.add(i[1])
                        else:
                            odd = True
        if n_cfg is not None:
            if not all(holds(op, n_cfg, c) == bool(o) for op, c, o in lens if holds(op, n_cfg, c) is not None):
                continue           # not reachable with the shipped row length
            rowlen = n_cfg
        else:
            eq = [c for op, c, o in lens if (op == 'Eq' and o == 1) or (op == 'Ne' and o == 0)]
            rowlen = eq[0] if eq else None
        n += 1
        if whole:
            ctx.check(R, True, 'whole-row', '', fn=f)
        elif rowlen is None or odd:
            ctx.undecided(R, 'whole-row', 'a miss path whose row length / compared cells are not in a recognised form', fn=f)
            continue
        else:
            missing = sorted(set(range(rowlen)) - seen)
            ctx.check(R, not missing, 'whole-row', 'a miss is declared on a path that never compared cell(s) %s of a row of %d: an equal node stored there is emitted again although nothing had to be evicted' % (missing, rowlen), fn=f,
                      detail={'path': p.blocks, 'row_len': rowlen, 'compared': sorted(seen)})
        # victim
        vict = None
        for (k, bid, callee, args, t) in path_calls(p, expand=False):
            if isinstance(callee, str) and callee.endswith('Clone>::clone_from'):
                a = strip(args[0])
                while a[0] == 'field':
                    a = a[1]
                if a[0] == 'index':
                    vict = a[2]
        if vict is None:
            ctx.undecided(R, 'victim', 'the overwritten cell is not identified on a miss path', fn=f)
            continue
        if isinstance(vict, str):
            m = re.fullmatch(r'\[(\d+)\]', vict)
            vict = ('const', int(m.group(1))) if m else ('?',)
        v = strip(vict)
        if v[0] == 'const' and rowlen is not None:
            ctx.check(R, v[1] == rowlen - 1, 'victim', 'a miss overwrites cell %d of a row of %d: the most recently used entries are evicted while the last cell (free, or least recently used) is kept' % (v[1], rowlen), fn=f)
        elif v[0] == 'bin' and v[1] == 'Sub' and is_len(v[2]) and strip(v[3]) == ('const', 1):
            ctx.check(R, True, 'victim', '', fn=f)
        else:
            ctx.undecided(R, 'victim', 'victim index %s not in a recognised form' % fmt(v)[:60], fn=f)
    if n == 0:
        ctx.undecided(R, 'whole-row', 'no miss path recognised', fn=f)


def strip(e):
    while isinstance(e, tuple) and e[0] == 'cast':
        e = e[1]
    return e


def run(ctx):
    lib = ctx.lib
    A = Anchors(lib)
    if A.err:
        for e in A.err:
            ctx.missing('R12.1', 'anchor', e)
        return
    ctx.step(r12_1_4, ctx, A)
    ctx.step(r12_2, ctx)
    ctx.step(node_copy, ctx, 'R12.2')
    ctx.step(r12_3_6, ctx, A)
    ctx.step(r12_5, ctx)
    ctx.step(r12_7, ctx, A)
