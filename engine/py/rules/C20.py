"""C20 — opening and verifying untrusted bytes is total and memory-safe."""
from absint import Prover, analyse, Linearizer
from lin import Lin, entails
from sym import fmt, walk
import stdmodel as SM

LEVEL = 'proof'
# totality is a proof obligation: a panic source the prover cannot discharge is an alarm (sound over-approximation), and a broken
# positive control is fatal
FATAL_UNDECIDED = True
NEED_FIXTURE = True
ROLES = ['lib']
EXPLANATION = ('R20.1: HIR scan of the library crate for user-written unsafe blocks / unsafe fns / unsafe impls (0 expected; '
               'controls: the fixture crate and fst-bin must show theirs). R20.2/R20.3: every panic source (MIR Assert, slice '
               'indexing, unwrap/expect, explicit panics) reachable from the open entry points, verify() and the metadata '
               'accessors is enumerated over all CFG paths (loop-carried values havocked) and discharged by linear arithmetic '
               '(Fourier-Motzkin) under the dominating guards; verify() additionally uses the type invariant '
               '"checksum stored => length >= K", where K is derived from the constructor on this run and the constructor is '
               'shown to be the only place the FST type is built.')
TRUSTED = ['std panic conditions of slice indexing / try_into / unwrap (engine/py/stdmodel.py)',
           'external std callees not on the panicking list are total (listed in coverage.assumed_total_callees)']
ASSUMPTIONS = ['AsRef<[u8]>::as_ref of the container is pure and returns the same slice on every call', 'target_pointer_width = 64']

OPEN_ENTRIES = ['raw::Fst::<D>::new', 'inner_map::Map::<D>::new', 'inner_set::Set::<D>::new']
ACCESSORS = ['raw::Fst::<D>::len', 'raw::Fst::<D>::is_empty', 'raw::Fst::<D>::size', 'raw::Fst::<D>::fst_type',
             'raw::Fst::<D>::as_bytes', 'raw::Fst::<D>::as_inner', 'inner_map::Map::<D>::len', 'inner_map::Map::<D>::is_empty',
             'inner_set::Set::<D>::len', 'inner_set::Set::<D>::is_empty', 'inner_map::Map::<D>::as_fst', 'inner_set::Set::<D>::as_fst']
VERIFY = 'raw::Fst::<D>::verify'
FST_ADT = 'raw::Fst'


def user_unsafe(crate):
    out = []
    for u in crate.unsafe:
        if u['kind'] == 'block':
            std_macro = (not u.get('user')) and '/rustlib/' in (u.get('span') or '')
            if u.get('user') or not std_macro:
                out.append(('block', u.get('in_fn'), u.get('span')))
        else:
            out.append((u['kind'], u.get('path'), u.get('span')))
    for f in crate.fn_list:
        if f.unsafe_fn:
            out.append(('fn', f.path, f.span))
    return out


def r20_1(ctx):
    R = ctx.rule('R20.1', 'no unsafe block / fn / impl in the library crate', floor=3)
    lib = user_unsafe(ctx.lib)
    for kind, where, span in lib:
        ctx.violation(R, 'unsafe-%s:%s' % (kind, where), 'user-written unsafe %s in the library' % kind, fn=where, at=span)
    ctx.check(R, not lib, 'lib-unsafe-count', 'library contains unsafe code', detail='%d unsafe entries scanned, 0 user-written' % len(ctx.lib.unsafe))
    fx = user_unsafe(ctx.fixture)
    kinds = {k for k, _, _ in fx}
    ctx.check(R, {'block', 'fn', 'impl'} <= kinds, 'control-fixture', 'the unsafe scan no longer sees the fixture\'s unsafe block/fn/impl: checker broken',
              detail=sorted(kinds), kind='undecided')
    if ctx.bin is not None:
        b = user_unsafe(ctx.bin)
        ctx.check(R, len(b) >= 1, 'control-fst-bin', 'the unsafe scan no longer sees fst-bin\'s unsafe mmap blocks: checker broken',
                  detail='%d user-written unsafe items in fst-bin' % len(b), kind='undecided')


def checksum_field(lib):
    """(meta field of the FST type, checksum field of the meta type) found by type, not by name"""
    fst = lib.adts.get(FST_ADT)
    if not fst:
        return None
    for f in fst['variants'][0]['fields']:
        meta = lib.adts.get(f['ty'].split('<')[0])
        if meta and f['ty'].startswith('raw::'):
            for g in meta['variants'][0]['fields']:
                if g['ty'].startswith('std::option::Option<u32'):
                    data = [h['name'] for h in fst['variants'][0]['fields'] if h['name'] != f['name']]
                    return f['name'], g['name'], (data[0] if len(data) == 1 else None)
    return None


_REPORTED = set()


def report(ctx, R, pv, fl, entry):
    seen = set()
    for x in fl:
        k = x.key()
        if k in seen:
            continue
        seen.add(k)
        if k in _REPORTED:
            continue       # same construct already reported through another entry point
        _REPORTED.add(k)
        ctx.violation(R, k, 'possible panic reachable from %s: %s [call chain: %s]' % (entry, x.what, ' -> '.join(x.chain)),
                      fn=x.fn, at=x.at, kind='undecided' if x.kind == 'undecided' else 'violation')
    return not seen


def r20_2(ctx, state):
    R = ctx.rule('R20.2', 'opening is total: every panic source reachable from Fst::new / Map::new / Set::new is discharged', floor=3)
    lib = ctx.lib
    fields = checksum_field(lib)
    state['fields'] = fields
    ks = []
    for name in OPEN_ENTRIES:
        f = lib.fn(name)
        if f is None:
            ctx.missing(R, 'anchor:' + name, 'entry point %s not found' % name)
            continue
        pv = Prover(lib)

        def on_end(p, cs, fs, L, f=f):
            if p.end != 'return' or name != OPEN_ENTRIES[0] or not fields:
                return
            rv = pv.inline(p.ret())
            # Ok(Fst { meta: Meta { checksum: Some(..) } .. })
            chk = None
            for x in walk(rv):
                if x[0] == 'agg' and x[1] == FST_ADT:
                    fm = dict(x[2])
                    meta = fm.get(fields[0])
                    if meta is not None and meta[0] == 'agg':
                        chk = dict(meta[2]).get(fields[1])
                    data = fm.get(fields[2]) if fields[2] else None
                    cs_ = list(cs)
                    then_form = chk is not None and chk[0] == 'call' and isinstance(chk[1], str) and chk[1].rsplit('::', 1)[-1] in ('then', 'then_some') and 'bool' in chk[1] and len(chk[2]) == 2
                    if then_form:
                        # `(version > 2).then(|| ..)`: a checksum is stored exactly when the condition holds
                        from absint import bool_constraints
                        bc = bool_constraints(L, chk[2][0], 1)
                        if bc is not None:
                            cs_ = cs_ + bc
                            if not L.feasible(cs_):
                                continue
                        else:
                            then_form = False
                    if chk is not None and ((chk[0] == 'agg' and chk[1].endswith('::Some')) or then_form) and data is not None:
                        cs = cs_
                        ln = L.slice_len(('call', 'std::convert::AsRef::as_ref', (data,), None))
                        lo, hi = 0, 1 << 20
                        rc = L.range_constraints(list(cs) + [ln])
                        while lo < hi:
                            mid = (lo + hi + 1) // 2
                            if entails(list(cs) + rc, ln - Lin.const(mid)):
                                lo = mid
                            else:
                                hi = mid - 1
                        ks.append(lo)
                    elif chk is not None and not (chk[0] == 'agg' and chk[1].endswith('::None')):
                        ks.append(0)    # cannot tell whether a checksum is stored on this path
        fl = analyse(pv, f, on_path_end=on_end)
        ok = report(ctx, R, pv, fl, name)
        ctx.count('paths_' + name, pv.paths)
        ctx.count('panic_obligations', pv.obligations)
        ctx.count('panic_obligations_discharged', pv.discharged)
        state.setdefault('assumed_total', set()).update(pv.assumed_total)
        state.setdefault('opaque', set()).update(pv.opaque_user)
        if ok:
            ctx.ok(R, 'entry:' + name, {'paths': pv.paths, 'panic_sources': pv.obligations, 'discharged': pv.discharged, 'sample': pv.samples[:3]}, fn=f)
    state['K'] = min(ks) if ks else None
    state['K_paths'] = len(ks)


def r20_3(ctx, state):
    R = ctx.rule('R20.3', 'verify() and the metadata accessors are total on anything that opened', floor=8)
    lib = ctx.lib
    fields = state.get('fields')
    K = state.get('K')
    # the invariant is only as good as the claim that `new` is the single constructor of the FST type
    ctors = []
    for f in lib.fn_list:
        for b in f.normal_blocks():
            for st in b['stmts']:
                if st['k'] == 'assign' and isinstance(st['rv'].get('agg'), dict) and st['rv']['agg'].get('adt') == FST_ADT:
                    ctors.append(f)
    bad = [f for f in ctors if f.path != OPEN_ENTRIES[0] and not (f.from_expansion and f.impl and f.impl.get('trait_path') == 'std::clone::Clone')]
    for f in bad:
        ctx.violation(R, 'ctor:' + f.path, 'the FST type is constructed outside Fst::new, so "checksum stored => length >= %s" is not established' % K, fn=f)
    ctx.check(R, bool(ctors) and not bad, 'single-constructor', 'no constructor of the FST type found', detail=[f.path for f in ctors])
    ctx.check(R, K is not None and fields is not None and K >= 4, 'invariant',
              'cannot derive "checksum stored => length >= 4" from the constructor (K=%s)' % K,
              detail='on %d path(s) of Fst::new storing a checksum the guards entail len >= %s' % (state.get('K_paths', 0), K), kind='undecided' if K is None else 'violation')

    def assume(fs, L):
        out = []
        if not fields or K is None:
            return out
        for e, v in fs.items():
            if v == 1 and isinstance(e, tuple) and e[0] == 'discr':
                x = e[1]
                if x[0] == 'field' and x[2] == fields[1] and x[1][0] == 'field' and x[1][2] == fields[0] and fields[2]:
                    y = x[1][1]
                    ln = L.slice_len(('call', 'std::convert::AsRef::as_ref', (('field', y, fields[2]),), None))
                    out.append(ln - Lin.const(K))
        return out
    for name in [VERIFY] + ACCESSORS:
        f = lib.fn(name)
        if f is None:
            ctx.missing(R, 'anchor:' + name, 'function %s not found' % name)
            continue
        pv = Prover(lib, assume=assume)
        fl = analyse(pv, f)
        ok = report(ctx, R, pv, fl, name)
        ctx.count('panic_obligations', pv.obligations)
        ctx.count('panic_obligations_discharged', pv.discharged)
        state.setdefault('assumed_total', set()).update(pv.assumed_total)
        state.setdefault('opaque', set()).update(pv.opaque_user)
        if ok:
            ctx.ok(R, 'entry:' + name, {'paths': pv.paths, 'panic_sources': pv.obligations, 'discharged': pv.discharged, 'sample': pv.samples[:2]}, fn=f)


def control(ctx):
    """the prover must find the panic in a function that does have one (fixture)"""
    R = ctx.rule('R20.2', 'opening is total: every panic source reachable from Fst::new / Map::new / Set::new is discharged')
    f = ctx.fixture.fn('ctl_short_read')
    if f is None:
        ctx.undecided(R, 'control-prover', 'fixture function ctl_short_read missing')
        return
    pv = Prover(ctx.fixture)
    fl = analyse(pv, f)
    ctx.check(R, len(fl) >= 1, 'control-prover', 'the panic prover no longer reports the out-of-bounds read in the fixture: checker broken',
              detail=[repr(x)[:200] for x in fl[:2]], kind='undecided')


def run(ctx):
    state = {}
    ctx.step(r20_1, ctx)
    ctx.step(r20_2, ctx, state)
    ctx.step(r20_3, ctx, state)
    ctx.step(control, ctx)
    ctx.notes.append({'assumed_total_callees': sorted(state.get('assumed_total', [])), 'opaque_user_calls': sorted(state.get('opaque', [])),
                      'derived_invariant': 'checksum stored => len(data.as_ref()) >= %s' % state.get('K')})
