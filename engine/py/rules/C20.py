"""C20 — opening and verifying untrusted bytes is total and memory-safe."""
LEVEL = 'proof'
NEED_FIXTURE = True
ROLES = ['lib']
EXPLANATION = ('R20.1: HIR scan of the library crate for user-written unsafe blocks / unsafe fns / unsafe impls (0 expected; '
               'controls: the fixture crate and fst-bin must show theirs). R20.2/R20.3: every panic source (MIR Assert, slice '
               'indexing, unwrap/expect, explicit panics) reachable from Fst::new, Fst::verify and the metadata accessors is '
               'enumerated over all CFG paths and discharged by linear reasoning (Fourier-Motzkin) under the dominating guards.')
TRUSTED = ['std slice indexing / try_into / unwrap panic conditions (stdmodel)', 'AsRef<[u8]> returns the same slice on every call', '64-bit target']
ASSUMPTIONS = ['AsRef<[u8]>::as_ref of the container is pure', 'target_pointer_width = 64']


def user_unsafe(crate):
    out = []
    for u in crate.unsafe:
        if u['kind'] == 'block':
            std_macro = (not u.get('user')) and '/rustlib/' in (u.get('span') or '')
            if u.get('user') or not std_macro:
                out.append(('block', u.get('in_fn'), u.get('span')))
        else:
            out.append((u['kind'], u.get('path'), u.get('span')))
    for f in crate.fn_list:
        if f.unsafe_fn:
            out.append(('fn', f.path, f.span))
    return out


def r20_1(ctx):
    R = ctx.rule('R20.1', 'no unsafe block / fn / impl in the library crate', floor=3)
    lib = user_unsafe(ctx.lib)
    for kind, where, span in lib:
        ctx.violation(R, 'unsafe-%s:%s' % (kind, where), 'user-written unsafe %s in the library' % kind, fn=where, at=span)
    ctx.check(R, not lib, 'lib-unsafe-count', 'library contains unsafe code', detail='%d unsafe entries scanned, 0 user-written' % len(ctx.lib.unsafe))
    # positive controls: the scan must see the unsafe code that does exist elsewhere
    fx = user_unsafe(ctx.fixture)
    kinds = {k for k, _, _ in fx}
    ctx.check(R, {'block', 'fn', 'impl'} <= kinds, 'control-fixture', 'the unsafe scan no longer sees the fixture\'s unsafe block/fn/impl: checker broken',
              detail=sorted(kinds), kind='undecided')
    if ctx.bin is not None:
        b = user_unsafe(ctx.bin)
        ctx.check(R, len(b) >= 1, 'control-fst-bin', 'the unsafe scan no longer sees fst-bin\'s unsafe mmap blocks: checker broken',
                  detail='%d user-written unsafe items in fst-bin' % len(b), kind='undecided')


def run(ctx):
    r20_1(ctx)
