"""C14 — traversals and set operations stream with memory independent of FST size (structural part)."""
from callgraph import CallGraph
from rules.common import adt_base, arg_loc
from sym import fmt, walk
from rules.streams import is_call
from rules import growth
import stdmodel as SM

LEVEL = 'other'
NEED_FIXTURE = True
ROLES = ['lib']
EXPLANATION = ('Decides who-may-allocate / who-may-grow, not measured heap: R14.1 no allocating or growing std callee is reachable from '
               'Fst::new, get, contains_key (and their map/set wrappers) - calls into the caller\'s AsRef are opaque and assumed '
               'non-allocating; R14.2 every growth site reachable from any of the 22 Streamer::next implementations whose receiver is '
               'rooted in stream state is on the allow-list with its bound (key buffer and DFS stack: depth-bounded by the lock-step rule '
               'R03.5; outs, slot key copy, difference key: dominated by clear(); heap push: only of a slot obtained from a pop or '
               'created at construction), no fresh allocation happens per step, and the container-typed fields of the stream types are '
               'exactly the confirmed inventory.')
TRUSTED = ['allocating / growing std APIs as listed in stdmodel']
ASSUMPTIONS = ['user-supplied automata and streams are outside the property']

OPEN = ['raw::Fst::<D>::new', 'raw::Fst::<D>::get', 'raw::Fst::<D>::contains_key', 'inner_map::Map::<D>::new', 'inner_map::Map::<D>::get', 'inner_map::Map::<D>::contains_key',
        'inner_set::Set::<D>::new', 'inner_set::Set::<D>::contains']
ALLOW = {
    ("raw::StreamWithState", 'Vec<u8'): ('one byte per DFS frame (R03.5 lock step)', False),
    ("raw::StreamWithState", 'Vec<raw::StreamState'): ('one frame per key byte + 1 (R03.5 lock step)', False),
    ("raw::ops::Union", 'Vec<raw::ops::IndexedValue'): ('<= k entries per key, cleared per candidate key', True),
    ("raw::ops::Intersection", 'Vec<raw::ops::IndexedValue'): ('<= k entries per key, cleared per candidate key', True),
    ("raw::ops::SymmetricDifference", 'Vec<raw::ops::IndexedValue'): ('<= k entries per key, cleared per candidate key', True),
    ("raw::ops::Difference", 'Vec<raw::ops::IndexedValue'): ('one entry per key, cleared per candidate key', True),
    ("raw::ops::Difference", 'Vec<u8'): ('copy of the current key, cleared first', True),
    ("raw::ops::Slot", 'Vec<u8'): ('copy of the stream\'s current key, cleared first', True),
    ("raw::ops::StreamHeap", 'BinaryHeap<raw::ops::Slot'): ('at most one slot per input stream: only slots handed to refill are pushed', False),
}
STREAM_ADTS = ['raw::StreamWithState', 'raw::Stream', 'raw::StreamState', 'raw::ops::Union', 'raw::ops::Intersection', 'raw::ops::Difference', 'raw::ops::SymmetricDifference',
               'raw::ops::StreamHeap', 'raw::ops::Slot', 'inner_map::Stream', 'inner_map::StreamWithState', 'inner_map::Keys', 'inner_map::Values', 'inner_map::Union', 'inner_map::Intersection',
               'inner_map::Difference', 'inner_map::SymmetricDifference', 'inner_set::Stream', 'inner_set::StreamWithState', 'inner_set::Union', 'inner_set::Intersection', 'inner_set::Difference',
               'inner_set::SymmetricDifference', 'inner_set::StreamZeroOutput', 'inner_map::StreamOutput', 'raw::node::Node', 'raw::FstRef', 'raw::Bound']
INVENTORY = None   # frozen below from the confirmed tree: (type, container type) multiset


INV = {('raw::Bound', 'Vec<u8'): 2, ('raw::StreamWithState', 'Vec<raw::StreamState'): 1, ('raw::StreamWithState', 'Vec<u8'): 1,
       ('raw::ops::Difference', 'Vec<raw::ops::IndexedValue'): 1, ('raw::ops::Difference', 'Vec<u8'): 1, ('raw::ops::Intersection', 'Vec<raw::ops::IndexedValue'): 1,
       ('raw::ops::Slot', 'Vec<u8'): 1, ('raw::ops::StreamHeap', 'BinaryHeap<raw::ops::Slot'): 1, ('raw::ops::StreamHeap', 'Vec<std::boxed::Box'): 1,
       ('raw::ops::SymmetricDifference', 'Vec<raw::ops::IndexedValue'): 1, ('raw::ops::Union', 'Vec<raw::ops::IndexedValue'): 1}


def self_adt(f):
    return adt_base(f.impl['self_ty']) if f.impl else None


def run(ctx):
    lib = ctx.lib
    cg = CallGraph(lib)
    R1 = ctx.rule('R14.1', 'opening and point lookups reach no allocating function', floor=8)
    for name in OPEN:
        f = lib.fn(name)
        if f is None:
            ctx.missing(R1, 'anchor:' + name, name + ' not found')
            continue
        als, reach = growth.alloc_sites(lib, cg, [f.path])
        for g, t, x in als:
            chain = cg.path_to([f.path], lambda p: p == g.path)
            ctx.violation(R1, 'alloc:%s<-%s' % (x, name), '%s allocates (%s in %s) [via %s]: opening / looking up must not touch the heap' % (name, x, g.path, ' -> '.join(chain or [])), fn=g, at=t.get('span'))
        if not als:
            ctx.ok(R1, 'entry:' + name, '%d functions reachable, none allocates' % len(reach), fn=f)
    R2 = ctx.rule('R14.2', 'who-may-grow in streams: every retained-growth site reachable from a Streamer::next is allow-listed; no per-step allocation', floor=12)
    nexts = [f.path for f in lib.fn_list if f.impl and f.impl.get('trait_path') == 'stream::Streamer' and f.path.endswith('::next')]
    ctx.check(R2, len(nexts) >= 20, 'streamers', 'only %d Streamer::next implementations found (22 confirmed)' % len(nexts), kind='anchor-missing')
    sites, reach = growth.growth_sites(lib, cg, nexts)
    ctx.count('streamer_impls', len(nexts))
    ctx.count('functions_reachable', len(reach))
    for f, t, g, loc, kind in sites:
        if kind != 'state':
            continue
        from rules.C13 import recv_type, owner_adt
        sites2 = [(f, loc)]
        if len(loc) == 1 and 2 <= loc[0] <= f.arg_count:
            # the receiver is a by-reference parameter (a helper shared by several streams): follow it to the callers' fields
            res = growth.resolve_param_sites(lib, cg, f, loc)
            if res is None:
                ctx.undecided(R2, 'site:%s.param%d' % (self_adt(f), loc[0]), 'a container passed by reference grows in a helper whose callers cannot be followed', fn=f, at=t.get('span'))
                continue
            sites2 = res
        for (sf, sloc) in sites2:
            key = ((owner_adt(lib, sf, sloc) or self_adt(sf)), recv_type(lib, sf, sloc))
            path = '.'.join(str(x) for x in sloc[1:])
            if key in ALLOW:
                bound, need_clear = ALLOW[key]
                okc = True
                if need_clear:
                    if sf is f:
                        bid = next(b for b, tt in f.calls() if tt is t)
                        okc = growth.cleared_before(f, bid, loc)
                    else:
                        # cleared in the caller before the helper is called
                        cb = [b for b, tt in sf.calls() if sf.callee(tt) == f.path]
                        okc = any(growth.cleared_before(sf, b, sloc) for b in cb)
                ctx.check(R2, okc, 'site:%s.%s' % (key[0], path), 'growth of %s is allow-listed only because it is cleared first, and it no longer is' % path, fn=sf, at=t.get('span'), detail=bound)
            else:
                ctx.violation(R2, 'site:%s.%s' % (key[0], path), 'a container rooted in stream state grows (%s on %s: %s) at a site that is not on the allow-list: heap may now grow with the number of keys visited or emitted' % (g.rsplit('::', 1)[-1], path, key[1]), fn=sf, at=t.get('span'))
    # "cleared per candidate key": the entry lists of the set operations are bounded by the number of streams only if the clear
    # happens for EVERY candidate (after its slot is taken, before its first entry) - not once per call (R05.4)
    import rules.C05 as C05
    ctx.rule('R05.4', 'outs discipline: cleared once per candidate key, one (index, value) entry per popped slot taken from that slot', floor=3)
    if all(lib.fn(q) is not None for q in C05.TAKERS):
        for name, path in C05.OPS.items():
            g = lib.fn(path)
            if g is not None and name != 'difference':
                ctx.step(C05.r05_4_clear, ctx, name, g)
    else:
        ctx.missing('R05.4', 'anchor:heap-primitives', 'the stream heap no longer has pop / pop_if_equal / pop_if_le: the per-candidate clear is not decided for this design')
    # per-step allocations other than the allow-listed growth
    als, _ = growth.alloc_sites(lib, cg, nexts)
    for g, t, x in als:
        if SM.is_grow(x):
            continue
        if g.from_expansion or (g.impl and g.impl.get('trait_path') == 'std::clone::Clone'):
            # derived / manual Clone of user-visible types is reached only through the with-state stream's `state.clone()` on user automaton states
            continue
        ctx.violation(R2, 'alloc:%s@%s' % (x, g.path), 'a stream step allocates afresh (%s): per-key allocation that is not one of the bounded buffers' % x, fn=g, at=t.get('span'))
    # sized allocations of the reader / stream side: the requested capacity is a constant (or capped by one, or the number of streams)
    R3 = ctx.rule('R14.3', 'sized allocations on the reader / stream side request a constant capacity (or min(const, _), or one per input stream)', floor=2)
    from paths import explore
    from rules.common import path_calls

    def bounded(e):
        """True: bounded by a constant / the number of streams; False: grows with the data; None: not recognised"""
        while e[0] == 'cast':
            e = e[1]
        if e[0] == 'const':
            return True
        if e[0] == 'citem':
            return True
        if e[0] == 'call' and isinstance(e[1], str):
            m = e[1].rsplit('::', 1)[-1]
            if m == 'min' and ('cmp' in e[1] or 'Ord' in e[1]):
                rs = [bounded(a) for a in e[2]]
                return True if any(r is True for r in rs) else (False if all(r is False for r in rs) else None)
            if m == 'max' and ('cmp' in e[1] or 'Ord' in e[1]):
                rs = [bounded(a) for a in e[2]]
                return False if any(r is False for r in rs) else (True if all(r is True for r in rs) else None)
            if m in ('size', 'len') and e[2]:
                # the length of the FST's bytes / of a key or data slice grows with the data; the number of input streams does not
                a = e[2][0]
                tys = ' '.join(str(x) for x in walk(a) if isinstance(x, str))
                if m == 'size' or any(x[0] == 'field' and x[2] in ('data', 'fst') for x in walk(a)) or any(is_call(x, 'as_bytes') or is_call(x, 'as_ref') for x in walk(a)):
                    return False
                if any(x[0] == 'field' and x[2] in ('streams', 'rdrs') for x in walk(a)):
                    return True
                return None
        if e[0] == 'bin' and e[1] in ('Add', 'Mul', 'Sub'):
            rs = [bounded(e[2]), bounded(e[3])]
            return False if any(r is False for r in rs) else (True if all(r is True for r in rs) else None)
        return None
    SIZED = ('Vec::<T>::with_capacity', 'Vec::<T, A>::reserve', 'Vec::<T, A>::reserve_exact', 'String::with_capacity', 'BinaryHeap::<T>::with_capacity', 'vec::from_elem')
    for g in lib.fn_list:
        if g.from_expansion or g.path.startswith(('raw::build::', 'raw::registry', '<raw::build::')) or g.kind == 'Closure' and g.path.startswith('raw::build::'):
            continue
        if not any((g.callee(t) or '').endswith(SIZED) for _, t in g.calls()):
            continue
        done = set()
        for p in explore(g, max_visits=1, havoc=True, limit=300):
            for (k, bid, callee, args, t) in path_calls(p, expand=False):
                if not isinstance(callee, str) or not callee.endswith(SIZED) or bid in done:
                    continue
                done.add(bid)
                n = args[-1]
                r = bounded(n)
                if r is None:
                    ctx.undecided(R3, 'cap:%s' % g.path, 'a buffer is allocated with a capacity that is neither a constant nor a recognised bounded quantity: %s' % fmt(n)[:60], fn=g, at=t.get('span'))
                else:
                    ctx.check(R3, r, 'cap:%s' % g.path, 'a buffer is allocated with a capacity that grows with the data (%s): opening a stream on a large FST then costs memory proportional to the FST, not to the key length' % fmt(n)[:80], fn=g, at=t.get('span'))
    # building an operation stream does not run its inputs: the constructors only move the input streams into the heap (which primes one
    # item per stream); draining an input there keeps all its keys in memory
    R4 = ctx.rule('R14.4', 'operation constructors do not drain their input streams', floor=4)
    for m in ('union', 'intersection', 'difference', 'symmetric_difference'):
        g = lib.fn("raw::ops::OpBuilder::<'f>::" + m)
        if g is None:
            ctx.missing(R4, 'anchor:' + m, 'operation constructor not found')
            continue
        drains = False
        for h, body in g.loops().items():
            cs = [(g.callee(t) or g.callee_decl(t) or '') for bid, t in g.calls() if bid in body]
            if any(c.endswith('::next') for c in cs) and any(SM.is_grow(c) for c in cs):
                drains = True
        ctx.check(R4, not drains, 'constructor:' + m, 'the %s constructor loops over an input stream and collects what it yields: memory proportional to that stream before the first key is produced' % m, fn=g)
    inv = growth.type_inventory(lib, STREAM_ADTS)
    extra = {k: n for k, n in inv.items() if n > INV.get(k, 0)}
    for (a, ty), n in sorted(extra.items()):
        ctx.violation(R2, 'field:%s:%s' % (a, ty[:50]), 'stream type %s gained a container field of type %s: a new place where per-key data can be retained' % (a, ty[:70]), fn=a)
    ctx.check(R2, not extra, 'inventory', 'container inventory of the stream types changed', detail=sorted('%s: %s x%d' % (a, t[:50], n) for (a, t), n in inv.items()))
    fx = ctx.fixture
    fcg = CallGraph(fx)
    als, _ = growth.alloc_sites(fx, fcg, ['Holder::ctl_alloc_lookup'])
    ctx.check(R1, len(als) >= 1, 'control-fixture', 'the allocation scan misses the fixture\'s allocating lookup: checker broken', kind='violation')
    # the CLI's consumers of a stream (fst range / grep / fuzzy print what they are given, the union batch re-inserts it) hold one item at
    # a time: a local buffer filled inside the draining loop must be emptied there under a test against a FIXED bound
    b = ctx.bin
    if b is not None:
        R5 = ctx.rule('R14.5', 'fst-bin: loops that drain a stream do not accumulate its items', floor=1)
        for g in b.fn_list:
            if g.from_expansion:
                continue
            for h, body in g.loops().items():
                cs = [(bid, t, (g.callee(t) or g.callee_decl(t) or '')) for bid, t in g.calls() if bid in body]
                if not any(c.endswith("Streamer<'a>>::next") or c.endswith('Streamer::next') for _, _, c in cs):
                    continue
                grown = {}
                for bid, t, c in cs:
                    if SM.is_grow(c):
                        l0 = arg_loc(g, t, 0)
                        if l0 is not None and len(l0) == 1 and l0[0] > g.arg_count:
                            grown.setdefault(l0, t)
                if not grown:
                    ctx.ok(R5, 'drain:%s@%s' % (g.path, h), None, g, None)
                    continue
                for l0, t in sorted(grown.items()):
                    emptied = [c for bid, t2, c in cs if c.rsplit('::', 1)[-1] in ('clear', 'truncate', 'drain') and arg_loc(g, t2, 0) == l0] + \
                        [c for bid, t2, c in cs if c.endswith('mem::take') or c.endswith('mem::replace')]
                    capt = [c for bid, t2, c in cs if c.rsplit('::', 1)[-1] == 'capacity' and arg_loc(g, t2, 0) == l0]
                    name = g.locals.get(l0[0], {}).get('name') or '_%d' % l0[0]
                    if not emptied:
                        ctx.violation(R5, 'accumulates:%s.%s' % (g.path, name), 'the loop draining a stream in %s appends to `%s` and never empties it: memory grows with the number of items streamed' % (g.path.rsplit('::', 1)[-1], name), fn=g, at=t.get('span'))
                    elif capt:
                        ctx.violation(R5, 'accumulates:%s.%s' % (g.path, name), 'the buffer `%s` filled by the draining loop of %s is emptied only when its length reaches ITS OWN capacity(), which grows with it: in effect it is never emptied and memory grows with the number of items streamed' % (name, g.path.rsplit('::', 1)[-1]), fn=g, at=t.get('span'))
                    else:
                        ctx.ok(R5, 'drain:%s@%s.%s' % (g.path, h, name), None, g, None)
    # the convenience collectors are the ONE place where the library materialises a whole stream, at the caller's explicit request; library
    # code that calls them on its own behalf (a Debug impl, a size estimate, a helper) holds every key of the set / map at once
    R6 = ctx.rule('R14.6', 'the library itself never collects a stream: only the collector wrappers call the collectors', floor=3)
    COLL = ('into_byte_vec', 'into_str_vec', 'into_byte_keys', 'into_str_keys', 'into_values', 'into_strs', 'into_bytes')
    for g in lib.fn_list:
        if g.from_expansion:
            continue
        for _, t in g.calls():
            cal = g.callee(t) or ''
            if cal.rsplit('::', 1)[-1] in COLL and 'Stream' in cal:
                ctx.check(R6, g.path.rsplit('::', 1)[-1] in COLL and 'Stream' in g.path, 'collector-caller:' + g.path,
                          '%s materialises a whole stream with %s: its memory grows with the number of keys (only the collectors themselves may do that, on the caller\'s request)' % (g.path, cal.rsplit('::', 1)[-1]), fn=g, at=t.get('span'))
    # the CLI opens FST files by mapping them: a loader that reads the file into a Vec first costs heap proportional to the file before
    # the first key is looked at
    if b is not None:
        R7 = ctx.rule('R14.7', 'fst-bin: FST files are memory-mapped, not read into the heap', floor=1)
        n7 = 0
        for g in b.fn_list:
            if g.from_expansion:
                continue
            cs7 = [(g.callee(t) or g.callee_decl(t) or '') for _, t in g.calls()]
            if not any(c.endswith(('Fst::<D>::new', 'Map::<D>::new', 'Set::<D>::new')) for c in cs7):
                continue
            n7 += 1
            slurp = [c for c in cs7 if c in ('std::fs::read',) or c.rsplit('::', 1)[-1] in ('read_to_end', 'read_to_string') or c.endswith('fs::read')]
            ctx.check(R7, not slurp, 'loader:' + g.path, '%s reads the file into memory (%s) before opening it as an FST: the heap then holds the whole file' % (g.path, sorted({c.rsplit('::', 1)[-1] for c in slurp})), fn=g)
        if n7 == 0:
            ctx.undecided(R7, 'loader', 'no CLI function opening an FST found')
