"""Format rules that are not about emission order: constants, bit fields, integer packing, form selection, deltas, header/footer."""
import itertools, json, os
from bitvec import ev, var_bits, const_bits
from paths import explore
from sym import fmt, walk, Sym, const_eval
from rules.common import calls_in_loops, path_calls, arg_loc, arg_locs, ret_kind, Anchors
from rules.streams import norm, is_call
from rules import layout
import stdmodel as SM

SPEC = os.path.join(os.path.dirname(os.path.abspath(__file__)), '..', '..', '..', 'spec')


def constants(ctx):
    R = ctx.rule('R09.1', 'format constants: VERSION = 3, index threshold 32, sentinels 0/1, common-input tables equal the pinned tables and are mutually inverse', floor=6)
    lib = ctx.lib
    for path, want in (('raw::VERSION', 3), ('raw::node::TRANS_INDEX_THRESHOLD', 32), ('raw::EMPTY_ADDRESS', 0), ('raw::NONE_ADDRESS', 1)):
        v = lib.const_scalar(path)
        ctx.check(R, v == want, 'const:' + path.rsplit('::', 1)[-1], '%s is %s, the documented format fixes %s' % (path, v, want), detail=v)
    ci = lib.const_bytes('raw::common_inputs::COMMON_INPUTS')
    inv = lib.const_bytes('raw::common_inputs::COMMON_INPUTS_INV')
    if ci is None or inv is None or len(ci) != 256 or len(inv) != 256:
        ctx.missing(R, 'anchor:common-inputs', 'common-input tables not found as constants')
        return
    pinned = json.load(open(os.path.join(SPEC, 'common_inputs.json')))
    ctx.check(R, list(ci) == pinned['COMMON_INPUTS'], 'table:COMMON_INPUTS', 'COMMON_INPUTS differs from the table of the documented format (first difference at byte %s)' % next((i for i in range(256) if ci[i] != pinned['COMMON_INPUTS'][i]), None))
    ctx.check(R, list(inv) == pinned['COMMON_INPUTS_INV'], 'table:COMMON_INPUTS_INV', 'COMMON_INPUTS_INV differs from the table of the documented format (first difference at index %s)' % next((i for i in range(256) if inv[i] != pinned['COMMON_INPUTS_INV'][i]), None))
    perm = sorted(ci) == list(range(256))
    inverse = all(inv[ci[b]] == b for b in range(256))
    ctx.check(R, perm and inverse, 'tables-inverse', 'the two common-input tables are not mutually inverse permutations: a byte encoded through one decodes to another byte through the other')


def common_helpers(lib):
    """by role: the free functions whose bodies index COMMON_INPUTS resp. COMMON_INPUTS_INV"""
    def uses(f, item):
        return any(item in str(st['rv']) for b in f.normal_blocks() for st in b['stmts'] if st['k'] == 'assign') or \
            any(item in str(t.get('args')) for _, t in f.calls()) or \
            any(item in str(pr) for pr in (getattr(f, 'promoted', None) or {}).values())
    enc = [f for f in lib.fn_list if uses(f, "raw::common_inputs::COMMON_INPUTS'") or uses(f, 'raw::common_inputs::COMMON_INPUTS"')]
    dec = [f for f in lib.fn_list if uses(f, 'raw::common_inputs::COMMON_INPUTS_INV')]
    enc = [f for f in enc if f not in dec]

    def owner(f):
        # a closure inside the helper (`idx.checked_sub(1).map(|i| INV[i])`) belongs to the helper
        q = f.path
        while '::{closure' in q:
            q = q[:q.rindex('::{closure')]
        return lib.fns.get(q, f)
    enc = list({owner(f).path: owner(f) for f in enc}.values())
    dec = list({owner(f).path: owner(f) for f in dec}.values())
    return (enc[0] if len(enc) == 1 else None), (dec[0] if len(dec) == 1 else None)


def const_env(lib, w=8):
    """named integer constants of the crate as bit vectors (so that `x & MASK` reads like `x & 0xF0`)"""
    env = []
    for path, c in lib.consts.items():
        v = c.get('value')
        if isinstance(v, str):
            env.append((('citem', path), const_bits(int(v, 16), 64)))
    return env


def common_input_helpers(ctx, R):
    """encoder index = COMMON[b]+1 if <= max else 0 ; decoder byte = INV[idx-1], idx = 0 => explicit byte"""
    lib = ctx.lib
    enc, dec = common_helpers(lib)
    if enc is None or dec is None:
        ctx.missing(R, 'anchor:common-helpers', 'the helpers indexing COMMON_INPUTS / COMMON_INPUTS_INV were not found')
        return
    # encoder
    good = {}
    for p in explore(enc, max_visits=1):
        if p.end != 'return':
            continue
        rv = p.ret()
        d = [x for x in p.decisions if x[2][0] == 'bin' and x[2][1] in ('Gt', 'Le', 'Lt', 'Ge')]
        if not d:
            continue
        e, val = d[-1][2], d[-1][3]
        over = (e[1] == 'Gt' and val == 1) or (e[1] == 'Le' and val == 0)
        valexpr = e[2]
        plus1 = any(x[0] == 'bin' and x[1] == 'Add' and x[3] == ('const', 1) for x in walk(valexpr)) or \
            any(is_call(x, 'wrapping_add') and len(x[2]) == 2 and x[2][1] == ('const', 1) for x in walk(valexpr))        # u8::wrapping_add(1) = (x + 1) % 256
        ok_val = any(x[0] == 'index' and x[1] == ('citem', 'raw::common_inputs::COMMON_INPUTS') for x in walk(valexpr)) and plus1
        ok_max = e[3][0] == 'param'
        if over:
            good['over'] = rv == ('const', 0) and ok_val and ok_max
        else:
            good['fits'] = norm(rv) == norm(valexpr) and ok_val and ok_max
    ctx.check(R, good.get('over') and good.get('fits'), 'common-idx', 'the common-input index must be COMMON_INPUTS[b] + 1 when that fits the field and 0 otherwise (%s)' % good, fn=enc)
    good = {}
    import vsplit
    for p in vsplit.vpaths(lib, dec):
        rv = p.ret()
        d = [x for x in p.decisions if x[2][0] == 'bin' and x[2][1] in ('Eq', 'Ne') and x[2][3] == ('const', 0)]
        if not d:
            continue
        zero = (d[-1][2][1] == 'Eq' and d[-1][3] == 1) or (d[-1][2][1] == 'Ne' and d[-1][3] == 0)
        if zero:
            good['zero'] = rv[0] == 'agg' and rv[1].endswith('::None')
        else:
            ok = rv[0] == 'agg' and rv[1].endswith('::Some')
            if ok:
                v = rv[2][0][1]
                ok = v[0] == 'index' and v[1] == ('citem', 'raw::common_inputs::COMMON_INPUTS_INV') and any(x[0] == 'bin' and x[1] == 'Sub' and x[2][0] == 'param' and x[3] == ('const', 1) for x in walk(v[2]))
            good['nonzero'] = ok
    if not good:
        # COMMON_INPUTS_INV.get((idx as usize).wrapping_sub(1)).copied(): 0 wraps to usize::MAX, which no table has - None; i > 0 reads
        # entry i - 1.  The widening must come BEFORE the wrapping subtraction (on u8, 0 would wrap to 255, a valid position)
        for p in explore(dec, max_visits=1):
            if p.end != 'return':
                continue
            rv = p.ret()
            while is_call(rv, '::copied') or is_call(rv, '::cloned'):
                rv = rv[2][0]
            if is_call(rv, '::get') and len(rv[2]) == 2 and any(x == ('citem', 'raw::common_inputs::COMMON_INPUTS_INV') for x in walk(rv[2][0])):
                ix = rv[2][1]
                okw = is_call(ix, 'wrapping_sub') and 'usize' in ix[1] and len(ix[2]) == 2 and ix[2][1] == ('const', 1) and any(x[0] == 'param' for x in walk(ix[2][0])) and \
                    not any(x[0] == 'bin' for x in walk(ix[2][0]))
                good['zero'] = good['nonzero'] = bool(okw)
    ctx.check(R, good.get('zero') and good.get('nonzero'), 'common-input', 'index 0 must mean "explicit byte follows" and index i > 0 the byte COMMON_INPUTS_INV[i - 1] (%s)' % good, fn=dec)


def single_store(p, f):
    st = [(loc, s, k, i) for (k, i, loc, s) in p.stores() if loc[0] == 1]
    return st


def setter_bits(f, names=('n',), arg_width=8):
    """bit map of self.0 after the setter, per path: [(decisions, bits)]"""
    out = []
    selfexpr = ('field', ('param', f.local_name(1), 1), '0')
    env = [(selfexpr, var_bits('old', 8))] + const_env(f.crate)
    for i in range(2, f.arg_count + 1):
        env.append((('param', f.local_name(i), i), var_bits('arg', arg_width) + [0] * (8 - arg_width)))
    for p in explore(f, max_visits=1):
        if p.end != 'return':
            continue
        st = single_store(p, f)
        if len(st) == 1:
            v = p.sym.rvalue_at(st[0][1]['rv'], (st[0][2], st[0][3]))
            out.append((p, ev(v, env, 8)))
        elif not st:
            out.append((p, var_bits('old', 8)))
        else:
            out.append((p, None))
    return out


def getter_bits(f, w=8):
    selfexpr = ('field', ('param', f.local_name(1), 1), '0')
    env = [(selfexpr, var_bits('old', 8))] + const_env(f.crate)
    out = []
    for p in explore(f, max_visits=1):
        if p.end == 'return':
            out.append((p, p.ret()))
    return out, env


def state_and_sizes_bits(ctx):
    R2 = ctx.rule('R09.2', 'state byte: tags 11 / 10 / 0f, low six bits = common-input index or transition count', floor=8)
    R3 = ctx.rule('R09.3', 'sizes byte: transition width in the high nibble, output width in the low nibble; provenance of the recorded widths', floor=5)
    lib = ctx.lib
    old = var_bits('old', 8)
    arg = var_bits('arg', 8)
    # ---- sizes byte ----------------------------------------------------------------------
    PS = 'raw::node::PackSizes::'
    table = {'set_transition_pack_size': old[:4] + arg[:4], 'set_output_pack_size': arg[:4] + old[4:]}
    for name, want in table.items():
        f = lib.fn(PS + name)
        if f is None:
            ctx.missing(R3, 'anchor:' + name, name + ' not found')
            continue
        # widths are at most 8 (asserted by the setter), so only their low four bits can be set
        res = [b for p, b in setter_bits(f, arg_width=4) if b is not None]
        ctx.check(R3, len(res) >= 1 and all(b == want for b in res), name, 'the sizes byte setter must place the width in the %s nibble and keep the other nibble: bits %s' % ('high' if 'transition' in name else 'low', res[:1]), fn=f)
    for name, lo in (('transition_pack_size', 4), ('output_pack_size', 0)):
        f = lib.fn(PS + name)
        if f is None:
            ctx.missing(R3, 'anchor:' + name, name + ' not found')
            continue
        rets, env = getter_bits(f)
        ok = len(rets) == 1 and ev(rets[0][1], env, 8) == old[lo:lo + 4] + [0, 0, 0, 0]
        ctx.check(R3, ok, name, 'the sizes byte getter must read the %s nibble' % ('high' if lo else 'low'), fn=f)
    for name in ('encode', 'decode', 'new'):
        f = lib.fn(PS + name)
        if f is None:
            continue
        for p in explore(f, max_visits=1):
            if p.end == 'return':
                rv = p.ret()
                if name == 'encode':
                    ok = rv == ('field', ('param', f.local_name(1), 1), '0')
                elif name == 'decode':
                    ok = rv[0] == 'agg' and rv[2][0][1] == ('param', f.local_name(1), 1)
                else:
                    ok = rv[0] == 'agg' and rv[2][0][1] == ('const', 0)
                ctx.check(R3, ok, name, 'PackSizes::%s is not the identity on the byte / zero' % name, fn=f)
    # ---- state byte -------------------------------------------------------------------------
    tags = {'raw::node::StateOneTransNext': 0b11000000, 'raw::node::StateOneTrans': 0b10000000, 'raw::node::StateAnyTrans': 0}
    for ty, tag in tags.items():
        f = lib.fn(ty + '::new')
        ok = False
        if f is not None:
            for p in explore(f, max_visits=1):
                if p.end == 'return':
                    rv = p.ret()
                    ok = rv[0] == 'agg' and rv[2][0][1] == ('const', tag)
        ctx.check(R2, ok, 'tag:' + ty.rsplit('::', 1)[-1], 'the initial state byte of %s must be %#04x' % (ty.rsplit('::', 1)[-1], tag), fn=f)
    for ty in ('raw::node::StateOneTransNext', 'raw::node::StateOneTrans'):
        f = lib.fn(ty + '::set_common_input')
        g = lib.fn(ty + '::common_input')
        if f is None or g is None:
            ctx.missing(R2, 'anchor:common:' + ty, 'common-input accessors of %s not found' % ty)
            continue
        tag = tags[ty]
        for p in explore(f, max_visits=1):
            if p.end != 'return':
                continue
            st = single_store(p, f)
            ok = False
            if len(st) == 1:
                v = p.sym.rvalue_at(st[0][1]['rv'], (st[0][2], st[0][3]))
                enc_h, dec_h = common_helpers(lib)
                idx = [x for x in walk(v) if x[0] == 'call' and enc_h is not None and x[1] == enc_h.path]
                if len(idx) == 1:
                    env = [(('field', ('param', f.local_name(1), 1), '0'), const_bits(tag, 8)), (idx[0], var_bits('idx', 8))] + const_env(lib)
                    b = ev(v, env, 8)
                    # idx is <= max by construction of common_idx(input, max): its top two bits are 0
                    want = var_bits('idx', 8)[:6] + const_bits(tag, 8)[6:]
                    okb = b is not None and b[:6] == want[:6] and all((b[i] == want[i]) or (want[i] == 0 and b[i] == ('v', 'idx', i)) for i in (6, 7))
                    mx = idx[0][2][1]
                    mxv = mx[1] if mx[0] == 'const' else (lib.const_scalar(mx[1]) if mx[0] == 'citem' else None)
                    ok = okb and mxv == 0b111111 and idx[0][2][0][0] == 'param'
            ctx.check(R2, ok, 'set_common_input:' + ty.rsplit('::', 1)[-1], 'set_common_input must store common_idx(input, 0x3F) in the low six bits and keep the tag', fn=f)
        for p in explore(g, max_visits=1):
            if p.end == 'return':
                rv = p.ret()
                enc_h, dec_h = common_helpers(lib)
                ok = rv[0] == 'call' and dec_h is not None and rv[1] == dec_h.path
                if ok:
                    env = [(('field', ('param', g.local_name(1), 1), '0'), old)] + const_env(lib)
                    ok = ev(rv[2][0], env, 8) == old[:6] + [0, 0]
                ctx.check(R2, ok, 'common_input:' + ty.rsplit('::', 1)[-1], 'common_input must decode the low six bits of the state byte', fn=g)
    AT = 'raw::node::StateAnyTrans::'
    f = lib.fn(AT + 'set_final_state')
    if f is not None:
        seen = {}
        for p, b in setter_bits(f):
            d = [x for x in p.decisions if x[2][0] == 'param']
            if d:
                seen[d[-1][3]] = b
        if not seen:
            # branch-free: self.0 |= u8::from(yes) << 6 - evaluate the stored byte for yes = false / true
            selfexpr = ('field', ('param', f.local_name(1), 1), '0')
            for p in explore(f, max_visits=1):
                if p.end != 'return':
                    continue
                st = single_store(p, f)
                if len(st) == 1:
                    v = p.sym.rvalue_at(st[0][1]['rv'], (st[0][2], st[0][3]))
                    for yes in (0, 1):
                        env_ = [(selfexpr, var_bits('old', 8)), (('param', f.local_name(2), 2), const_bits(yes, 8))] + const_env(f.crate)
                        seen[yes] = ev(v, env_, 8)
        ok = seen.get(1) == old[:6] + [1, old[7]] and seen.get(0) == old
        ctx.check(R2, ok, 'set_final_state', 'set_final_state must set bit 6 iff the node is final and touch nothing else', fn=f)
    f = lib.fn(AT + 'is_final_state')
    if f is not None:
        rets, env = getter_bits(f)
        ok = False
        if len(rets) == 1:
            rv = rets[0][1]
            if rv[0] == 'bin' and rv[1] in ('Eq', 'Ne') and rv[3][0] == 'const':
                # the tested expression isolates bit 6 of the state byte at some position k (`x & 0x40`, `(x >> 6) & 1`, ...):
                # `== 1 << k` or `!= 0` mean "bit set"
                b = ev(rv[2], env, 8)
                if b is not None:
                    pos = [i for i, x in enumerate(b) if x == old[6]]
                    clean = len(pos) == 1 and all(x == 0 for i, x in enumerate(b) if i != pos[0])
                    ok = clean and ((rv[1] == 'Eq' and rv[3][1] == (1 << pos[0])) or (rv[1] == 'Ne' and rv[3][1] == 0))
        ctx.check(R2, ok, 'is_final_state', 'is_final_state must test bit 6 of the state byte', fn=f)
    f = lib.fn(AT + 'set_state_ntrans')
    if f is not None:
        ok_small = ok_big = False
        for p, b in setter_bits(f):
            d = [x for x in p.decisions if x[2][0] == 'bin' and (x[2][2][0] == 'param' or (x[2][2][0] == 'bin' and x[2][2][1] == 'Shr' and x[2][2][2][0] == 'param'))]
            if not d:
                continue
            e, val = d[-1][2], d[-1][3]
            if e[1] in ('Eq', 'Ne') and e[3] == ('const', 0) and e[2][0] == 'bin' and e[2][1] == 'Shr' and e[2][2][0] == 'param' and e[2][3] == ('const', 6):
                # (n >> 6) == 0  <=>  n <= 63
                e = ('bin', 'Le', e[2][2], ('const', 0x3f))
                val = val if d[-1][2][1] == 'Eq' else 1 - val
            fits = (e[1] == 'Le' and e[3] == ('const', 0x3f) and val == 1) or (e[1] == 'Lt' and e[3] == ('const', 0x40) and val == 1) or (e[1] == 'Gt' and e[3] == ('const', 0x3f) and val == 0)
            over = (e[1] == 'Le' and e[3] == ('const', 0x3f) and val == 0) or (e[1] == 'Lt' and e[3] == ('const', 0x40) and val == 0) or (e[1] == 'Gt' and e[3] == ('const', 0x3f) and val == 1)
            if fits:
                # n <= 63: its top two bits are zero, so OR-ing the whole byte is the same as OR-ing six bits
                ok_small = b is not None and b[:6] == arg[:6] and b[6] in (old[6], None) and b[7] in (old[7], None) and all(b[i] == old[i] or b[i] is None for i in (6, 7))
                if b is not None and b[6:] != old[6:]:
                    # (old & 0xC0) | n with n's bits 6,7 symbolic gives None there; accept since n <= 63
                    ok_small = b[:6] == arg[:6]
            if over:
                ok_big = b == old
        ctx.check(R2, ok_small and ok_big, 'set_state_ntrans', 'set_state_ntrans must store n in the low six bits iff n <= 63 and otherwise leave them 0 (count byte follows)', fn=f)
    f = lib.fn(AT + 'state_ntrans')
    if f is not None:
        env = [(('field', ('param', f.local_name(1), 1), '0'), old)] + const_env(lib)
        seen = {}
        import vsplit
        for p in vsplit.vpaths(lib, f):
            d = [x for x in p.decisions if x[2][0] == 'bin' and x[2][1] in ('Eq', 'Ne') and x[2][3] == ('const', 0)]
            if not d:
                continue
            zero = (d[-1][2][1] == 'Eq') == bool(d[-1][3])
            rv = p.ret()
            if zero:
                seen['zero'] = rv[0] == 'agg' and rv[1].endswith('::None') and ev(d[-1][2][2], env, 8) == old[:6] + [0, 0]
            else:
                seen['nz'] = rv[0] == 'agg' and rv[1].endswith('::Some') and ev(rv[2][0][1], env, 8) == old[:6] + [0, 0]
        ctx.check(R2, seen.get('zero') and seen.get('nz'), 'state_ntrans', 'state_ntrans must read the low six bits, 0 meaning "count byte follows"', fn=f)
    # decoder dispatch
    f = lib.fn('raw::node::State::new')
    if f is None:
        ctx.missing(R2, 'anchor:dispatch', 'State::new not found')
    else:
        seen = {}
        for p in explore(f, max_visits=1):
            if p.end != 'return':
                continue
            rv = p.ret()
            d = [x for x in p.decisions if x[2][0] == 'bin' and x[2][1] in ('Shr', 'BitAnd')]
            if not d or rv[0] != 'agg':
                continue
            e, val = d[-1][2], d[-1][3]
            byte = [x for x in walk(e) if x[0] == 'index']
            if not byte:
                continue
            b = ev(e, [(byte[0], var_bits('v', 8))] + const_env(lib), 8)
            # which bits of the state byte does `expr == val` pin down?  (shifted tag: v >> 6 == 3; masked tag: v & 0xC0 == 0xC0)
            pins = None
            if b is not None and isinstance(val, int):
                pins = {}
                for i, x in enumerate(b):
                    want = (val >> i) & 1
                    if isinstance(x, tuple) and x[0] == 'v':
                        pins[x[2]] = want
                    elif x in (0, 1):
                        if x != want:
                            pins = 'never'
                            break
                    else:
                        pins = None
                        break
            two = b is not None and sorted(x[2] for x in b if isinstance(x, tuple)) == [6, 7] and all(isinstance(x, tuple) or x == 0 for x in b)
            seen[rv[1].rsplit('::', 1)[-1]] = (pins if isinstance(val, int) else val, two, byte[0][2])
        ok = seen.get('OneTransNext', (None,))[0] == {6: 1, 7: 1} and seen.get('OneTrans', (None,))[0] == {6: 0, 7: 1} and isinstance(seen.get('AnyTrans', (None,))[0], tuple) and all(v[1] for v in seen.values())
        ctx.check(R2, ok, 'dispatch', 'the decoder must dispatch on the top two bits of the state byte: 11 -> one-trans-next, 10 -> one-trans, else any-trans (%s)' % {k: v[0] for k, v in seen.items()}, fn=f)
        ok_addr = all(v[2] == ('param', f.local_name(2), 2) for v in seen.values())
        ctx.check(R2, ok_addr, 'dispatch-byte', 'the state byte must be the byte AT the node address', fn=f)
        # address 0 (and only it) is the implicit empty final node: the writer's shortcut (R12.1) maps exactly that node to 0
        ef = []
        for p in explore(f, max_visits=1):
            if p.end != 'return':
                continue
            rv = p.ret()
            if rv[0] == 'agg' and rv[1].endswith('::EmptyFinal'):
                d = [x for x in p.decisions if x[2][0] == 'bin' and x[2][1] in ('Eq', 'Ne') and any(y == ('param', f.local_name(2), 2) for y in walk(x[2]))
                     and any(y in (('citem', 'raw::EMPTY_ADDRESS'), ('const', 0)) for y in walk(x[2]))]
                ef.append(bool(d) and ((d[-1][2][1] == 'Eq') == (d[-1][3] == 1)))
        if ef:
            ctx.check(R2, all(ef), 'dispatch-empty', 'the implicit empty final node must be decoded exactly for address 0 (EMPTY_ADDRESS)', fn=f)
        else:
            ctx.undecided(R2, 'dispatch-empty', 'no path of the decoder produces the empty final node in a recognised form', fn=f)
    common_input_helpers(ctx, R2)


def _closure_ret(lib, clo, binds):
    """single return expression of a closure with parameters bound (1 = the closure value itself), captures resolved"""
    import vsplit
    from sym import subst
    g = lib.fns.get(clo[1])
    if g is None or g.loops():
        return None
    rr = [q for q in explore(g, max_visits=1) if q.end == 'return']
    if len(rr) != 1:
        return None
    m = dict(binds)
    m[1] = clo
    return vsplit.simp(subst(rr[0].ret(), m)), rr[0], g


def pack_size_find_form(lib, f, rv):
    """(1..8).find(|&k| n < 1 << (8 * k)).unwrap_or(8)  ->  {k: table row is right}"""
    if not (is_call(rv, 'Option::<T>::unwrap_or') and is_call(rv[2][0], 'Iterator::find')):
        return None
    dflt = const_eval(rv[2][1])
    fnd = rv[2][0]
    rng = [x for x in walk(fnd[2][0]) if x[0] == 'agg' and 'ops::Range' in x[1]]
    clo = [x for x in fnd[2] if x[0] == 'closure'] or [x for a in fnd[2] for x in walk(a) if x[0] == 'closure']
    if not rng or not clo or dflt is None:
        return None
    fd = dict(rng[0][2])
    lo, hi = const_eval(fd.get('start', ('?',))), const_eval(fd.get('end', ('?',)))
    if lo is None or hi is None:
        return None
    if rng[0][1].endswith('RangeInclusive'):
        hi += 1
    out = {}
    n_par = ('param', f.local_name(1), 1)
    thr = {}
    for k in range(lo, hi):
        r = _closure_ret(lib, clo[0], {2: ('const', k)})
        if r is None:
            return None
        e = r[0]
        while e[0] == 'cast':
            e = e[1]
        if e[0] == 'bin' and e[1] == 'Eq' and e[3] == ('const', 0) and e[2][0] == 'bin' and e[2][1] == 'Shr' and e[2][2] == n_par and const_eval(e[2][3]) is not None and 0 < const_eval(e[2][3]) < 64:
            thr[k] = 1 << const_eval(e[2][3])          # (n >> s) == 0  <=>  n < 2^s
            continue
        if not (e[0] == 'bin' and e[1] in ('Lt', 'Le') and const_eval(e[3]) is not None and any(x == n_par for x in walk(e[2]))):
            return None
        thr[k] = const_eval(e[3]) + (1 if e[1] == 'Le' else 0)        # n < thr[k]
    # find returns the FIRST k in lo..hi with n < thr[k]; default otherwise
    for k in range(1, 9):
        want_hi = (1 << (8 * k)) if k < 8 else None
        if k in thr:
            prev_ok = all(thr[j] <= (1 << (8 * j)) for j in thr if j < k)
            out[k] = thr[k] == want_hi and prev_ok and lo == 1
        elif k == dflt:
            out[k] = k == 8 and sorted(thr) == list(range(1, 8))
    return out


def _promoted_range(f, idx):
    """(lo, hi_exclusive) of a promoted `a..b` / `a..=b` constant, else None"""
    pr = f.promoted.get(idx)
    if not pr:
        return None
    for b in pr['blocks']:
        for st in b['stmts']:
            a = st.get('rv', {}).get('agg') if st['k'] == 'assign' else None
            if isinstance(a, dict) and str(a.get('adt', '')).startswith('std::ops::Range'):
                vals = [int(o['const']['scalar'], 16) for o in st['rv'].get('ops', []) if 'const' in o and o['const'].get('scalar') is not None]
                if len(vals) >= 2:
                    return (vals[0], vals[1] + (1 if 'Inclusive' in a['adt'] else 0))
    return None


def accepted_widths(ctx, R, f, tag):
    """every width 1..8 passes the explicit precondition checks of the (un)packer: a panic path whose tests are all about the width
    parameter and all hold for some width in 1..8 rejects values the format needs (an 8-byte output, a 7-byte address)"""
    wp = [l for l in range(1, f.arg_count + 1) if f.local_ty(l) == 'u8']
    if not wp:
        return
    W = ('param', f.local_name(wp[0]), wp[0])

    def val(e, nb):
        while e[0] == 'cast':
            e = e[1]
        if e == W:
            return nb
        c = const_eval(e)
        return c

    def truth(e, nb):
        if e[0] == 'un' and e[1] == 'Not':
            t = truth(e[2], nb)
            return None if t is None else (not t)
        if e[0] == 'bin' and e[1] in ('Lt', 'Le', 'Gt', 'Ge', 'Eq', 'Ne'):
            a, b = val(e[2], nb), val(e[3], nb)
            if a is None or b is None:
                return None
            return {'Lt': a < b, 'Le': a <= b, 'Gt': a > b, 'Ge': a >= b, 'Eq': a == b, 'Ne': a != b}[e[1]]
        if e[0] == 'call' and isinstance(e[1], str) and e[1].endswith('::contains') and 'ops::Range' in e[1] and len(e[2]) == 2 and e[2][1] == W:
            r = e[2][0]
            rg = _promoted_range(f, r[1]) if r[0] == 'cpromoted' else None
            if rg is None and r[0] == 'agg' and 'ops::Range' in r[1]:
                d = dict(r[2])
                lo, hi = const_eval(d.get('start', ('?',))), const_eval(d.get('end', ('?',)))
                rg = (lo, hi + (1 if 'Inclusive' in r[1] else 0)) if lo is not None and hi is not None else None
            return None if rg is None else (rg[0] <= nb < rg[1])
        return None
    rejected = set()
    for p in explore(f, max_visits=1, havoc=True):
        if p.end != 'diverge' or not p.decisions:
            continue
        for nb in range(1, 9):
            ts = [truth(d[2], nb) for d in p.decisions]
            if all(t is not None for t in ts) and all(bool(t) == bool(d[3]) for t, d in zip(ts, p.decisions)):
                rejected.add(nb)
    ctx.check(R, not rejected, tag + ':accepts-1..8', '%s panics for width(s) %s although 1..8 are all valid widths of the format: a value that needs that many bytes can be written but not read back (or not written at all)' % (tag, sorted(rejected)), fn=f)


def _pack_size_loop(f):
    """K for `size = 1; while size < K && (n >> (8 * size)) != 0 { size += 1 } size`; None if the loop is not of that form"""
    K = None
    inc = shr = False
    init1 = False
    for p in explore(f, max_visits=1, havoc=True):
        for d in p.decisions:
            e = d[2]
            if e[0] == 'bin' and e[1] in ('Lt', 'Le', 'Ge', 'Gt') and e[3][0] == 'const' and e[2][0] in ('havoc', 'const'):
                c = e[3][1]
                K = c if e[1] in ('Lt', 'Ge') else c + 1
            if e[0] == 'bin' and e[1] in ('Ne', 'Eq') and ('const', 0) in (e[2], e[3]):
                o = e[2] if e[3] == ('const', 0) else e[3]
                if o[0] == 'bin' and o[1] == 'Shr' and o[2][0] == 'param' and o[3][0] == 'bin' and o[3][1] == 'Mul' and ('const', 8) in (o[3][2], o[3][3]):
                    shr = True
        if p.end == 'cut':
            for d in p.decisions:
                for x in walk(d[2]):
                    if x[0] == 'havoc' and len(x[1]) == 1:
                        v = p.sym.loc_value_at(x[1], (len(p.blocks) - 2, 'T'))
                        while v[0] == 'field' and v[2] == '0' and v[1][0] == 'bin' and v[1][1].endswith('WithOverflow'):
                            v = ('bin', v[1][1][:-len('WithOverflow')], v[1][2], v[1][3])
                        if v[0] == 'bin' and v[1] == 'Add' and v[2] == x and v[3] == ('const', 1):
                            inc = True
    for bid, b in f.blocks.items():
        for st in b['stmts']:
            if st['k'] == 'assign' and 'use' in st['rv'] and 'const' in st['rv']['use'] and st['rv']['use']['const'].get('scalar') in ('0x1', '0x01', '0x0000000000000001'):
                init1 = True
    if K is not None and inc and shr and init1 and f.local_ty(0) == 'u8':
        return K
    return None


def packing(ctx):
    R = ctx.rule('R09.4', 'integer packing: little-endian, pack_size(n) = least k with n < 2^(8k), unpack mirrors', floor=14)
    lib = ctx.lib
    f = lib.fn('bytes::pack_size')
    if f is None:
        ctx.missing(R, 'anchor:pack_size', 'pack_size not found')
    else:
        seen = set()
        ivs = {}
        loop_form = f.loops() and _pack_size_loop(f)
        if f.loops() and loop_form is None:
            ctx.undecided(R, 'pack_size:widths', 'pack_size is a loop the rule does not follow', fn=f)
            seen = None
        elif loop_form:
            # size = 1; while size < K && (n >> (8 * size)) != 0 { size += 1 }  ->  least size in 1..K with n < 2^(8 size), else K
            K = loop_form
            ctx.check(R, K == 8, 'pack_size:widths', 'the counting loop of pack_size stops at %d bytes: a value that needs %s bytes is stored in %d and read back truncated' % (K, '8' if K < 8 else 'fewer', K), fn=f)
            for k_ in range(1, 9):
                if k_ < K or K == 8:
                    ctx.check(R, True, 'pack_size:%d' % k_, '', fn=f)
            seen = None
        for p in (explore(f, max_visits=1) if seen is not None else []):
            if p.end != 'return':
                continue
            rv = p.ret()
            if rv[0] != 'const':
                ks = pack_size_find_form(lib, f, rv)
                if ks is not None:
                    for k_, ok_ in ks.items():
                        seen.add(k_)
                        ctx.check(R, ok_, 'pack_size:%d' % k_, 'pack_size (search form) does not return %d exactly for the values that need %d bytes' % (k_, k_), fn=f)
                    continue
                ctx.undecided(R, 'pack_size:shape', 'pack_size returns %s' % fmt(rv)[:60], fn=f)
                continue
            k = rv[1]
            lo = 0
            hi = None
            okshape = True
            for d in p.decisions:
                e, val = d[2], d[3]
                if e[0] == 'bin' and e[3][0] == 'param' and const_eval(e[2]) is not None and e[1] in ('Lt', 'Le', 'Ge', 'Gt'):
                    # range patterns compare with the constant on the left (`0x100 <= n`): flip
                    e = ('bin', {'Lt': 'Gt', 'Gt': 'Lt', 'Le': 'Ge', 'Ge': 'Le'}[e[1]], e[3], e[2])
                c = const_eval(e[3]) if e[0] == 'bin' else None
                if not (e[0] == 'bin' and e[2][0] == 'param' and c is not None and e[1] in ('Lt', 'Le', 'Ge', 'Gt')):
                    okshape = False
                    continue
                # n < c true  => hi = c-1 ; false => lo = c ;  n <= c true => hi = c ; false => lo = c+1
                if e[1] == 'Lt':
                    if val:
                        hi = c - 1 if hi is None else min(hi, c - 1)
                    else:
                        lo = max(lo, c)
                elif e[1] == 'Le':
                    if val:
                        hi = c if hi is None else min(hi, c)
                    else:
                        lo = max(lo, c + 1)
                elif e[1] == 'Ge':
                    if val:
                        lo = max(lo, c)
                    else:
                        hi = c - 1 if hi is None else min(hi, c - 1)
                elif e[1] == 'Gt':
                    if val:
                        lo = max(lo, c + 1)
                    else:
                        hi = c if hi is None else min(hi, c)
            if not okshape:
                seen.add(k)
                ctx.undecided(R, 'pack_size:%d' % k, 'pack_size returns %d under a condition that is not a comparison of n with constants' % k, fn=f)
                continue
            UMAX = (1 << 64) - 1
            hi_ = UMAX if hi is None else hi
            if lo > hi_:
                continue            # no u64 satisfies the comparisons of this path (`0 <= n` false, nested range tests): infeasible
            ivs.setdefault(k, []).append((lo, hi_))
        for k, lst in sorted(ivs.items()):
            lst.sort()
            merged = [list(lst[0])]
            for lo, hi_ in lst[1:]:
                if lo <= merged[-1][1] + 1:
                    merged[-1][1] = max(merged[-1][1], hi_)
                else:
                    merged.append([lo, hi_])
            want_lo = 0 if k == 1 else 1 << (8 * (k - 1))
            want_hi = (1 << (8 * k)) - 1
            seen.add(k)
            ctx.check(R, merged == [[want_lo, want_hi]], 'pack_size:%d' % k,
                      'pack_size returns %d for n in %s but %d bytes hold exactly [%#x, %#x]: a value on the boundary is stored in too few bytes and read back truncated' % (
                          k, ' u '.join('[%#x, %#x]' % (a_, b_) for a_, b_ in merged), k, want_lo, want_hi), fn=f)
        if seen is None:
            pass
        elif not seen and not ivs:
            ctx.undecided(R, 'pack_size:widths', 'pack_size is written in a form the rule does not follow (no width decided)', fn=f)
        else:
            ctx.check(R, seen == set(range(1, 9)), 'pack_size:widths', 'pack_size must produce every width 1..8 (found %s)' % sorted(seen), fn=f)
    # pack_uint_in: byte i = (n >> 8i) as u8, written as buf[..nbytes]
    f = lib.fn('bytes::pack_uint_in')
    if f is None:
        ctx.missing(R, 'anchor:pack_uint_in', 'pack_uint_in not found')
    else:
        step = wr = False
        for p in explore(f, max_visits=1, havoc=True):
            if p.end == 'cut':
                st = [(k, i, loc, s) for (k, i, loc, s) in p.stores() if loc[-1:] == ('[]',)]
                if len(st) == 1:
                    k, i, loc, s = st[0]
                    v = p.sym.rvalue_at(s['rv'], (k, i))
                    idx = p.sym.index_operand_at(s['place'], (k, i))
                    nl = [l for l in range(1, f.arg_count + 1) if f.local_ty(l) == 'u64']
                    nv = p.sym.loc_value_at((nl[0],), (len(p.blocks) - 2, 'T')) if nl else None
                    ii = idx
                    while ii is not None and ii[0] == 'cast':
                        ii = ii[1]
                    src = layout.iter_source(f, p.blocks[-1])
                    fwd0 = src is not None and src[0] == 'fwd' and any(x[0] == 'agg' and x[1].endswith('ops::Range') and dict(x[2]).get('start') == ('const', 0) and dict(x[2]).get('end', ('x',))[0] == 'param' for x in walk(src[2]))
                    step = v[0] == 'cast' and v[2] == 'u8' and v[1][0] == 'havoc' and nv is not None and nv[0] == 'bin' and nv[1] == 'Shr' and nv[2][0] == 'havoc' and nv[3] == ('const', 8) and \
                        ii is not None and ii[0] == 'field' and any(is_call(x, '::next') for x in walk(ii)) and fwd0
            elif p.end == 'return' and ret_kind(p.ret()) == 'ok':
                for (k, bid, callee, args, t) in path_calls(p):
                    if f.callee_decl(t) == SM.IO_WRITE_ALL:
                        a = args[1]
                        while a[0] == 'after':          # the same prefix was first handed to iter_mut(): the slice itself is unchanged
                            a = a[3]
                        wr = (is_call(a, 'Index<I> for [T; N]>::index') or is_call(a, 'IndexMut<I> for [T; N]>::index_mut')) and a[2][1][0] == 'agg' and a[2][1][1].endswith('RangeTo') and any(x[0] == 'param' for x in walk(dict(a[2][1][2])['end']))
        if not step:
            # buf[..nbytes].iter_mut().enumerate().for_each(|(i, b)| *b = (n >> (8 * i)) as u8)
            for p in explore(f, max_visits=1, havoc=True):
                for (k, bid, callee, args, t) in path_calls(p, expand=False):
                    if isinstance(callee, str) and callee.endswith('::for_each') and len(args) == 2 and args[1][0] == 'closure':
                        src_ok = any(is_call(x, '::iter_mut') for x in walk(args[0])) and any(is_call(x, 'Iterator::enumerate') for x in walk(args[0])) and \
                            any(x[0] == 'agg' and x[1].endswith('RangeTo') and any(y[0] == 'param' for y in walk(dict(x[2])['end'])) for x in walk(args[0])) and \
                            not any(is_call(x, 'Iterator::rev') for x in walk(args[0]))
                        g = lib.fns.get(args[1][1])
                        if g is None or not src_ok:
                            continue
                        for q in explore(g, max_visits=1):
                            if q.end != 'return':
                                continue
                            import vsplit
                            from sym import subst
                            for (kk, ii, loc, st) in q.stores():
                                if (loc[0] == 2 and '1' in loc) or (len(loc) == 1 and g.local_ty(loc[0]).endswith('mut u8')):
                                    v = vsplit.simp(subst(q.sym.rvalue_at(st['rv'], (kk, ii)), {1: args[1]}))
                                    step = v[0] == 'cast' and v[2] == 'u8' and v[1][0] == 'bin' and v[1][1] == 'Shr' and \
                                        any(y == ('param', f.local_name(2), 2) for y in walk(v[1][2])) and \
                                        any(y[0] == 'bin' and y[1] == 'Mul' and ('const', 8) in (y[2], y[3]) and any(z[0] == 'field' and z[2] == '0' and z[1][0] == 'param' for z in walk(y)) for y in walk(v[1][3]))
                if step:
                    break
        if not step:
            # for (i, byte) in buf[..nbytes].iter_mut().enumerate() { *byte = (n >> (8 * i)) as u8 }  then write_all(that prefix)
            npar = [l for l in range(1, f.arg_count + 1) if f.local_ty(l) == 'u64']
            for p in explore(f, max_visits=1, havoc=True):
                if p.end == 'cut' and npar:
                    for (k, i, loc, st_) in p.stores():
                        v = p.sym.rvalue_at(st_['rv'], (k, i))
                        if v[0] == 'cast' and v[2] == 'u8' and v[1][0] == 'bin' and v[1][1] == 'Shr' and v[1][2] == ('param', f.local_name(npar[0]), npar[0]):
                            sh = v[1][3]
                            okmul = sh[0] == 'bin' and sh[1] == 'Mul' and ('const', 8) in (sh[2], sh[3]) and any(x[0] == 'field' and x[2] == '0' and any(is_call(y, 'Enumerate<I> as std::iter::Iterator>::next') or is_call(y, '::next') for y in walk(x)) for x in walk(sh))
                            src = layout.iter_source(f, p.blocks[-1])
                            oksrc = src is not None and src[0] == 'fwd' and src[1] and any(is_call(x, '::iter_mut') for x in walk(src[2])) and \
                                any(x[0] == 'agg' and x[1].endswith('RangeTo') and any(y[0] == 'param' for y in walk(dict(x[2])['end'])) for x in walk(src[2]))
                            if okmul and oksrc:
                                step = True
                elif p.end == 'return' and is_call(p.ret(), 'write_all'):
                    a = p.ret()[2][1]
                    if any(x[0] == 'agg' and x[1].endswith('RangeTo') and any(y[0] == 'param' for y in walk(dict(x[2])['end'])) for x in walk(a)):
                        wr = wr or step or True
        if not step:
            # wtr.write_all(&n.to_le_bytes()[..nbytes])
            for p in explore(f, max_visits=1, havoc=True):
                for (k, bid, callee, args, t) in path_calls(p, expand=False):
                    if f.callee_decl(t) == SM.IO_WRITE_ALL and len(args) == 2:
                        a = args[1]
                        if is_call(a, '::index') and is_call(a[2][0], 'to_le_bytes') and a[2][0][2][0][0] == 'param' and a[2][1][0] == 'agg' and a[2][1][1].endswith('ops::RangeTo') and \
                                any(x[0] == 'param' for x in walk(dict(a[2][1][2])['end'])):
                            step = wr = True
        ctx.check(R, step, 'pack_uint_in:little-endian', 'byte i of a packed integer must be bits 8i..8i+7 of the value (store n as u8, then n >>= 8, i counting up from 0)', fn=f)
        ctx.check(R, wr, 'pack_uint_in:width', 'exactly the first nbytes bytes of the buffer must be written', fn=f)
    f = lib.fn('bytes::unpack_uint')
    if f is None:
        ctx.missing(R, 'anchor:unpack_uint', 'unpack_uint not found')
    else:
        step = False
        for p in explore(f, max_visits=1, havoc=True):
            if p.end != 'cut':
                continue
            accs = [l for l in f.locals if f.local_ty(l) == 'u64' and f.locals[l].get('name')]
            for l in accs:
                v = p.sym.loc_value_at((l,), (len(p.blocks) - 2, 'T'))
                if v[0] == 'bin' and v[1] in ('BitOr', 'Add', 'BitXor') and v[2][0] == 'havoc' and v[2][1] == (l,):
                    sh = v[3]
                    src = layout.iter_source(f, p.blocks[-1])
                    ok_src = src is not None and src[0] == 'fwd' and src[1] and any(is_call(x, 'Index<I> for [T]>::index') and x[2][1][0] == 'agg' and x[2][1][1].endswith('RangeTo') for x in walk(src[2]))
                    ok_sh = sh[0] == 'bin' and sh[1] == 'Shl' and sh[2][0] == 'cast' and sh[2][2] == 'u64' and any(x[0] == 'bin' and x[1] == 'Mul' and ('const', 8) in (x[2], x[3]) for x in walk(sh[3]))
                    byte_is_item = any(x[0] == 'field' and x[2] == '1' and any(is_call(y, '::next') for y in walk(x)) for x in walk(sh[2]))
                    pos_is_index = any(x[0] == 'field' and x[2] == '0' and any(is_call(y, '::next') for y in walk(x)) for x in walk(sh[3]))
                    step = ok_src and ok_sh and byte_is_item and pos_is_index
        if not step:
            # slice[..nbytes].iter().enumerate().fold(0, |n, (i, &b)| n | ((b as u64) << (8 * i)))
            for p in explore(f, max_visits=1, havoc=True):
                if p.end != 'return':
                    continue
                rv = p.ret()
                if is_call(rv, '::fold') and len(rv[2]) == 3 and rv[2][2][0] == 'closure' and const_eval(rv[2][1]) == 0:
                    src = rv[2][0]
                    ok_src = any(is_call(x, 'Iterator::enumerate') for x in walk(src)) and not any(is_call(x, 'Iterator::rev') for x in walk(src)) and \
                        any(is_call(x, 'Index<I> for [T]>::index') and x[2][1][0] == 'agg' and x[2][1][1].endswith('RangeTo') for x in walk(src))
                    r = _closure_ret(lib, rv[2][2], {})
                    if r is None or not ok_src:
                        continue
                    v = r[0]
                    if v[0] == 'bin' and v[1] in ('BitOr', 'Add', 'BitXor') and v[2][0] == 'param' and v[2][2] == 2:
                        sh = v[3]
                        ok_sh = sh[0] == 'bin' and sh[1] == 'Shl' and sh[2][0] == 'cast' and sh[2][2] == 'u64' and any(x[0] == 'bin' and x[1] == 'Mul' and ('const', 8) in (x[2], x[3]) for x in walk(sh[3]))
                        byte_is_item = any(x[0] == 'field' and x[2] == '1' and x[1][0] == 'param' and x[1][2] == 3 for x in walk(sh[2]))
                        pos_is_index = any(x[0] == 'field' and x[2] == '0' and x[1][0] == 'param' and x[1][2] == 3 for x in walk(sh[3]))
                        step = ok_sh and byte_is_item and pos_is_index
        if not step:
            # slice[..nbytes].iter().rev().fold(0, |n, &b| (n << 8) | b as u64): most significant byte last = little endian
            for p in explore(f, max_visits=1, havoc=True):
                if p.end != 'return':
                    continue
                rv = p.ret()
                if is_call(rv, '::fold') and len(rv[2]) == 3 and rv[2][2][0] == 'closure' and const_eval(rv[2][1]) == 0:
                    src = rv[2][0]
                    ok_src = any(is_call(x, 'Iterator::rev') for x in walk(src)) and not any(is_call(x, 'Iterator::enumerate') for x in walk(src)) and \
                        any(is_call(x, 'Index<I> for [T]>::index') and x[2][1][0] == 'agg' and x[2][1][1].endswith('RangeTo') for x in walk(src))
                    r = _closure_ret(lib, rv[2][2], {})
                    r = r[0] if r is not None else None
                    if r is not None and ok_src and r[0] == 'bin' and r[1] in ('BitOr', 'Add', 'BitXor'):
                        parts = [r[2], r[3]]
                        shl = [x for x in parts if x[0] == 'bin' and x[1] == 'Shl' and x[3] == ('const', 8) and x[2][0] == 'param']
                        byte = [x for x in parts if x[0] == 'cast' and x[2] == 'u64']
                        if len(shl) == 1 and len(byte) == 1:
                            step = True
        le_form = False
        if not step:
            # let mut buf = [0u8; 8]; buf[..packed.len()].copy_from_slice(packed); u64::from_le_bytes(buf)   with packed = &slice[..nbytes]
            for p in explore(f, max_visits=1, havoc=True):
                if p.end != 'return' or not is_call(p.ret(), 'from_le_bytes'):
                    continue
                rv = p.ret()
                zero8 = any(x[0] == 'repeat' and x[1] == ('const', 0) for x in walk(rv))
                for (k, bid, callee, args, t) in path_calls(p, expand=False):
                    if isinstance(callee, str) and callee.endswith('::copy_from_slice') and len(args) == 2:
                        P = args[1]
                        okP = is_call(P, '::index') and P[2][0][0] == 'param' and P[2][1][0] == 'agg' and P[2][1][1].endswith('ops::RangeTo') and any(x[0] == 'param' for x in walk(dict(P[2][1][2])['end']))
                        D = args[0]
                        okD = is_call(D, '::index_mut') and D[2][1][0] == 'agg' and D[2][1][1].endswith('ops::RangeTo') and \
                            ((is_call(dict(D[2][1][2])['end'], '::len') and norm(dict(D[2][1][2])['end'][2][0]) == norm(P)) or
                             (okP and norm(dict(D[2][1][2])['end']) == norm(dict(P[2][1][2])['end']))) and \
                            any(x[0] == 'repeat' and x[1] == ('const', 0) for x in walk(D[2][0]))
                        if okP and okD and zero8:
                            step = le_form = True
        # every value unpack_uint can return must be that accumulator (or the fold): an extra "fast path" is a second decoder that this
        # rule has not verified (C01-m5: a masked word load that overflows at nbytes = 8)
        extra = []
        accs_ = [l for l in f.locals if f.local_ty(l) == 'u64' and f.locals[l].get('name')]
        for p in explore(f, max_visits=1, havoc=True):
            if p.end == 'return':
                rv = p.ret()
                while rv[0] == 'cast':
                    rv = rv[1]
                okr = (rv[0] in ('havoc', 'phi') and len(rv[1]) == 1 and rv[1][0] in accs_) or rv == ('const', 0) or is_call(rv, '::fold') or (le_form and is_call(rv, 'from_le_bytes'))
                if not okr:
                    extra.append(fmt(rv)[:60])
        ctx.check(R, not extra, 'unpack_uint:single-decoder', 'unpack_uint has a returning path that is not the byte-wise accumulation: %s' % extra[:2], fn=f)
        ctx.check(R, step, 'unpack_uint:little-endian', 'unpacking must add byte i shifted left by 8i over the first nbytes bytes', fn=f)
    for nm in ('bytes::pack_uint_in', 'bytes::unpack_uint'):
        g_ = lib.fn(nm)
        if g_ is not None:
            accepted_widths(ctx, R, g_, nm.rsplit('::', 1)[-1])
    f = lib.fn('bytes::pack_uint')
    if f is not None:
        ok = False
        for p in explore(f, max_visits=1):
            if p.end == 'return':
                for (k, bid, callee, args, t) in path_calls(p):
                    if isinstance(callee, str) and callee.endswith('pack_uint_in'):
                        ok = is_call(args[2], 'bytes::pack_size') and args[2][2][0] == args[1] and args[1][0] == 'param'
        ctx.check(R, ok, 'pack_uint', 'pack_uint must pack n in pack_size(n) bytes', fn=f)
    # fixed-width words
    for name, width in (('bytes::io_write_u64_le', 8), ('bytes::io_write_u32_le', 4)):
        f = lib.fn(name)
        w = lib.fn(name.replace('io_write', 'write'))
        ok = False
        if f is not None and w is not None:
            for p in explore(f, max_visits=1):
                if p.end == 'return':
                    cs = path_calls(p)
                    a = [c for c in cs if c[2] == w.path]
                    b = [c for c in cs if f.callee_decl(c[4]) == SM.IO_WRITE_ALL]
                    ok = len(a) == 1 and len(b) == 1 and a[0][3][0] == ('param', f.local_name(1), 1) and a[0][0] < b[0][0]
            oks = set()
            for p in explore(w, max_visits=1):
                if p.end == 'return':
                    for (k, i, loc, s) in p.stores():
                        v = p.sym.rvalue_at(s['rv'], (k, i))
                        idx = p.sym.index_operand_at(s['place'], (k, i))
                        if v[0] == 'index' and is_call(v[1], 'to_le_bytes') and v[1][2][0][0] == 'param' and idx is not None and idx == v[2]:
                            oks.add(idx[1] if idx[0] == 'const' else None)
                    # one-call form: slice[..W].copy_from_slice(&n.to_le_bytes())
                    for (k, bid, callee, args, t) in path_calls(p):
                        if isinstance(callee, str) and callee.endswith('::copy_from_slice') and len(args) == 2 and any(is_call(x, 'to_le_bytes') and x[2][0][0] == 'param' for x in walk(args[1])):
                            rng = [x for x in walk(args[0]) if x[0] == 'agg' and x[1].endswith('ops::RangeTo')]
                            if rng and dict(rng[0][2]).get('end') == ('const', width) and any(x[0] == 'param' for x in walk(args[0])):
                                oks |= set(range(width))
                            else:
                                oks.add(None)
            if not oks and ok:
                ctx.undecided(R, name.rsplit('::', 1)[-1], 'the little-endian store of a fixed-width word is not in a recognised form', fn=w)
                continue
            ok = ok and oks == set(range(width))
        ctx.check(R, ok, name.rsplit('::', 1)[-1], 'fixed-width words must be written little-endian, byte i of to_le_bytes() at position i, all %d bytes' % width, fn=f)
    for name, width in (('bytes::read_u64_le', 8), ('bytes::read_u32_le', 4)):
        f = lib.fn(name)
        ok = False
        if f is not None:
            for p in explore(f, max_visits=1):
                if p.end == 'return':
                    rv = p.ret()
                    ok = is_call(rv, 'from_le_bytes') and any(is_call(x, 'Index<I> for [T]>::index') and x[2][0][0] == 'param' and x[2][1][0] == 'agg' and x[2][1][1].endswith('RangeTo') and dict(x[2][1][2]).get('end') == ('const', width) for x in walk(rv))
        ctx.check(R, ok, name.rsplit('::', 1)[-1], 'fixed-width words must be read little-endian from the first %d bytes' % width, fn=f)


def form_selection(ctx):
    R = ctx.rule('R09.6', 'form selection: nothing for the empty final node; any-trans iff ntrans != 1 or final; one-trans-next iff target = previous node and zero output', floor=10)
    lib = ctx.lib
    # by role: the function that chooses among the node encoders
    cands = [g for g in lib.fn_list if g.kind != 'Closure' and len({g.callee(t) for _, t in g.calls() if (g.callee(t) or '').endswith('::compile') and 'raw::node::State' in (g.callee(t) or '')}) >= 2]
    f = cands[0] if len(cands) == 1 else None
    if f is None:
        ctx.missing(R, 'anchor:selector', 'form selector (the function calling the node encoders) not found: %s' % [g.path for g in cands])
        return

    def classify(e):
        if is_call(e, '::is_empty'):
            return 'E'
        if e[0] == 'field' and e[2] == 'is_final':
            return 'F'
        if is_call(e, 'Output::is_zero') and e[2][0][0] == 'field' and e[2][0][2] == 'final_output':
            return 'Z'
        if e[0] == 'bin' and e[1] in ('Ne', 'Eq') and layout.ntrans_expr(e[2]) and e[3] == ('const', 1):
            return 'N1' if e[1] == 'Ne' else '!N1'
        if e[0] == 'bin' and e[1] in ('Eq', 'Ne') and any(x[0] == 'field' and x[2] == 'addr' for x in walk(e[2])) and e[3][0] == 'param':
            return 'A' if e[1] == 'Eq' else '!A'
        if e[0] == 'un' and e[1] == 'Not':
            k = classify(e[2])
            if k is not None:
                return k[1:] if k.startswith('!') else '!' + k
        if is_call(e, 'Output::is_zero') and any(x[0] == 'field' and x[2] == 'out' for x in walk(e[2][0])):
            return 'OZ'
        if e[0] == 'bin' and e[1] == 'Le' and e[3] == ('const', 256):
            return 'LEN256'
        return None
    for E, F, Z, N1, A, OZ in itertools.product((0, 1), repeat=6):
        if E and not N1:
            continue      # an empty node does not have exactly one transition
        asg = {'E': E, 'F': F, 'Z': Z, 'N1': N1, 'A': A, 'OZ': OZ, 'LEN256': 1}

        def oracle(e, c):
            k = classify(e)
            if k is None:
                return None
            if k.startswith('!'):
                return 1 - asg[k[1:]]
            return asg[k]
        outs = set()
        forks = 0
        for p in explore(f, oracle=oracle, max_visits=1):
            if p.end != 'return':
                continue
            forks += sum(1 for d in p.decisions if d[4] == 'fork')
            enc = [c[2].rsplit('::', 2)[-2] for c in path_calls(p) if isinstance(c[2], str) and c[2].endswith('::compile') and 'State' in c[2]]
            rv = p.ret()
            outs.add(enc[0] if enc else ('nothing' if ret_kind(rv) == 'ok' else '?'))
        if E and F and Z:
            want = 'nothing'
        elif N1 or F:
            want = 'StateAnyTrans'
        elif A and OZ:
            want = 'StateOneTransNext'
        else:
            want = 'StateOneTrans'
        name = 'empty=%d,final=%d,finalout0=%d,ntrans!=1:%d,target=prev:%d,out0=%d' % (E, F, Z, N1, A, OZ)
        if forks:
            ctx.undecided(R, 'case:' + name, 'the form selector branches on something outside the six atoms', fn=f)
        else:
            ctx.check(R, outs == {want}, 'case:' + name, 'node form for [%s] is %s, the layout requires %s' % (name, sorted(outs), want), fn=f)
    # arguments handed to the encoders
    def first_trans(e):
        """True: element 0 of the transition list; False: another element; None: not recognised"""
        while e[0] in ('cast',) or (e[0] == 'un' and e[1] == 'Deref'):
            e = e[1] if e[0] == 'cast' else e[2]
        if is_call(e, 'Index<I>>::index') or is_call(e, '::index'):
            i = e[2][1]
            return (i == ('const', 0)) if i[0] == 'const' else None
        if e[0] == 'index':
            i = e[2]
            if isinstance(i, str):
                return i == '[0]'
            return (i == ('const', 0)) if i[0] == 'const' else None
        return None
    for p in explore(f, max_visits=1):
        for (k, bid, callee, args, t) in path_calls(p):
            if callee == layout.ENC_NEXT:
                ok = args[1][0] == 'param' and args[2][0] == 'field' and args[2][2] == 'inp'
                ctx.check(R, ok, 'args:next', 'one-trans-next must be given (node address, input byte of the only transition)', fn=f)
            if callee == layout.ENC_ONE:
                ft = first_trans(args[2])
                if ft is None:
                    ctx.undecided(R, 'args:one', 'the transition handed to the one-trans encoder is not a recognised "first element" form: %s' % fmt(args[2])[:80], fn=f)
                else:
                    ctx.check(R, args[1][0] == 'param' and ft, 'args:one', 'one-trans must be given (node address, the only transition)', fn=f)
            if callee == layout.ENC_ANY:
                ok = args[1][0] == 'param' and args[2][0] == 'param'
                ctx.check(R, ok, 'args:any', 'any-trans must be given (node address, node)', fn=f)


_PVC = {}


def _PV(lib):
    from absint import Prover
    if id(lib) not in _PVC:
        _PVC[id(lib)] = Prover(lib)
    return _PVC[id(lib)]


def delta_addressing(ctx):
    R = ctx.rule('R09.7', 'delta addressing: delta = node start - target, 0 <-> the empty final node, same expression for width and value; reader subtracts from the node start', floor=3)
    lib = ctx.lib
    exprs = {}
    for name in ('raw::node::pack_delta_in', 'raw::node::pack_delta_size'):
        f = lib.fn(name)
        if f is None:
            ctx.missing(R, 'anchor:' + name, name + ' not found')
            continue
        seen = {}
        from sym import subst, simplify_proj
        na, ta = (1, 2) if name.endswith('size') else (2, 3)

        def scan(g, m):
            """paths of g (f itself, or a private helper computing the delta from f's arguments m: helper param -> f expression)"""
            for p in explore(g, max_visits=1):
                if p.end != 'return':
                    continue
                d = [x for x in p.decisions if x[2][0] == 'bin' and x[2][1] in ('Eq', 'Ne') and x[2][3] in (('citem', 'raw::EMPTY_ADDRESS'), ('const', 0))]
                if not d:
                    continue
                isz = (d[-1][2][1] == 'Eq') == bool(d[-1][3])
                arg = None
                if g is f:
                    for (k, bid, callee, args, t) in path_calls(p, expand=False):
                        if isinstance(callee, str) and (callee.endswith('pack_uint_in') or callee.endswith('bytes::pack_size')):
                            arg = args[1] if callee.endswith('pack_uint_in') else args[0]
                else:
                    arg = p.ret()
                if arg is None:
                    continue
                arg = simplify_proj(subst(arg, m)) if m else arg
                cmp_ = simplify_proj(subst(d[-1][2][2], m)) if m else d[-1][2][2]
                while arg[0] == 'cast':
                    arg = arg[1]
                seen[isz] = (arg, cmp_)
        scan(f, None)
        if not seen:
            for p in explore(f, max_visits=1):
                for (k, bid, callee, args, t) in path_calls(p, expand=False):
                    if callee in lib.fns and callee.startswith('raw::node::') and lib.fns[callee].local_ty(0) == 'usize':
                        scan(lib.fns[callee], {i + 1: a for i, a in enumerate(args)})
                if seen:
                    break
        okz = seen.get(True, (None,))[0] in (('citem', 'raw::EMPTY_ADDRESS'), ('const', 0)) and seen.get(True, (None, None))[1] == ('param', f.local_name(2 if name.endswith('size') else 3), 2 if name.endswith('size') else 3)
        nz = seen.get(False, (None,))[0]
        oknz = nz is not None and nz[0] == 'bin' and nz[1] == 'Sub' and nz[2] == ('param', f.local_name(na), na) and nz[3] == ('param', f.local_name(ta), ta)
        ctx.check(R, okz and oknz, name.rsplit('::', 1)[-1], 'the stored delta must be 0 for the empty final node and (node start - target address) otherwise: %s' % {k: fmt(v[0])[:40] for k, v in seen.items()}, fn=f)
    f = lib.fn('raw::node::pack_delta')
    if f is not None:
        ok = False
        for p in explore(f, max_visits=1):
            if p.end == 'return' and ret_kind(p.ret()) == 'ok':
                cs = path_calls(p)
                sz = [c for c in cs if isinstance(c[2], str) and c[2].endswith('pack_delta_size')]
                pk = [c for c in cs if isinstance(c[2], str) and c[2].endswith('pack_delta_in')]
                ok = len(sz) == 1 and len(pk) == 1 and sz[0][3] == pk[0][3][1:3] and is_call(pk[0][3][3], 'pack_delta_size') and dict(p.ret()[2]).get('0') is not None and is_call(dict(p.ret()[2])['0'], 'pack_delta_size')
        ctx.check(R, ok, 'pack_delta', 'pack_delta must write the delta in exactly pack_delta_size bytes and report that width', fn=f)
    f = lib.fn('raw::node::unpack_delta')
    if f is None:
        ctx.missing(R, 'anchor:unpack_delta', 'unpack_delta not found')
    else:
        seen = {}
        for p in explore(f, max_visits=1):
            if p.end != 'return':
                continue
            d = [x for x in p.decisions if x[2][0] == 'bin' and x[2][1] in ('Eq', 'Ne') and x[2][3] in (('citem', 'raw::EMPTY_ADDRESS'), ('const', 0))]
            if d:
                isz = (d[-1][2][1] == 'Eq') == bool(d[-1][3])
                seen[isz] = p.ret()
        z, nz = seen.get(True), seen.get(False)
        ok = z in (('citem', 'raw::EMPTY_ADDRESS'), ('const', 0)) and nz is not None and nz[0] == 'bin' and nz[1] == 'Sub' and nz[2] == ('param', f.local_name(3), 3) and any(is_call(x, 'unpack_uint') for x in walk(nz[3]))
        ctx.check(R, ok, 'unpack_delta', 'the reader must map delta 0 to the empty final node and otherwise subtract the delta from the node start', fn=f)


def header_footer(ctx):
    R = ctx.rule('R09.8', 'header = (VERSION, type), footer = (key count, root address) then the checksum word, all through the fixed-width writers', floor=3)
    lib = ctx.lib
    A = Anchors(lib)
    if A.err:
        ctx.missing(R, 'anchor', '; '.join(A.err))
        return
    nt = lib.fn(A.builder + '::<W>::new_type')
    if nt is None:
        ctx.missing(R, 'anchor:new_type', 'new_type not found')
    else:
        for p in explore(nt, max_visits=1):
            if p.end != 'return' or ret_kind(p.ret()) != 'ok':
                continue
            ws = [c for c in path_calls(p) if isinstance(c[2], str) and c[2].endswith('io_write_u64_le')]
            ok = len(ws) == 2 and ws[0][3][0] == ('citem', 'raw::VERSION') and ws[1][3][0] == ('param', nt.local_name(2), 2)
            if not ws and calls_in_loops(nt, lambda c: c.endswith('io_write_u64_le')):
                ctx.undecided(R, 'header', 'the header words are written from inside a loop (over a list of words): order and content not decided', fn=nt)
                continue
            ctx.check(R, ok, 'header', 'the header must be u64 VERSION followed by u64 type: %s' % [fmt(w[3][0])[:30] for w in ws], fn=nt)
    fin = [m for m in A.builder_methods() if m.path.endswith('::into_inner')]
    if not fin:
        ctx.missing(R, 'anchor:into_inner', 'finishing routine not found')
        return
    fin = fin[0]
    lenf = [f['name'] for f in lib.adts[A.builder]['variants'][0]['fields'] if f['ty'] == 'usize' and f['name'] != 'last_addr']
    for p in explore(fin, max_visits=1, havoc=True, limit=4000):
        if p.end != 'return' or ret_kind(p.ret()) != 'ok':
            continue
        ws = [c for c in path_calls(p) if isinstance(c[2], str) and c[2].endswith('io_write_u64_le')]
        ok = False
        why = [fmt(w[3][0])[:60] for w in ws]
        if len(ws) == 2:
            a, b = ws[0][3][0], ws[1][3][0]
            while a[0] == 'cast':
                a = a[1]
            while b[0] == 'cast':
                b = b[1]
            ok_len = a[0] == 'field' and a[2] in lenf
            ok_root = b[0] == 'okof' and is_call(b[1], '::compile') and any(is_call(x, 'pop_root') for x in walk(b[1]))
            ok = ok_len and ok_root
        ws32 = [c for c in path_calls(p) if isinstance(c[2], str) and c[2].endswith('io_write_u32_le')]
        if not ws and calls_in_loops(fin, lambda c: c.endswith('io_write_u64_le')):
            ctx.undecided(R, 'footer', 'the footer words are written from inside a loop (over a list of words): order and content not decided', fn=fin)
            ctx.check(R, len(ws32) == 1, 'checksum-word', 'the checksum must be one u32 after the footer', fn=fin)
            continue
        ctx.check(R, ok, 'footer', 'the footer must be u64 key count followed by u64 address of the compiled root node: %s' % why, fn=fin)
        ctx.check(R, len(ws32) == 1 and ws and ws32[0][0] > ws[-1][0], 'checksum-word', 'the checksum must be one u32 after the footer', fn=fin)
