"""C15 — construction is deterministic and independent of the API path."""
import re
from paths import explore
from sym import fmt, walk, Sym
from callgraph import CallGraph
from rules.common import adt_base, Anchors, path_calls, ret_kind
from rules.streams import is_call
import stdmodel as SM

LEVEL = 'other'       # was 'proof': seeded changes twice found a channel the reduction had not listed (DESIGN.md §7.6), so the honest level is structural
NEED_FIXTURE = True
ROLES = ['lib']
EXPLANATION = ('R15.1 funnel: the functions that can reach emission are the header writer, the inserting routine -> compile_from -> '
               'compile and the footer writer; each of the 14 construction entry points reaches emission only through the gates '
               'new/new_type, add, insert, finish/into_inner; add and insert share one inserting routine; every builder is created by '
               'the single constructor with constant type word arguments and a node cache whose geometry is a pair of literals. '
               'R15.2 no nondeterministic effect is reachable from any front end or gate: keyed hashing (RandomState), iteration over '
               'std hash containers, time, environment, thread identity, process id, atomics, pointer-to-integer casts; the library has '
               'no static mut / interior-mutable / thread-local static. R15.3 the node-cache hash is a closed expression over node '
               'fields and literals and the cache holds no hasher state. Argued, not decided: add(k) and insert(k, 0) emit the same bytes '
               '(with all outputs zero the output-pushing branch is the identity).')
TRUSTED = ['the deny-list of nondeterministic std APIs in engine/py/stdmodel.py', 'calls into user code (iterators, streams, AsRef) are outside the property']
ASSUMPTIONS = ['user-supplied iterators / streams yield the same sequence']

FRONTS = ['raw::build::Builder::<W>::add', 'raw::build::Builder::<W>::insert', 'raw::build::Builder::<W>::extend_iter', 'raw::build::Builder::<W>::extend_stream',
          'raw::Fst::<std::vec::Vec<u8>>::from_iter_set', 'raw::Fst::<std::vec::Vec<u8>>::from_iter_map',
          'inner_set::SetBuilder::<W>::insert', 'inner_set::SetBuilder::<W>::extend_iter', 'inner_set::SetBuilder::<W>::extend_stream', 'inner_set::Set::<std::vec::Vec<u8>>::from_iter',
          'inner_map::MapBuilder::<W>::insert', 'inner_map::MapBuilder::<W>::extend_iter', 'inner_map::MapBuilder::<W>::extend_stream', 'inner_map::Map::<std::vec::Vec<u8>>::from_iter']
CTORS = ['raw::build::Builder::<W>::new', 'raw::build::Builder::<W>::new_type', 'raw::build::Builder::<std::vec::Vec<u8>>::memory',
         'inner_set::SetBuilder::<W>::new', 'inner_set::SetBuilder::<std::vec::Vec<u8>>::memory', 'inner_map::MapBuilder::<W>::new', 'inner_map::MapBuilder::<std::vec::Vec<u8>>::memory']
FINISHERS = ['raw::build::Builder::<W>::finish', 'raw::build::Builder::<W>::into_inner', 'raw::build::Builder::<std::vec::Vec<u8>>::into_fst',
             'inner_set::SetBuilder::<W>::finish', 'inner_set::SetBuilder::<W>::into_inner', 'inner_set::SetBuilder::<std::vec::Vec<u8>>::into_set',
             'inner_map::MapBuilder::<W>::finish', 'inner_map::MapBuilder::<W>::into_inner', 'inner_map::MapBuilder::<std::vec::Vec<u8>>::into_map']


def funnel(ctx, A, R):
    lib = ctx.lib
    cg = CallGraph(lib)
    add, ins = A.builder + '::<W>::add', A.builder + '::<W>::insert'
    new_type, into_inner = A.builder + '::<W>::new_type', A.builder + '::<W>::into_inner'
    gates = [add, ins, new_type, into_inner]
    for g in gates:
        if g not in lib.fns:
            ctx.missing(R, 'anchor:' + g, 'gate %s not found' % g)
            return
    for name in FRONTS:
        f = lib.fn(name)
        if f is None:
            ctx.missing(R, 'anchor:' + name, 'front end %s not found' % name)
            continue
        if name in (add, ins):
            continue
        reach = cg.reachable([f.path], stop=gates)
        leak = [p for p in reach if p == SM.IO_WRITE_ALL or p == SM.IO_WRITE]
        chain = cg.path_to([f.path], lambda p: p in (SM.IO_WRITE_ALL, SM.IO_WRITE), stop=gates) if leak else None
        ctx.check(R, not leak, 'front:' + name, 'front end reaches emission without passing a gate (new/add/insert/finish): %s' % (' -> '.join(chain) if chain else ''), fn=f)
    # add and insert share the inserting routine; nothing else in them emits
    def inserting(fn):
        outs = []
        for p in explore(lib.fns[fn], max_visits=1):
            for (k, bid, callee, args, t) in path_calls(p):
                if callee in lib.fns and SM.IO_WRITE_ALL in cg.reachable([callee]) and callee not in outs:
                    outs.append(callee)
        return outs
    ia, ii = inserting(add), inserting(ins)
    ctx.check(R, len(ia) == 1 and ia == ii, 'shared-routine', 'add and insert must emit through one shared routine (add: %s, insert: %s)' % (ia, ii), fn=lib.fns[add])
    # the single constructor: every Builder aggregate is built in new_type
    ctors = []
    for f in lib.fn_list:
        for b in f.normal_blocks():
            for st in b['stmts']:
                if st['k'] == 'assign' and isinstance(st['rv'].get('agg'), dict) and st['rv']['agg'].get('adt') == A.builder:
                    ctors.append(f.path)
    ctx.check(R, sorted(set(ctors)) == [new_type], 'single-constructor', 'builders must be created by one constructor so that set and map builders start identically (constructed in %s)' % sorted(set(ctors)))
    # cache geometry and header type are literals, identical for every front end
    nt = lib.fns[new_type]
    geo = []
    for p in explore(nt, max_visits=1):
        for (k, bid, callee, args, t) in path_calls(p):
            if isinstance(callee, str) and callee.endswith('Registry::new'):
                geo.append(tuple(args))
    def lit(a):
        if a[0] == 'const':
            return a[1]
        if a[0] == 'citem':
            return lib.const_scalar(a[1])
        return None
    okg = bool(geo) and all(all((lit(a) or 0) > 0 for a in g) for g in geo) and len(set(geo)) == 1
    ctx.check(R, okg, 'cache-geometry', 'the node cache geometry must be a pair of positive literals (not derived from the input or the front end): %s' % [[fmt(a) for a in g] for g in geo], fn=nt)
    # ... and the SAME literals in every build of the crate: an argument chosen by a branch (`if cfg!(debug_assertions) { 1_000 } else
    # { 10_000 }` is a branch on a constant, of which only one arm is seen here) makes the bytes depend on the build profile
    for bid, t in nt.calls():
        if not (nt.callee(t) or '').endswith('Registry::new'):
            continue
        for i, a in enumerate(t.get('args', [])):
            if 'const' in a:
                continue
            pl = a.get('copy') or a.get('move')
            defs = []
            if pl is not None and not pl['proj']:
                for b2, blk in nt.blocks.items():
                    if blk['cleanup']:
                        continue
                    for st in blk['stmts']:
                        if st['k'] == 'assign' and not st['place']['proj'] and st['place']['local'] == pl['local']:
                            defs.append(st['rv'])
            single_const = len(defs) == 1 and 'use' in defs[0] and 'const' in defs[0]['use']
            ctx.check(R, single_const, 'cache-geometry:arg%d' % i, 'argument %d of the node cache constructor is not one literal but a value assigned in %d places (a choice between literals, e.g. by build profile): builds of the same source then emit different bytes for the same keys' % (i, len(defs)), fn=nt, at=t.get('span'))
    tys = {}
    for name in CTORS:
        f = lib.fn(name)
        if f is None:
            continue
        for p in explore(f, max_visits=1):
            for (k, bid, callee, args, t) in path_calls(p):
                if callee == new_type:
                    tys[name] = args[1]
    okt = all(v == ('const', 0) or v[0] == 'param' for v in tys.values()) and tys.get('inner_set::SetBuilder::<W>::new', ('const', 0)) == ('const', 0)
    ctx.check(R, okt, 'type-word', 'set and map builders must request the same FST type word (0): %s' % {k.rsplit('::', 2)[-2] + '::' + k.rsplit('::', 1)[-1]: fmt(v) for k, v in tys.items()})


PTR_CASTS = ('PointerExposeProvenance', 'PointerExposeAddress')


def nondet_sites(crate, paths):
    out = []
    for path in paths:
        f = crate.fns.get(path)
        if f is None:
            continue
        for bid, t in f.calls():
            c = f.callee(t)
            d = f.callee_decl(t)
            for x in (c, d):
                if SM.is_nondet(x):
                    out.append((f, t.get('span'), x))
                    break
        for b in f.normal_blocks():
            for st in b['stmts']:
                if st['k'] == 'assign' and 'cast' in st['rv'] and any(pc in st['rv']['cast'] for pc in PTR_CASTS):
                    out.append((f, '%s:%s' % (f.file(), st.get('line')), 'pointer-to-integer cast'))
    return out


def r15_2(ctx, A):
    R = ctx.rule('R15.2', 'no nondeterministic effect reachable from any construction entry point; no global mutable state in the library', floor=3)
    lib = ctx.lib
    cg = CallGraph(lib)
    roots = [n for n in FRONTS + CTORS + FINISHERS if n in lib.fns]
    reach = [p for p in cg.reachable(roots) if p in lib.fns]
    ctx.count('functions_reachable_from_construction', len(reach))
    sites = nondet_sites(lib, reach)
    for f, at, what in sites:
        chain = cg.path_to(roots, lambda p: p == f.path)
        ctx.violation(R, 'nondet:%s@%s' % (what, f.path), 'construction can reach %s, so the emitted bytes may differ between runs, threads or processes [via %s]' % (what, ' -> '.join(chain or [])), fn=f, at=at)
    ctx.check(R, not sites, 'scan', 'nondeterministic effects reachable', detail='%d functions reachable from %d entry points scanned' % (len(reach), len(roots)))
    bad = [s for s in lib.statics if (s['mutable'] or s['interior_mut'] or s['thread_local']) and not s.get('from_expansion')]
    for s in bad:
        ctx.violation(R, 'static:' + s['path'], 'the library has a mutable / interior-mutable / thread-local static: shared state can make builds depend on history or thread', fn=s['path'])
    ctx.check(R, not bad, 'statics', 'global mutable state', detail='%d statics in the library' % len(lib.statics))
    # positive controls
    fx = ctx.fixture
    fs = nondet_sites(fx, [f.path for f in fx.fn_list])
    kinds = {f.path for f, _, _ in fs}
    want = {'ctl_random_state', 'ctl_hash_iter', 'ctl_time', 'ctl_ptr_cast'}
    ctx.check(R, want <= kinds, 'control-fixture', 'the scan misses fixture instances %s: checker broken' % sorted(want - kinds), kind='violation', detail=sorted(kinds))
    fst = [s for s in fx.statics if s['mutable'] or s['interior_mut']]
    ctx.check(R, len(fst) >= 2, 'control-statics', 'the static scan misses the fixture\'s static mut / atomic: checker broken', kind='violation')


def r15_3(ctx):
    R = ctx.rule('R15.3', 'the node-cache hash is a closed expression over node fields and literals; the cache carries no hasher state', floor=2)
    lib = ctx.lib
    cg = CallGraph(lib)
    reg = lib.adts.get('raw::registry::Registry')
    if reg is None:
        ctx.missing(R, 'anchor:registry', 'node cache type not found')
        return
    bad_fields = [f for f in reg['variants'][0]['fields'] if re.search(r'RandomState|Hasher|HashMap|HashSet|Cell<|Instant|SystemTime', f['ty'])]
    ctx.check(R, not bad_fields, 'cache-state', 'the node cache holds hashing / interior-mutable state: %s' % [(f['name'], f['ty'][:40]) for f in bad_fields])
    hs = [f for f in lib.fn_list if f.impl and f.impl['self_ty'] == 'raw::registry::Registry' and f.local_ty(0) == 'usize' and f.arg_count == 2 and f.kind == 'AssocFn']
    if len(hs) != 1:
        ctx.missing(R, 'anchor:hash', 'bucket function of the node cache not found (%d candidates)' % len(hs))
        return
    h = hs[0]
    ext = sorted(p for p in cg.reachable([h.path]) if p not in lib.fns)
    # pure std building blocks: integer arithmetic and conversions, slice / Vec iteration and its adaptors, panics of arithmetic checks
    allowed = re.compile(r"^(core::num::<impl [ui](8|16|32|64|128|size)>::\w+|std::convert::num::<impl std::convert::From<\w+> for \w+>::from|<T as std::convert::(Into|From)<\w+>>::(into|from)"
                         r"|<&'a std::vec::Vec<T, A> as std::iter::IntoIterator>::into_iter|<std::slice::Iter<'a, T> as std::iter::Iterator>::\w+|std::iter::Iterator::\w+|<std::iter::\w+<.*> as std::iter::Iterator>::\w+"
                         r"|core::slice::<impl \[T\]>::(iter|len|is_empty)|<std::vec::Vec<T, A> as std::ops::Deref>::deref|std::vec::Vec::<T, A>::(len|is_empty|as_slice)|core::panicking::.*|<I as std::iter::IntoIterator>::into_iter"
                         r"|<[ui](8|16|32|64|128|size) as std::ops::\w+(<.*>)?>::\w+)$")
    odd = [p for p in ext if not allowed.match(p)]
    ctx.check(R, not odd, 'hash-closed', 'the bucket function calls %s: it must be pure arithmetic over the node\'s own fields' % odd, fn=h, detail=ext)
    # every atom of the hash is a parameter field, a literal or a loop item of node.trans
    sy = Sym(h)
    leaves = set()
    for bid, b in h.blocks.items():
        if b['cleanup']:
            continue
        for i, st in enumerate(b['stmts']):
            if st['k'] == 'assign':
                for x in walk(sy.rvalue(st['rv'], bid, i)):
                    if x[0] in ('citem', 'cother'):
                        leaves.add(fmt(x)[:60])
    ok = all(l == '()' or l.startswith(h.path) or l.startswith('raw::registry::') for l in leaves)
    ctx.check(R, ok, 'hash-leaves', 'the bucket function reads non-literal global items: %s' % sorted(leaves), fn=h, detail=sorted(leaves))


def run(ctx):
    lib = ctx.lib
    A = Anchors(lib)
    if A.err:
        for e in A.err:
            ctx.missing('R15.1', 'anchor', e)
        return
    R1 = ctx.rule('R15.1', 'one emission funnel behind every construction entry point; one constructor; literal cache geometry and type word', floor=14)
    ctx.step(funnel, ctx, A, R1)
    ctx.step(r15_2, ctx, A)
    ctx.step(r15_3, ctx)
    # one cache per builder, created by the single constructor with literal geometry: a second creation site (per entry point) makes
    # the emitted bytes depend on which constructor-like convenience was used
    import rules.C12 as C12
    ctx.step(C12.r12_3_6, ctx, A)
    # "the bytes are a function of the ACCEPTED calls" needs rejected calls to leave no trace: R06.3 / R06.5 (mode constants)
    import rules.C06 as C06
    chk, add, ins = C06.find_check_fn(ctx, A, 'R06.1')
    lastf = C06.last_field(lib, A)
    if chk is not None and lastf is not None:
        ctx.rule('R06.5', 'set front ends reach the set entry point (no duplicate check), map front ends the map entry point', floor=12)
        ctx.step(C06.r06_1_2_3, ctx, A, chk, lastf)
        ctx.step(C06.r06_3_dominance, ctx, A, chk, add, ins)
        ctx.rule('R06.5', 'set front ends reach the set entry point (no duplicate check), map front ends the map entry point', floor=12)
        ctx.step(C06.r06_5, ctx, A, add, ins)
    # same keys and values, same bytes - whatever sink receives them: the trailing checksum and every node address depend only on
    # the bytes the sink ACCEPTED (R07.1); a checksum fed with offered bytes differs between a short-writing sink and a Vec
    import rules.C07 as C07
    from absint import Prover
    ctx.step(C07.r07_1, ctx, A, Prover(lib))
    # ... and every other emission hands the sink the whole buffer (write_all): a bare write() on a short-writing sink drops the tail
    ctx.step(C07.r07_2, ctx, A)
    # the end of the file is written by ONE routine, whichever finishing entry point the caller uses (finish / into_inner of the raw, set
    # and map builders): a second routine that writes footer and checksum on its own gives the same keys two possible images
    R5 = ctx.rule('R15.5', 'one finishing routine: every finish / into_inner entry point ends the file through the same code', floor=1)
    cw_mc = [f for f in lib.fn_list if f.impl and adt_base(f.impl['self_ty']) == A.cw and not f.impl.get('trait_path') and f.local_ty(0) == 'u32']
    if not cw_mc:
        ctx.undecided(R5, 'finisher', 'the checksum getter of the counting writer was not found')
    else:
        enders = sorted({m.path for m in A.builder_methods() for _, t in m.calls() if m.callee(t) in {f.path for f in cw_mc}})
        ctx.check(R5, len(enders) == 1, 'single-finisher', 'the checksum that ends the file is read in %d builder routines (%s): finish() and into_inner() can then end the same build with different bytes' % (
            len(enders), [e.rsplit('::', 1)[-1] for e in enders]), fn=lib.fns.get(enders[-1]) if enders else None)
    # which of the two one-transition node forms is written depends on `last_addr`: only the constructor and the node compiler may set it
    # (R01.3, tiling, shared with C01 / C09), or the bytes depend on the API path by which the keys arrived
    import rules.C01 as C01
    ctx.step(C01.r01_3, ctx, A)
