"""Reader half of family F1: byte offsets, widths and guards of every node accessor against the format table."""
from lin import Lin
from paths import explore
from sym import fmt, walk, const_eval
from rules.common import path_calls, ret_kind
from rules.streams import norm, is_call

ANY = 'raw::node::StateAnyTrans::'
ONE = 'raw::node::StateOneTrans::'
NEXT = 'raw::node::StateOneTransNext::'
NODE = "raw::node::Node::<'f>::"


def A(name):
    return Lin.atom(name)


def C(v):
    return Lin.const(v)


START, NL, IL, NT, TS, OS, IX, I, B = (A(x) for x in ('START', 'NL', 'IL', 'NT', 'TS', 'OS', 'IX', 'I', 'B'))
NT_TS = A('NT*TS')
NT_OS = A('NT*OS')
I_TS = A('I*TS')
I_OS = A('I*OS')
TT = NT + NT_TS + IX                      # inputs + deltas + index


def prod(a, b):
    """product of two linear forms when both are single named atoms (or one is constant)"""
    if a.is_const():
        return b.scale(a.c)
    if b.is_const():
        return a.scale(b.c)
    if len(a.t) == 1 and len(b.t) == 1 and a.c == 0 and b.c == 0:
        (x, cx), = a.t.items()
        (y, cy), = b.t.items()
        names = sorted([x, y], key=lambda s: (0 if s in ('NT', 'I') else 1, s))
        return Lin({'%s*%s' % (names[0], names[1]): cx * cy}, 0)
    return None


_LIB = [None]
_ROLE = {}
_PV = [None]


def helper_role(path):
    """classify a local helper by what it computes (not by its name): NL | IL | IX | TS | OS | None"""
    lib = _LIB[0]
    if path in _ROLE:
        return _ROLE[path]
    _ROLE[path] = None
    f = lib.fns.get(path)
    if f is None or f.arg_count < 1:
        return None
    from bitvec import ev, var_bits
    from rules.formatrules import const_env
    rs = [p for p in explore(f, max_visits=1) if p.end == 'return']
    self_ty = f.local_ty(1)
    role = None
    if len(rs) == 1 and f.arg_count == 1:
        rv = rs[0].ret()
        env = [(('field', ('param', f.local_name(1), 1), '0'), var_bits('old', 8))] + const_env(lib)
        b = ev(rv, env, 8)
        old = var_bits('old', 8)
        if b == old[4:8] + [0, 0, 0, 0]:
            role = 'TS'
        elif b == old[0:4] + [0, 0, 0, 0]:
            role = 'OS'
        else:
            # bool -> 0/1 conversions of "the optional field is absent"
            x = rv
            while x[0] == 'cast':
                x = x[1]
            if x[0] == 'call' and isinstance(x[1], str) and x[1].endswith('::from') and len(x[2]) == 1:
                x = x[2][0]
            if is_call(x, 'Option::<T>::is_none') and x[2][0][0] == 'call' and x[2][0][2] and x[2][0][2][0] == ('param', f.local_name(1), 1):
                role = 'NL' if 'StateAnyTrans' in self_ty else 'IL'
    elif len(rs) == 2 and f.arg_count == 1:
        vals = {}
        for p in rs:
            # canonical form: discr(optional field accessor(self)) = 0 (None) / 1 (Some), whatever the spelling (is_none, match, if let)
            d = [x for x in p.cdecisions() if x[2][0] == 'discr' and x[2][1][0] == 'call' and x[2][1][2] and x[2][1][2][0] == ('param', f.local_name(1), 1)]
            if d:
                vals[d[-1][3]] = p.ret()
        if vals.get(0) == ('const', 1) and vals.get(1) == ('const', 0):
            role = 'NL' if 'StateAnyTrans' in self_ty else 'IL'
    if role is None and f.arg_count == 3 and 'StateAnyTrans' in self_ty:
        vals = {r.ret() for r in rs}
        if vals == {('const', 256), ('const', 0)}:
            role = 'IX'
    _ROLE[path] = role
    return role


_PARAM_ROLE = {}


def register_params(f):
    """roles of an accessor's parameters by TYPE (names are free): the byte slice, the probe byte, and the one usize that is the
    transition index when a node is passed along, the transition count otherwise"""
    if f is None:
        return
    has_node = any('raw::node::Node<' in f.local_ty(l) for l in range(1, f.arg_count + 1))
    for l in range(1, f.arg_count + 1):
        ty = f.local_ty(l)
        nm = f.local_name(l)
        if ty == 'u8':
            _PARAM_ROLE[(nm, l, f.path)] = 'B'
        elif ty == 'usize':
            _PARAM_ROLE[(nm, l, f.path)] = 'I' if has_node else 'NT'
        elif ty.endswith('[u8]'):
            _PARAM_ROLE[(nm, l, f.path)] = 'DATA'
    _PARAM_ROLE['cur'] = f.path


def param_role(e):
    return _PARAM_ROLE.get((e[1], e[2], _PARAM_ROLE.get('cur')))


def rlin(e):
    """linear form of a reader offset expression over the named atoms, or None"""
    if not isinstance(e, tuple):
        return None
    h = e[0]
    if h == 'const':
        return C(e[1])
    if h == 'cast':
        return rlin(e[1])
    if h == 'citem':
        v = _LIB[0].const_scalar(e[1]) if _LIB[0] is not None else None
        return C(v) if v is not None else None
    if h == 'bin':
        op = e[1]
        a, b = rlin(e[2]), rlin(e[3])
        if a is None or b is None:
            return None
        if op in ('Add',):
            return a + b
        if op in ('Sub',):
            return a - b
        if op in ('Mul',):
            return prod(a, b)
        return None
    if h == 'field' and e[1][0] == 'param':
        return {'start': START, 'ntrans': NT}.get(e[2])
    if h == 'param':
        r = param_role(e)
        if r in ('NT', 'I', 'B'):
            return {'NT': NT, 'I': I, 'B': B}[r]
        return {'ntrans': NT, 'i': I, 'b': B}.get(e[1])
    if h == 'len' and e[1][0] == 'param' and (param_role(e[1]) == 'DATA' or e[1][1] == 'data'):
        return START + C(1)
    if h == 'call' and isinstance(e[1], str):
        if e[1].endswith('<impl [T]>::len') and e[2][0][0] == 'param' and (param_role(e[2][0]) == 'DATA' or e[2][0][1] == 'data'):
            return START + C(1)
        if _LIB[0] is not None and e[1] in _LIB[0].fns:
            r = helper_role(e[1])
            if r is not None:
                return {'NL': NL, 'IL': IL, 'IX': IX, 'TS': TS, 'OS': OS}[r]
            # a single-path helper (e.g. an extracted "offset of the sizes byte"): use its body
            t = _PV[0].inline_template(e[1])
            if t is not None:
                from sym import subst, simplify_proj
                return rlin(simplify_proj(subst(t, {i + 1: a for i, a in enumerate(e[2])})))
    return None


def byte_index(e):
    """for data[IDX] / node.data[IDX] return IDX"""
    if e[0] == 'cast':
        return byte_index(e[1])
    if e[0] == 'index' and isinstance(e[2], tuple):
        base = e[1]
        if (base[0] == 'param' and (param_role(base) == 'DATA' or base[1] == 'data')) or (base[0] == 'field' and base[2] == 'data'):
            return e[2]
    return None


def slice_from(e):
    """for &data[at..] return at"""
    if is_call(e, 'Index<I> for [T]>::index') and e[2][1][0] == 'agg' and e[2][1][1].endswith('RangeFrom'):
        base = e[2][0]
        if (base[0] == 'param' and (param_role(base) == 'DATA' or base[1] == 'data')) or (base[0] == 'field' and base[2] == 'data'):
            return dict(e[2][1][2]).get('start')
    return None


def eq(a, b):
    if a is None or b is None:
        return False
    d = a - b
    return d.is_const() and d.c == 0


def eq3(a, b):
    """three-valued comparison of linear forms: None when a side could not be reconstructed"""
    if a is None or b is None:
        return None
    d = a - b
    return d.is_const() and d.c == 0


def check3(ctx, rid, cond, key, msg, **kw):
    """an obligation whose left-hand side could not be reconstructed is undecided, not violated"""
    if cond is None:
        ctx.undecided(rid, key, 'cannot reconstruct the quantity to compare: ' + msg, fn=kw.get('fn'), at=kw.get('at'))
        return False
    return ctx.check(rid, bool(cond), key, msg, **kw)


def mirrored(e, is_pos):
    """e == ntrans - p - 1 for a position expression p"""
    while e[0] == 'cast':
        e = e[1]
    if e[0] == 'bin' and e[1] == 'Sub' and e[3] == ('const', 1) and e[2][0] == 'bin' and e[2][1] == 'Sub':
        return is_pos(e[2][3]) and any(x[0] == 'field' and x[2] == 'ntrans' for x in walk(e[2][2]))
    if e[0] == 'bin' and e[1] == 'Sub' and e[2][0] == 'bin' and e[2][1] == 'Sub' and e[2][3] == ('const', 1):
        return is_pos(e[3]) and any(x[0] == 'field' and x[2] == 'ntrans' for x in walk(e[2][2]))
    return False


def rets(f, havoc=False):
    """returning paths with the cases hidden in std combinators made explicit (vsplit); local helpers stay opaque calls"""
    import vsplit
    register_params(f)
    if _LIB[0] is not None:
        return vsplit.vpaths(_LIB[0], f, enter=False, havoc=havoc)
    return [p for p in explore(f, max_visits=1, havoc=havoc) if p.end == 'return']


def guard_val(p, pred):
    """value of the last decision matching pred; decisions in canonical form (discr(X) = 0/1 for is_none / is_some / match / if let)"""
    d = [x for x in p.cdecisions() if pred(x[2])]
    return d[-1][3] if d else None


def width_zero(p):
    """1 / 0 / None: the path is taken under "output width == 0" / "!= 0" / neither (both spellings of the test)"""
    d = [x for x in p.cdecisions() if x[2][0] == 'bin' and x[2][1] in ('Eq', 'Ne') and eq(rlin(x[2][2]), OS) and x[2][3] == ('const', 0) and x[3] in (0, 1)]
    if not d:
        return None
    return d[-1][3] if d[-1][2][1] == 'Eq' else 1 - d[-1][3]


def discover(lib):
    """accessor functions by the role they play in Node::new / Node::transition / Node::find_input (not by name)"""
    roles = {}
    new = lib.fn(NODE + 'new')
    st = lib.adts.get('raw::node::State')
    if new is not None and st:
        for p in rets(new):
            rv = p.ret()
            if rv[0] != 'agg':
                continue
            fd = dict(rv[2])
            d = [x for x in p.decisions if x[2][0] == 'discr' and is_call(x[2][1], 'State::new')]
            if not d or not isinstance(d[-1][3], int) or d[-1][3] >= len(st['variants']):
                continue
            kind = st['variants'][d[-1][3]]['name']
            for field in ('end', 'sizes', 'ntrans', 'final_output', 'is_final'):
                v = fd.get(field)
                if v is not None and v[0] == 'call' and isinstance(v[1], str) and v[1] in lib.fns:
                    roles[(kind, field)] = v[1]
    tr = lib.fn(NODE + 'transition')
    if tr is not None:
        for p in rets(tr):
            rv = p.ret()
            if rv[0] == 'agg' and rv[1] == 'raw::Transition':
                fd = dict(rv[2])
                for field, key in (('inp', 'input'), ('out', 'output'), ('addr', 'trans_addr')):
                    v = fd.get(field)
                    if v is not None and v[0] == 'call' and v[1] in lib.fns:
                        ty = lib.fns[v[1]].impl['self_ty'].rsplit('::', 1)[-1] if lib.fns[v[1]].impl else ''
                        roles[(ty.replace('State', ''), key)] = v[1]
    fi = lib.fn(NODE + 'find_input')
    if fi is not None:
        for p in rets(fi):
            rv = p.ret()
            if rv[0] == 'call' and rv[1] in lib.fns and lib.fns[rv[1]].impl and 'StateAnyTrans' in lib.fns[rv[1]].impl['self_ty']:
                roles[('AnyTrans', 'find_input')] = rv[1]
    return roles


def run(ctx, R, R2):
    """R = R01.1 (offsets); R2 = R02.2 (scan/index agreement)"""
    lib = ctx.lib
    from absint import Prover
    _LIB[0] = lib
    _PV[0] = Prover(lib)
    _ROLE.clear()
    roles = discover(lib)
    ROLE_OF = {ANY + 'sizes': ('AnyTrans', 'sizes'), ANY + 'ntrans': ('AnyTrans', 'ntrans'), ANY + 'final_output': ('AnyTrans', 'final_output'), ANY + 'end_addr': ('AnyTrans', 'end'),
               ANY + 'trans_addr': ('AnyTrans', 'trans_addr'), ANY + 'input': ('AnyTrans', 'input'), ANY + 'output': ('AnyTrans', 'output'), ANY + 'find_input': ('AnyTrans', 'find_input'),
               ONE + 'sizes': ('OneTrans', 'sizes'), ONE + 'end_addr': ('OneTrans', 'end'), ONE + 'output': ('OneTrans', 'output'), ONE + 'trans_addr': ('OneTrans', 'trans_addr'),
               ONE + 'input': ('OneTrans', 'input'), NEXT + 'input': ('OneTransNext', 'input'), NEXT + 'end_addr': ('OneTransNext', 'end'), NEXT + 'trans_addr': ('OneTransNext', 'trans_addr')}

    def need(path):
        f = None
        if path in ROLE_OF and ROLE_OF[path] in roles:
            f = lib.fn(roles[ROLE_OF[path]])
        if f is None:
            f = lib.fn(path)
        if f is None:
            # helper predicates (ntrans_len, input_len, trans_index_size, total_trans_size) are checked only if they exist under
            # their pinned names; when they were renamed or inlined the accessors' offsets are still compared through helper_role()
            if path.rsplit('::', 1)[-1] in ('ntrans_len', 'input_len', 'trans_index_size', 'total_trans_size'):
                by_role = [g for g in lib.fn_list if helper_role(g.path) == {'ntrans_len': 'NL', 'input_len': 'IL', 'trans_index_size': 'IX'}.get(path.rsplit('::', 1)[-1]) and g.impl and g.impl['self_ty'] == path.rsplit('::', 2)[-2].join(['raw::node::', ''])]
                return by_role[0] if by_role else None
            ctx.missing(R, 'anchor:' + path, 'accessor %s not found' % path)
        register_params(f)
        return f

    def check_at(name, f, got, want, what):
        if got is None:
            ctx.undecided(R, name, 'cannot reconstruct the offset at which %s is read as a linear form over the layout atoms' % what, fn=f)
            return
        check3(ctx, R, eq3(got, want), name, '%s reads at offset %s but the layout puts it at %s' % (what, got, want), fn=f, detail={'offset': repr(got), 'layout': repr(want)})

    # ---- helpers -----------------------------------------------------------------------------
    f = need(ANY + 'ntrans_len')
    if f:
        ctx.check(R, helper_role(f.path) == 'NL', 'any:ntrans_len', 'the count byte is present iff the state byte\'s count field is 0 (the helper must be 1 exactly when state_ntrans() is None)', fn=f)
    for ty in (ONE, NEXT):
        f = need(ty + 'input_len')
        if f:
            ctx.check(R, helper_role(f.path) == 'IL', ty.rsplit('::', 2)[-2] + ':input_len', 'the explicit input byte is present iff the common-input index is 0 (the helper must be 1 exactly when common_input() is None)', fn=f)
    f = need(ANY + 'trans_index_size')
    if f:
        outs = {}
        for p in rets(f):
            vg = guard_val(p, lambda e: e[0] == 'bin' and e[1] == 'Ge' and e[3] == ('const', 2))
            ng = guard_val(p, lambda e: e[0] == 'bin' and e[1] == 'Gt' and e[3] == ('citem', 'raw::node::TRANS_INDEX_THRESHOLD'))
            outs[(vg, ng)] = p.ret()
        ok = outs.get((1, 1)) == ('const', 256) and all(v == ('const', 0) for k, v in outs.items() if k != (1, 1)) and len(outs) >= 2
        ctx.check(R, ok, 'any:trans_index_size', 'the index table occupies 256 bytes iff version >= 2 and ntrans > threshold, else 0: %s' % {k: fmt(v) for k, v in outs.items()}, fn=f)
    f = need(ANY + 'total_trans_size')
    if f:
        for p in rets(f):
            check3(ctx, R, eq3(rlin(p.ret()), TT), 'any:total_trans_size', 'inputs + deltas + index must occupy ntrans + ntrans*tsize + index bytes: %s' % rlin(p.ret()), fn=f)
    # ---- any-trans accessors -----------------------------------------------------------------------
    f = need(ANY + 'sizes')
    if f:
        for p in rets(f):
            rv = p.ret()
            idx = byte_index(rv[2][0]) if is_call(rv, 'PackSizes::decode') else None
            check_at('any:sizes', f, rlin(idx) if idx else None, START - NL - C(1), 'the sizes byte')
    f = need(ANY + 'ntrans')
    if f:
        seen = {}
        for p in rets(f):
            sn = guard_val(p, lambda e: e[0] == 'discr' and is_call(e[1], 'state_ntrans'))
            rv = p.ret()
            if sn == 1:
                seen['inline'] = any(is_call(x, 'state_ntrans') for x in walk(rv))
            else:
                one = guard_val(p, lambda e: e[0] == 'bin' and e[1] == 'Eq' and e[3] == ('const', 1))
                d = [x for x in p.decisions if x[2][0] == 'bin' and x[2][1] == 'Eq' and x[2][3] == ('const', 1)]
                idx = byte_index(d[-1][2][2]) if d else None
                if not d:
                    # `match data[at] { 1 => 256, n => n as usize }`: the same test as a switch on the byte itself
                    sw = [x for x in p.decisions if byte_index(x[2]) is not None and x[3] in (1, ('not', (1,)))]
                    if sw:
                        idx = byte_index(sw[-1][2])
                        one = 1 if sw[-1][3] == 1 else 0
                seen['count-at'] = rlin(idx) if idx else None
                if one == 1:
                    seen['one->256'] = rv == ('const', 256)
                else:
                    seen['n'] = byte_index(rv) is not None and eq(rlin(byte_index(rv)), START - C(1))
        ok = seen.get('inline') and eq(seen.get('count-at'), START - C(1)) and seen.get('one->256') and seen.get('n')
        ctx.check(R, bool(ok), 'any:ntrans', 'the transition count is the state byte\'s field, or the byte just before the state byte with 1 meaning 256: %s' % {k: (repr(v) if isinstance(v, Lin) else v) for k, v in seen.items()}, fn=f)
    base_any = START - NL - C(1)
    f = need(ANY + 'final_output')
    if f:
        for p in rets(f):
            rv = p.ret()
            if is_call(rv, 'Output::zero'):
                continue
            at = None
            w = None
            for x in walk(rv):
                if is_call(x, 'unpack_uint'):
                    at = slice_from(x[2][0])
                    w = rlin(x[2][1])
            check_at('any:final_output', f, rlin(at) if at else None, base_any - TT - NT_OS - OS, 'the final output')
            check3(ctx, R, eq3(w, OS), 'any:final_output-width', 'the final output must be read with the output width', fn=f)
            oz = width_zero(p)
            fin = guard_val(p, lambda e: is_call(e, 'is_final_state'))
            ctx.check(R, oz == 0 and fin == 1, 'any:final_output-guard', 'a final output is stored iff the node is final and the output width is non-zero', fn=f)
    f = need(ANY + 'end_addr')
    if f:
        for p in rets(f):
            fin = guard_val(p, lambda e: is_call(e, 'is_final_state'))
            want = base_any - TT - NT_OS - (OS if fin == 1 else C(0))
            check3(ctx, R, eq3(rlin(p.ret()), want), 'any:end_addr:final=%s' % fin, 'the first byte of a%s any-trans node is at %s, not at %s' % (' final' if fin else ' non-final', want, rlin(p.ret())), fn=f)
    f = need(ANY + 'trans_addr')
    if f:
        for p in rets(f):
            rv = p.ret()
            if is_call(rv, 'unpack_delta'):
                at = slice_from(rv[2][0])
                check_at('any:trans_addr', f, rlin(at) if at else None, base_any - IX - NT - I_TS - TS, 'the address delta of transition i')
                check3(ctx, R, eq3(rlin(rv[2][1]), TS) and rv[2][2][0] == 'field' and rv[2][2][2] == 'end', 'any:trans_addr-args', 'the delta must be read with the transition width and resolved against the node start', fn=f)
    f = need(ANY + 'input')
    if f:
        for p in rets(f):
            idx = byte_index(p.ret())
            check_at('any:input', f, rlin(idx) if idx else None, base_any - IX - I - C(1), 'the input byte of transition i')
    f = need(ANY + 'output')
    if f:
        for p in rets(f):
            rv = p.ret()
            if is_call(rv, 'Output::zero'):
                oz = width_zero(p)
                ctx.check(R, oz == 1, 'any:output-guard', 'outputs are absent iff the output width is 0', fn=f)
                continue
            for x in walk(rv):
                if is_call(x, 'unpack_uint'):
                    at = slice_from(x[2][0])
                    check_at('any:output', f, rlin(at) if at else None, base_any - TT - I_OS - OS, 'the output of transition i')
                    check3(ctx, R, eq3(rlin(x[2][1]), OS), 'any:output-width', 'outputs must be read with the output width', fn=f)
    f = need(ANY + 'find_input')
    if f:
        scan = {'slice': None, 'map': False, 'eq': False, 'none': False, 'form': None}
        for p in explore(f, max_visits=1, havoc=True):
            if p.end not in ('return', 'cut'):
                continue
            ng = guard_val(p, lambda e: e[0] == 'bin' and e[1] == 'Gt' and e[3] == ('citem', 'raw::node::TRANS_INDEX_THRESHOLD'))
            vg = guard_val(p, lambda e: e[0] == 'bin' and e[1] == 'Ge' and e[3] == ('const', 2))
            if ng == 1 and vg == 1:
                if p.end != 'return':
                    continue
                rv = p.ret()
                d = [x for x in p.decisions if x[2][0] == 'bin' and x[2][1] in ('Ge', 'Lt') and eq(rlin(x[2][3]), NT)]
                if not d:
                    other = [x for x in p.decisions if x[2][0] == 'bin' and x[2][1] in ('Eq', 'Ne', 'Ge', 'Lt', 'Gt', 'Le') and byte_index(x[2][2]) is not None]
                    # `match entry { 255 => None, i => Some(i) }`: a switch on the entry itself against fixed values
                    sw = [x for x in p.decisions if x[2][0] in ('index', 'cast') and byte_index(x[2]) is not None
                          and (isinstance(x[3], int) or (isinstance(x[3], tuple) and x[3] and x[3][0] == 'not'))]
                    if sw and not other:
                        ctx.violation(R2, 'index-path:absent-test', 'an index entry means "no transition" exactly when it is >= ntrans (the writer stores forward positions 0..ntrans-1, 255 only by default); '
                                      'found the entry matched against the fixed value(s) %s and never compared with ntrans: with 256 transitions every byte value is a real transition number'
                                      % (sw[-1][3] if isinstance(sw[-1][3], int) else list(sw[-1][3][1])), fn=f)
                    elif other:
                        ctx.violation(R2, 'index-path:absent-test', 'an index entry means "no transition" exactly when it is >= ntrans (the writer stores forward positions 0..ntrans-1, 255 only by default); '
                                      'found the test %s: with 256 transitions the entry 255 is a real transition' % fmt(other[-1][2])[:80], fn=f)
                    else:
                        ctx.undecided(R2, 'index-path', 'the index path of find_input has no "value >= ntrans" test', fn=f)
                    continue
                e, val = d[-1][2], d[-1][3]
                idx = byte_index(e[2])
                absent = (e[1] == 'Ge') == bool(val)
                _W = {'u8': 8, 'u16': 16, 'u32': 32, 'u64': 64, 'usize': 64, 'i8': 8, 'i16': 16, 'i32': 32, 'i64': 64, 'isize': 64}
                narrowed = [x for x in walk(e[3]) if x[0] == 'cast' and len(x) >= 5 and _W.get(x[2], 64) < 16 and _W.get(x[4], 64) > _W.get(x[2], 64)]
                if narrowed:
                    ctx.violation(R2, 'index-path:narrowed', 'the transition count is cut down to %s before the index entry is compared with it: a node has up to 256 transitions and 256 becomes 0, so every entry of a full node counts as "no transition"' % narrowed[0][2], fn=f)
                got = rlin(idx) if idx else None
                if got is None:
                    ctx.undecided(R2, 'index-path:offset', 'cannot reconstruct where the index entry of byte b is read', fn=f)
                else:
                    check3(ctx, R2, eq3(got, base_any - IX + B), 'index-path:offset', 'the index entry of byte b is read at %s, the layout puts the table at %s + b' % (got, base_any - IX), fn=f)
                if absent:
                    ctx.check(R2, rv[0] == 'agg' and rv[1].endswith('::None'), 'index-path:absent', 'an index entry >= ntrans must mean "no transition"', fn=f)
                else:
                    ctx.check(R2, rv[0] == 'agg' and rv[1].endswith('::Some') and byte_index(rv[2][0][1]) is not None, 'index-path:present', 'an index entry < ntrans is the (forward) transition number', fn=f)
                continue
            # ---- linear scan over the stored inputs: storage position p <-> transition ntrans - 1 - p --------
            for (k, bid, callee, args, t) in path_calls(p):
                if isinstance(callee, str) and callee.endswith('Index<I> for [T]>::index') and args[1][0] == 'agg' and args[1][1].endswith('ops::Range'):
                    rg = dict(args[1][2])
                    scan['slice'] = (rlin(rg.get('start')), rlin(rg.get('end')))
            if p.end == 'return':
                rv = p.ret()
                if is_call(rv, 'Option::<T>::map') and any(is_call(x, '::position') for x in walk(rv)):
                    scan['form'] = 'position+map'
                    for c in [x for x in walk(rv) if x[0] == 'closure']:
                        cf = lib.fns.get(c[1])
                        if cf is None:
                            continue
                        rr = [q.ret() for q in rets(cf)]
                        if len(rr) == 1 and rr[0][0] == 'bin' and rr[0][1] == 'Eq':
                            scan['eq'] = True
                        if len(rr) == 1 and mirrored(rr[0], lambda x: x[0] == 'param'):
                            scan['map'] = True
                    scan['none'] = True     # position() yields None when nothing matches
                elif is_call(rv, 'Option::<T>::map') and any(is_call(x, 'Iterator::find') for x in walk(rv)) and any(is_call(x, 'Iterator::zip') for x in walk(rv)):
                    # inputs.iter().zip((0..ntrans).rev()).find(|&(&b2, _)| b == b2).map(|(_, i)| i): storage position p is paired with
                    # ntrans - 1 - p by the reversed range
                    scan['form'] = 'zip-rev+find'
                    zp = [x for x in walk(rv) if is_call(x, 'Iterator::zip')][0]
                    rngs = [x for x in walk(zp[2][1]) if x[0] == 'agg' and x[1].endswith('ops::Range')]
                    rev = any(is_call(x, 'Iterator::rev') for x in walk(zp[2][1]))
                    okr = bool(rngs) and dict(rngs[0][2]).get('start') == ('const', 0) and eq(rlin(dict(rngs[0][2]).get('end')), NT) and rev and not any(is_call(x, 'Iterator::rev') for x in walk(zp[2][0]))
                    for c in [x for x in walk(rv) if x[0] == 'closure']:
                        cf = lib.fns.get(c[1])
                        if cf is None:
                            continue
                        rr = [q.ret() for q in rets(cf)]
                        if len(rr) == 1 and rr[0][0] == 'bin' and rr[0][1] == 'Eq':
                            scan['eq'] = True
                        if len(rr) == 1 and rr[0][0] == 'field' and rr[0][2] == '1' and rr[0][1][0] == 'param':
                            scan['map'] = okr          # the paired (mirrored) index is what is returned
                    scan['none'] = True
                elif rv[0] == 'agg' and rv[1].endswith('::Some'):
                    # explicit loop with early return
                    scan['form'] = scan['form'] or 'loop'
                    d = [x for x in p.decisions if x[2][0] == 'bin' and x[2][1] == 'Eq' and x[3] == 1 and any(y[0] == 'param' and (param_role(y) == 'B' or y[1] == 'b') for y in walk(x[2]))]
                    scan['eq'] = scan['eq'] or bool(d)
                    if mirrored(rv[2][0][1], lambda x: x[0] == 'field' and x[2] == '0' and any(is_call(y, '::next') for y in walk(x))):
                        src = None
                        from rules.layout import iter_source
                        for h in f.loops():
                            src = iter_source(f, h) or src
                        scan['map'] = src is not None and src[0] == 'fwd' and src[1]
                elif rv[0] == 'agg' and rv[1].endswith('::None'):
                    scan['none'] = True
        sl = scan['slice']
        ok_slice = sl is not None and sl[0] is not None and sl[1] is not None and (eq(sl[0], base_any - NT) or eq(sl[0], base_any - NT - IX)) and eq(sl[1] - sl[0], NT)
        # a second search beside the verified scan (a bisection for mid-sized nodes, a hand-written loop): its arithmetic is not judged
        if scan['form'] in ('position+map', 'zip-rev+find') and f.loops():
            ctx.undecided(R2, 'scan-path:extra-search', 'find_input contains a loop besides the iterator scan that was verified: that search path is not checked', fn=f)
        ctx.check(R2, bool(ok_slice and scan['map'] and scan['eq'] and scan['none']), 'scan-path',
                  'without an index exactly the stored inputs [start-of-inputs, +ntrans) are scanned for the probe byte and storage position p means transition ntrans-1-p (inputs are stored in reverse): slice %s, mirrored index %s, equality test %s, miss -> None %s (%s)' % (
                      sl, scan['map'], scan['eq'], scan['none'], scan['form']), fn=f)
    # ---- one-trans -------------------------------------------------------------------------------------
    base_one = START - IL - C(1)
    f = need(ONE + 'sizes')
    if f:
        for p in rets(f):
            rv = p.ret()
            idx = byte_index(rv[2][0]) if is_call(rv, 'PackSizes::decode') else None
            check_at('one:sizes', f, rlin(idx) if idx else None, base_one, 'the sizes byte')
    f = need(ONE + 'end_addr')
    if f:
        for p in rets(f):
            check3(ctx, R, eq3(rlin(p.ret()), base_one - TS - OS), 'one:end_addr', 'the first byte of a one-trans node is at %s, not %s' % (base_one - TS - OS, rlin(p.ret())), fn=f)
    f = need(ONE + 'output')
    if f:
        for p in rets(f):
            rv = p.ret()
            oz = width_zero(p)
            if is_call(rv, 'Output::zero'):
                if oz is not None:
                    ctx.check(R, oz == 1, 'one:output-guard', 'the output of a one-trans node is absent (zero) iff its output width is 0', fn=f)
                continue
            if oz is not None and any(is_call(x, 'unpack_uint') for x in walk(rv)):
                ctx.check(R, oz == 0, 'one:output-guard', 'the output of a one-trans node is read from the node only when its output width is non-zero', fn=f)
            for x in walk(rv):
                if is_call(x, 'unpack_uint'):
                    at = slice_from(x[2][0])
                    check_at('one:output', f, rlin(at) if at else None, base_one - TS - OS, 'the output')
                    check3(ctx, R, eq3(rlin(x[2][1]), OS), 'one:output-width', 'the output must be read with the output width', fn=f)
    f = need(ONE + 'trans_addr')
    if f:
        for p in rets(f):
            rv = p.ret()
            if is_call(rv, 'unpack_delta'):
                at = slice_from(rv[2][0])
                check_at('one:trans_addr', f, rlin(at) if at else None, base_one - TS, 'the address delta')
                check3(ctx, R, eq3(rlin(rv[2][1]), TS) and rv[2][2][0] == 'field' and rv[2][2][2] == 'end', 'one:trans_addr-args', 'the delta must be read with the transition width and resolved against the node start', fn=f)
    for ty, tag in ((ONE, 'one'), (NEXT, 'next')):
        f = need(ty + 'input')
        if f:
            seen = {}
            for p in rets(f):
                ci = guard_val(p, lambda e: e[0] == 'discr' and is_call(e[1], 'common_input'))
                rv = p.ret()
                if ci == 1:
                    seen['common'] = rv[0] == 'field' and any(is_call(x, 'common_input') for x in walk(rv))
                else:
                    idx = byte_index(rv)
                    seen['explicit'] = eq(rlin(idx) if idx else None, START - C(1))
            ctx.check(R, seen.get('common') and seen.get('explicit'), tag + ':input', 'the input byte is the common input if the index is non-zero, else the byte just before the state byte (%s)' % seen, fn=f)
    f = need(NEXT + 'end_addr')
    if f:
        for p in rets(f):
            check3(ctx, R, eq3(rlin(p.ret()), START - IL), 'next:end_addr', 'the first byte of a one-trans-next node is at %s, not %s' % (START - IL, rlin(p.ret())), fn=f)
    f = need(NEXT + 'trans_addr')
    if f:
        for p in rets(f):
            rv = p.ret()
            while rv[0] == 'cast':
                rv = rv[1]
            ok = rv[0] == 'bin' and rv[1] == 'Sub' and rv[2][0] == 'field' and rv[2][2] == 'end' and rv[3] == ('const', 1)
            ctx.check(R, ok, 'next:trans_addr', 'a one-trans-next node points at the byte just before its own first byte', fn=f)
    # ---- Node::new wiring ------------------------------------------------------------------------------
    f = need(NODE + 'new')
    if f:
        seen = set()
        for p in rets(f):
            rv = p.ret()
            if rv[0] != 'agg':
                continue
            fd = dict(rv[2])
            st = fd.get('state')
            kind = None
            for x in walk(st) if st is not None else []:
                if x[0] == 'agg' and x[1].startswith('raw::node::State::'):
                    kind = x[1].rsplit('::', 1)[-1]
            if kind is None and st is not None:
                d = [x for x in p.decisions if x[2][0] == 'discr' and is_call(x[2][1], 'State::new')]
                a = lib.adts.get('raw::node::State')
                if d and a and isinstance(d[-1][3], int):
                    kind = a['variants'][d[-1][3]]['name']
            if kind is None:
                continue
            seen.add(kind)
            addr = ('param', f.local_name(2), 2)
            if kind == 'EmptyFinal':
                ok = fd.get('is_final') == ('const', 1) and fd.get('ntrans') == ('const', 0) and is_call(fd.get('final_output'), 'Output::zero')
                ctx.check(R, ok, 'new:EmptyFinal', 'the empty final node must be final, without transitions, with zero final output', fn=f)
                continue
            data = fd.get('data')
            okd = is_call(data, 'Index<I> for [T]>::index') and data[2][1][0] == 'agg' and data[2][1][1].endswith('RangeTo') and \
                dict(data[2][1][2]).get('end') == ('bin', 'Add', addr, ('const', 1)) and fd.get('start') == addr
            ctx.check(R, okd, 'new:%s:window' % kind, 'a node\'s data window must end with its state byte (data[..addr+1], start = addr)', fn=f)
            oke = is_call(fd.get('end'), 'end_addr')
            okf = (kind == 'AnyTrans' and is_call(fd.get('is_final'), 'is_final_state')) or (kind != 'AnyTrans' and fd.get('is_final') == ('const', 0))
            okn = (kind == 'AnyTrans' and is_call(fd.get('ntrans'), '::ntrans')) or (kind != 'AnyTrans' and fd.get('ntrans') == ('const', 1))
            okfo = (kind == 'AnyTrans' and is_call(fd.get('final_output'), '::final_output')) or (kind != 'AnyTrans' and is_call(fd.get('final_output'), 'Output::zero'))
            oks = (kind == 'OneTransNext' and is_call(fd.get('sizes'), 'PackSizes::new')) or (kind != 'OneTransNext' and is_call(fd.get('sizes'), '::sizes'))
            ctx.check(R, oke and okf and okn and okfo and oks, 'new:%s:fields' % kind, 'decoded node fields (end, is_final, ntrans, sizes, final_output) are not taken from the %s accessors' % kind, fn=f,
                      detail={k: fmt(v)[:50] for k, v in fd.items() if k in ('end', 'is_final', 'ntrans', 'sizes', 'final_output')})
        ctx.check(R, seen == {'EmptyFinal', 'OneTransNext', 'OneTrans', 'AnyTrans'}, 'new:forms', 'Node::new does not decode all four node forms (%s)' % sorted(seen), fn=f)
    # ---- per-form dispatch of the public probes ---------------------------------------------------------
    st_adt = lib.adts.get('raw::node::State')
    vnames = [v['name'] for v in st_adt['variants']] if st_adt else []

    def form_of(p):
        d = [x for x in p.cdecisions() if x[2][0] == 'discr' and x[2][1][0] == 'field' and x[2][1][2] == 'state']
        return vnames[d[-1][3]] if d and isinstance(d[-1][3], int) and d[-1][3] < len(vnames) else None
    f = need(NODE + 'find_input')
    if f and vnames:
        seen = {}
        for p in rets(f):
            form = form_of(p)
            rv = p.ret()
            if form in ('OneTransNext', 'OneTrans'):
                # Some(0) exactly when the node's single input byte equals the probe byte
                d = [x for x in p.decisions if x[2][0] == 'bin' and x[2][1] in ('Eq', 'Ne', 'Lt', 'Le', 'Gt', 'Ge') and any(is_call(y, '::input') for y in walk(x[2])) and any(y[0] == 'param' and param_role(y) == 'B' for y in walk(x[2]))]
                if not d:
                    hit = rv[0] == 'agg' and rv[1].endswith('::Some')
                    # a hit that was not decided by comparing the node's own (decoded) input byte with the probe byte is not
                    # justified by anything this rule can see; a miss without such a comparison is merely unrecognised
                    seen.setdefault(form, []).append(False if hit else None)
                    continue
                if d[-1][2][1] not in ('Eq', 'Ne'):
                    seen.setdefault(form, []).append(False)       # an ordering test where equality is required
                    continue
                equal = (d[-1][2][1] == 'Eq') == bool(d[-1][3])
                good = (rv[0] == 'agg' and rv[1].endswith('::Some') and rv[2][0][1] == ('const', 0)) if equal else (rv[0] == 'agg' and rv[1].endswith('::None'))
                own = any(is_call(y, '::input') and ('State' + form + '::') in y[1] for y in walk(d[-1][2]))
                seen.setdefault(form, []).append(good and own)
            elif form == 'AnyTrans':
                seen.setdefault(form, []).append(rv[0] == 'call' and rv[1].endswith('StateAnyTrans::find_input') and any(y[0] == 'param' and param_role(y) == 'B' for y in walk(rv[2][2])))
            elif form == 'EmptyFinal':
                seen.setdefault(form, []).append(rv[0] == 'agg' and rv[1].endswith('::None'))
        for form in ('OneTransNext', 'OneTrans', 'AnyTrans', 'EmptyFinal'):
            v = seen.get(form)
            if v and any(x is False for x in v):
                v = [x for x in v if x is not None]
            if not v or any(x is None for x in v):
                ctx.undecided(R2, 'find_input:' + form, 'the %s arm of Node::find_input was not recognised' % form, fn=f)
            else:
                ctx.check(R2, all(v), 'find_input:' + form,
                          {'OneTransNext': 'a one-trans-next node has transition 0 exactly for its own input byte', 'OneTrans': 'a one-trans node has transition 0 exactly for its own input byte',
                           'AnyTrans': 'an any-trans node must look the probe byte up in its own table / scan', 'EmptyFinal': 'the empty final node has no transitions'}[form], fn=f)
    f = need(NODE + 'transition_addr')
    if f and vnames:
        seen = {}
        for p in rets(f):
            form = form_of(p)
            rv = p.ret()
            if form in ('OneTransNext', 'OneTrans', 'AnyTrans'):
                ok = is_call(rv, '::trans_addr') and ('State' + form + '::') in rv[1] and (form != 'AnyTrans' or any(y[0] == 'param' and param_role(y) == 'I' for y in walk(rv[2][-1])))
                seen.setdefault(form, []).append(ok)
        for form in ('OneTransNext', 'OneTrans', 'AnyTrans'):
            v = seen.get(form)
            if not v:
                ctx.undecided(R, 'transition_addr:' + form, 'the %s arm of Node::transition_addr was not recognised' % form, fn=f)
            else:
                ctx.check(R, all(v), 'transition_addr:' + form, 'the target of transition i must come from the address accessor of the node\'s own form', fn=f)
    f = need(NODE + 'transition')
    if f:
        seen = {}
        for p in rets(f):
            rv = p.ret()
            if rv[0] != 'agg' or rv[1] != 'raw::Transition':
                continue
            fd = dict(rv[2])
            callee_ty = None
            for x in walk(fd.get('addr')):
                if is_call(x, '::trans_addr'):
                    callee_ty = x[1].rsplit('::', 2)[-2]
            ok = is_call(fd.get('inp'), '::input') and is_call(fd.get('addr'), '::trans_addr') and (is_call(fd.get('out'), '::output') or (callee_ty == 'StateOneTransNext' and is_call(fd.get('out'), 'Output::zero')))
            same = len({x[1].rsplit('::', 2)[-2] for k in ('inp', 'addr', 'out') for x in walk(fd[k]) if x[0] == 'call' and 'State' in str(x[1])}) == 1
            seen[callee_ty] = ok and same
        ctx.check(R, all(seen.values()) and set(seen) == {'StateOneTransNext', 'StateOneTrans', 'StateAnyTrans'}, 'transition', 'Node::transition must assemble (input, output, target) from the accessors of the node\'s own form (%s)' % seen, fn=f)
