"""Reader half of family F1: byte offsets, widths and guards of every node accessor against the format table."""
from lin import Lin
from paths import explore
from sym import fmt, walk, const_eval
from rules.common import path_calls, ret_kind
from rules.streams import norm, is_call

ANY = 'raw::node::StateAnyTrans::'
ONE = 'raw::node::StateOneTrans::'
NEXT = 'raw::node::StateOneTransNext::'
NODE = "raw::node::Node::<'f>::"


def A(name):
    return Lin.atom(name)


def C(v):
    return Lin.const(v)


START, NL, IL, NT, TS, OS, IX, I, B = (A(x) for x in ('START', 'NL', 'IL', 'NT', 'TS', 'OS', 'IX', 'I', 'B'))
NT_TS = A('NT*TS')
NT_OS = A('NT*OS')
I_TS = A('I*TS')
I_OS = A('I*OS')
TT = NT + NT_TS + IX                      # inputs + deltas + index


def prod(a, b):
    """product of two linear forms when both are single named atoms (or one is constant)"""
    if a.is_const():
        return b.scale(a.c)
    if b.is_const():
        return a.scale(b.c)
    if len(a.t) == 1 and len(b.t) == 1 and a.c == 0 and b.c == 0:
        (x, cx), = a.t.items()
        (y, cy), = b.t.items()
        names = sorted([x, y], key=lambda s: (0 if s in ('NT', 'I') else 1, s))
        return Lin({'%s*%s' % (names[0], names[1]): cx * cy}, 0)
    return None


def rlin(e):
    """linear form of a reader offset expression over the named atoms, or None"""
    if not isinstance(e, tuple):
        return None
    h = e[0]
    if h == 'const':
        return C(e[1])
    if h == 'cast':
        return rlin(e[1])
    if h == 'citem':
        return None
    if h == 'bin':
        op = e[1]
        a, b = rlin(e[2]), rlin(e[3])
        if a is None or b is None:
            return None
        if op in ('Add',):
            return a + b
        if op in ('Sub',):
            return a - b
        if op in ('Mul',):
            return prod(a, b)
        return None
    if h == 'field' and e[1][0] == 'param':
        return {'start': START, 'ntrans': NT}.get(e[2])
    if h == 'param':
        return {'ntrans': NT, 'i': I, 'b': B}.get(e[1])
    if h == 'len' and e[1][0] == 'param' and e[1][1] == 'data':
        return START + C(1)
    if h == 'call' and isinstance(e[1], str):
        if e[1].endswith('<impl [T]>::len') and e[2][0][0] == 'param' and e[2][0][1] == 'data':
            return START + C(1)
        m = e[1].rsplit('::', 1)[-1]
        if m == 'ntrans_len':
            return NL
        if m == 'input_len':
            return IL
        if m == 'trans_index_size':
            return IX
        if m == 'total_trans_size':
            return TT
        if m == 'transition_pack_size':
            return TS
        if m == 'output_pack_size':
            return OS
    return None


def byte_index(e):
    """for data[IDX] / node.data[IDX] return IDX"""
    if e[0] == 'cast':
        return byte_index(e[1])
    if e[0] == 'index' and isinstance(e[2], tuple):
        base = e[1]
        if (base[0] == 'param' and base[1] == 'data') or (base[0] == 'field' and base[2] == 'data'):
            return e[2]
    return None


def slice_from(e):
    """for &data[at..] return at"""
    if is_call(e, 'Index<I> for [T]>::index') and e[2][1][0] == 'agg' and e[2][1][1].endswith('RangeFrom'):
        base = e[2][0]
        if (base[0] == 'param' and base[1] == 'data') or (base[0] == 'field' and base[2] == 'data'):
            return dict(e[2][1][2]).get('start')
    return None


def eq(a, b):
    if a is None or b is None:
        return False
    d = a - b
    return d.is_const() and d.c == 0


def rets(f, havoc=False):
    return [p for p in explore(f, max_visits=1, havoc=havoc) if p.end == 'return']


def guard_val(p, pred):
    d = [x for x in p.decisions if pred(x[2])]
    return d[-1][3] if d else None


def run(ctx, R, R2):
    """R = R01.1 (offsets); R2 = R02.2 (scan/index agreement)"""
    lib = ctx.lib

    def need(path):
        f = lib.fn(path)
        if f is None:
            ctx.missing(R, 'anchor:' + path, 'accessor %s not found' % path)
        return f

    def check_at(name, f, got, want, what):
        ctx.check(R, eq(got, want), name, '%s reads at offset %s but the layout puts it at %s' % (what, got, want), fn=f, detail={'offset': repr(got), 'layout': repr(want)})

    # ---- helpers -----------------------------------------------------------------------------
    f = need(ANY + 'ntrans_len')
    if f:
        seen = {}
        for p in rets(f):
            v = guard_val(p, lambda e: is_call(e, 'Option::<T>::is_none') and is_call(e[2][0], 'state_ntrans'))
            seen[v] = p.ret()
        ctx.check(R, seen.get(1) == ('const', 1) and seen.get(0) == ('const', 0), 'any:ntrans_len', 'the count byte is present iff the state byte\'s count field is 0', fn=f)
    for ty in (ONE, NEXT):
        f = need(ty + 'input_len')
        if f:
            seen = {}
            for p in rets(f):
                v = guard_val(p, lambda e: is_call(e, 'Option::<T>::is_none') and is_call(e[2][0], 'common_input'))
                seen[v] = p.ret()
            ctx.check(R, seen.get(1) == ('const', 1) and seen.get(0) == ('const', 0), ty.rsplit('::', 2)[-2] + ':input_len', 'the explicit input byte is present iff the common-input index is 0', fn=f)
    f = need(ANY + 'trans_index_size')
    if f:
        outs = {}
        for p in rets(f):
            vg = guard_val(p, lambda e: e[0] == 'bin' and e[1] == 'Ge' and e[3] == ('const', 2))
            ng = guard_val(p, lambda e: e[0] == 'bin' and e[1] == 'Gt' and e[3] == ('citem', 'raw::node::TRANS_INDEX_THRESHOLD'))
            outs[(vg, ng)] = p.ret()
        ok = outs.get((1, 1)) == ('const', 256) and all(v == ('const', 0) for k, v in outs.items() if k != (1, 1)) and len(outs) >= 2
        ctx.check(R, ok, 'any:trans_index_size', 'the index table occupies 256 bytes iff version >= 2 and ntrans > threshold, else 0: %s' % {k: fmt(v) for k, v in outs.items()}, fn=f)
    f = need(ANY + 'total_trans_size')
    if f:
        for p in rets(f):
            ctx.check(R, eq(rlin(p.ret()), TT), 'any:total_trans_size', 'inputs + deltas + index must occupy ntrans + ntrans*tsize + index bytes: %s' % rlin(p.ret()), fn=f)
    # ---- any-trans accessors -----------------------------------------------------------------------
    f = need(ANY + 'sizes')
    if f:
        for p in rets(f):
            rv = p.ret()
            idx = byte_index(rv[2][0]) if is_call(rv, 'PackSizes::decode') else None
            check_at('any:sizes', f, rlin(idx) if idx else None, START - NL - C(1), 'the sizes byte')
    f = need(ANY + 'ntrans')
    if f:
        seen = {}
        for p in rets(f):
            sn = guard_val(p, lambda e: e[0] == 'discr' and is_call(e[1], 'state_ntrans'))
            rv = p.ret()
            if sn == 1:
                seen['inline'] = any(is_call(x, 'state_ntrans') for x in walk(rv))
            else:
                one = guard_val(p, lambda e: e[0] == 'bin' and e[1] == 'Eq' and e[3] == ('const', 1))
                d = [x for x in p.decisions if x[2][0] == 'bin' and x[2][1] == 'Eq' and x[2][3] == ('const', 1)]
                idx = byte_index(d[-1][2][2]) if d else None
                seen['count-at'] = rlin(idx) if idx else None
                if one == 1:
                    seen['one->256'] = rv == ('const', 256)
                else:
                    seen['n'] = byte_index(rv) is not None and eq(rlin(byte_index(rv)), START - C(1))
        ok = seen.get('inline') and eq(seen.get('count-at'), START - C(1)) and seen.get('one->256') and seen.get('n')
        ctx.check(R, bool(ok), 'any:ntrans', 'the transition count is the state byte\'s field, or the byte just before the state byte with 1 meaning 256: %s' % {k: (repr(v) if isinstance(v, Lin) else v) for k, v in seen.items()}, fn=f)
    base_any = START - NL - C(1)
    f = need(ANY + 'final_output')
    if f:
        for p in rets(f):
            rv = p.ret()
            if is_call(rv, 'Output::zero'):
                continue
            at = None
            w = None
            for x in walk(rv):
                if is_call(x, 'unpack_uint'):
                    at = slice_from(x[2][0])
                    w = rlin(x[2][1])
            check_at('any:final_output', f, rlin(at) if at else None, base_any - TT - NT_OS - OS, 'the final output')
            ctx.check(R, eq(w, OS), 'any:final_output-width', 'the final output must be read with the output width', fn=f)
            oz = guard_val(p, lambda e: e[0] == 'bin' and e[1] == 'Eq' and eq(rlin(e[2]), OS) and e[3] == ('const', 0))
            fin = guard_val(p, lambda e: is_call(e, 'is_final_state'))
            ctx.check(R, oz == 0 and fin == 1, 'any:final_output-guard', 'a final output is stored iff the node is final and the output width is non-zero', fn=f)
    f = need(ANY + 'end_addr')
    if f:
        for p in rets(f):
            fin = guard_val(p, lambda e: is_call(e, 'is_final_state'))
            want = base_any - TT - NT_OS - (OS if fin == 1 else C(0))
            ctx.check(R, eq(rlin(p.ret()), want), 'any:end_addr:final=%s' % fin, 'the first byte of a%s any-trans node is at %s, not at %s' % (' final' if fin else ' non-final', want, rlin(p.ret())), fn=f)
    f = need(ANY + 'trans_addr')
    if f:
        for p in rets(f):
            rv = p.ret()
            if is_call(rv, 'unpack_delta'):
                at = slice_from(rv[2][0])
                check_at('any:trans_addr', f, rlin(at) if at else None, base_any - IX - NT - I_TS - TS, 'the address delta of transition i')
                ctx.check(R, eq(rlin(rv[2][1]), TS) and rv[2][2][0] == 'field' and rv[2][2][2] == 'end', 'any:trans_addr-args', 'the delta must be read with the transition width and resolved against the node start', fn=f)
    f = need(ANY + 'input')
    if f:
        for p in rets(f):
            idx = byte_index(p.ret())
            check_at('any:input', f, rlin(idx) if idx else None, base_any - IX - I - C(1), 'the input byte of transition i')
    f = need(ANY + 'output')
    if f:
        for p in rets(f):
            rv = p.ret()
            if is_call(rv, 'Output::zero'):
                oz = guard_val(p, lambda e: e[0] == 'bin' and e[1] == 'Eq' and eq(rlin(e[2]), OS) and e[3] == ('const', 0))
                ctx.check(R, oz == 1, 'any:output-guard', 'outputs are absent iff the output width is 0', fn=f)
                continue
            for x in walk(rv):
                if is_call(x, 'unpack_uint'):
                    at = slice_from(x[2][0])
                    check_at('any:output', f, rlin(at) if at else None, base_any - TT - I_OS - OS, 'the output of transition i')
                    ctx.check(R, eq(rlin(x[2][1]), OS), 'any:output-width', 'outputs must be read with the output width', fn=f)
    f = need(ANY + 'find_input')
    if f:
        for p in rets(f):
            rv = p.ret()
            ng = guard_val(p, lambda e: e[0] == 'bin' and e[1] == 'Gt' and e[3] == ('citem', 'raw::node::TRANS_INDEX_THRESHOLD'))
            vg = guard_val(p, lambda e: e[0] == 'bin' and e[1] == 'Ge' and e[3] == ('const', 2))
            if ng == 1 and vg == 1:
                d = [x for x in p.decisions if x[2][0] == 'bin' and x[2][1] in ('Ge', 'Lt') and eq(rlin(x[2][3]), NT)]
                if not d:
                    ctx.undecided(R2, 'index-path', 'the index path of find_input has no "value >= ntrans" test', fn=f)
                    continue
                e, val = d[-1][2], d[-1][3]
                idx = byte_index(e[2])
                absent = (e[1] == 'Ge') == bool(val)
                ctx.check(R2, eq(rlin(idx) if idx else None, base_any - IX + B), 'index-path:offset', 'the index entry of byte b is read at %s, the layout puts the table at %s + b' % (rlin(idx) if idx else None, base_any - IX), fn=f)
                if absent:
                    ctx.check(R2, rv[0] == 'agg' and rv[1].endswith('::None'), 'index-path:absent', 'an index entry >= ntrans must mean "no transition"', fn=f)
                else:
                    ctx.check(R2, rv[0] == 'agg' and rv[1].endswith('::Some') and byte_index(rv[2][0][1]) is not None, 'index-path:present', 'an index entry < ntrans is the (forward) transition number', fn=f)
            else:
                # linear scan over the stored inputs: storage position p <-> transition ntrans - 1 - p
                sl = [x for x in walk(rv) if is_call(x, 'Index<I> for [T]>::index') and x[2][1][0] == 'agg' and x[2][1][1].endswith('ops::Range')]
                ok = False
                why = fmt(rv)[:100]
                if len(sl) >= 1 and is_call(rv, 'Option::<T>::map'):
                    rg = dict(sl[0][2][1][2])
                    s, en = rlin(rg.get('start')), rlin(rg.get('end'))
                    want_s = base_any - NT        # IX = 0 on this path
                    pos = [x for x in walk(rv) if is_call(x, '::position')]
                    clo = [x for x in walk(rv) if x[0] == 'closure']
                    okmap = okeq = False
                    for c in clo:
                        cf = lib.fns.get(c[1])
                        if cf is None:
                            continue
                        rr = [q.ret() for q in rets(cf)]
                        if len(rr) == 1 and rr[0][0] == 'bin' and rr[0][1] == 'Eq':
                            okeq = True
                        if len(rr) == 1:
                            l = rr[0]
                            # ntrans - i - 1
                            if l[0] == 'bin' and l[1] == 'Sub' and l[3] == ('const', 1) and l[2][0] == 'bin' and l[2][1] == 'Sub' and l[2][3][0] == 'param' and any(x[0] == 'field' and x[2] == 'ntrans' for x in walk(l[2][2])):
                                okmap = True
                    ok = (eq(s, want_s) or eq(s, want_s - IX)) and eq(en - s, NT) and bool(pos) and okmap and okeq
                    why = 'slice [%s, %s), position->index map ok: %s, equality predicate: %s' % (s, en, okmap, okeq)
                ctx.check(R2, ok, 'scan-path', 'without an index the inputs [start-of-inputs, +ntrans) are scanned and storage position p means transition ntrans-1-p (inputs are stored in reverse): %s' % why, fn=f)
    # ---- one-trans -------------------------------------------------------------------------------------
    base_one = START - IL - C(1)
    f = need(ONE + 'sizes')
    if f:
        for p in rets(f):
            rv = p.ret()
            idx = byte_index(rv[2][0]) if is_call(rv, 'PackSizes::decode') else None
            check_at('one:sizes', f, rlin(idx) if idx else None, base_one, 'the sizes byte')
    f = need(ONE + 'end_addr')
    if f:
        for p in rets(f):
            ctx.check(R, eq(rlin(p.ret()), base_one - TS - OS), 'one:end_addr', 'the first byte of a one-trans node is at %s, not %s' % (base_one - TS - OS, rlin(p.ret())), fn=f)
    f = need(ONE + 'output')
    if f:
        for p in rets(f):
            rv = p.ret()
            if is_call(rv, 'Output::zero'):
                continue
            for x in walk(rv):
                if is_call(x, 'unpack_uint'):
                    at = slice_from(x[2][0])
                    check_at('one:output', f, rlin(at) if at else None, base_one - TS - OS, 'the output')
                    ctx.check(R, eq(rlin(x[2][1]), OS), 'one:output-width', 'the output must be read with the output width', fn=f)
    f = need(ONE + 'trans_addr')
    if f:
        for p in rets(f):
            rv = p.ret()
            if is_call(rv, 'unpack_delta'):
                at = slice_from(rv[2][0])
                check_at('one:trans_addr', f, rlin(at) if at else None, base_one - TS, 'the address delta')
                ctx.check(R, eq(rlin(rv[2][1]), TS) and rv[2][2][0] == 'field' and rv[2][2][2] == 'end', 'one:trans_addr-args', 'the delta must be read with the transition width and resolved against the node start', fn=f)
    for ty, tag in ((ONE, 'one'), (NEXT, 'next')):
        f = need(ty + 'input')
        if f:
            seen = {}
            for p in rets(f):
                ci = guard_val(p, lambda e: e[0] == 'discr' and is_call(e[1], 'common_input'))
                rv = p.ret()
                if ci == 1:
                    seen['common'] = rv[0] == 'field' and any(is_call(x, 'common_input') for x in walk(rv))
                else:
                    idx = byte_index(rv)
                    seen['explicit'] = eq(rlin(idx) if idx else None, START - C(1))
            ctx.check(R, seen.get('common') and seen.get('explicit'), tag + ':input', 'the input byte is the common input if the index is non-zero, else the byte just before the state byte (%s)' % seen, fn=f)
    f = need(NEXT + 'end_addr')
    if f:
        for p in rets(f):
            ctx.check(R, eq(rlin(p.ret()), START - IL), 'next:end_addr', 'the first byte of a one-trans-next node is at %s, not %s' % (START - IL, rlin(p.ret())), fn=f)
    f = need(NEXT + 'trans_addr')
    if f:
        for p in rets(f):
            rv = p.ret()
            while rv[0] == 'cast':
                rv = rv[1]
            ok = rv[0] == 'bin' and rv[1] == 'Sub' and rv[2][0] == 'field' and rv[2][2] == 'end' and rv[3] == ('const', 1)
            ctx.check(R, ok, 'next:trans_addr', 'a one-trans-next node points at the byte just before its own first byte', fn=f)
    # ---- Node::new wiring ------------------------------------------------------------------------------
    f = need(NODE + 'new')
    if f:
        seen = set()
        for p in rets(f):
            rv = p.ret()
            if rv[0] != 'agg':
                continue
            fd = dict(rv[2])
            st = fd.get('state')
            kind = None
            for x in walk(st) if st is not None else []:
                if x[0] == 'agg' and x[1].startswith('raw::node::State::'):
                    kind = x[1].rsplit('::', 1)[-1]
            if kind is None and st is not None:
                d = [x for x in p.decisions if x[2][0] == 'discr' and is_call(x[2][1], 'State::new')]
                a = lib.adts.get('raw::node::State')
                if d and a and isinstance(d[-1][3], int):
                    kind = a['variants'][d[-1][3]]['name']
            if kind is None:
                continue
            seen.add(kind)
            addr = ('param', f.local_name(2), 2)
            if kind == 'EmptyFinal':
                ok = fd.get('is_final') == ('const', 1) and fd.get('ntrans') == ('const', 0) and is_call(fd.get('final_output'), 'Output::zero')
                ctx.check(R, ok, 'new:EmptyFinal', 'the empty final node must be final, without transitions, with zero final output', fn=f)
                continue
            data = fd.get('data')
            okd = is_call(data, 'Index<I> for [T]>::index') and data[2][1][0] == 'agg' and data[2][1][1].endswith('RangeTo') and \
                dict(data[2][1][2]).get('end') == ('bin', 'Add', addr, ('const', 1)) and fd.get('start') == addr
            ctx.check(R, okd, 'new:%s:window' % kind, 'a node\'s data window must end with its state byte (data[..addr+1], start = addr)', fn=f)
            oke = is_call(fd.get('end'), 'end_addr')
            okf = (kind == 'AnyTrans' and is_call(fd.get('is_final'), 'is_final_state')) or (kind != 'AnyTrans' and fd.get('is_final') == ('const', 0))
            okn = (kind == 'AnyTrans' and is_call(fd.get('ntrans'), '::ntrans')) or (kind != 'AnyTrans' and fd.get('ntrans') == ('const', 1))
            okfo = (kind == 'AnyTrans' and is_call(fd.get('final_output'), '::final_output')) or (kind != 'AnyTrans' and is_call(fd.get('final_output'), 'Output::zero'))
            oks = (kind == 'OneTransNext' and is_call(fd.get('sizes'), 'PackSizes::new')) or (kind != 'OneTransNext' and is_call(fd.get('sizes'), '::sizes'))
            ctx.check(R, oke and okf and okn and okfo and oks, 'new:%s:fields' % kind, 'decoded node fields (end, is_final, ntrans, sizes, final_output) are not taken from the %s accessors' % kind, fn=f,
                      detail={k: fmt(v)[:50] for k, v in fd.items() if k in ('end', 'is_final', 'ntrans', 'sizes', 'final_output')})
        ctx.check(R, seen == {'EmptyFinal', 'OneTransNext', 'OneTrans', 'AnyTrans'}, 'new:forms', 'Node::new does not decode all four node forms (%s)' % sorted(seen), fn=f)
    f = need(NODE + 'transition')
    if f:
        seen = {}
        for p in rets(f):
            rv = p.ret()
            if rv[0] != 'agg' or rv[1] != 'raw::Transition':
                continue
            fd = dict(rv[2])
            callee_ty = None
            for x in walk(fd.get('addr')):
                if is_call(x, '::trans_addr'):
                    callee_ty = x[1].rsplit('::', 2)[-2]
            ok = is_call(fd.get('inp'), '::input') and is_call(fd.get('addr'), '::trans_addr') and (is_call(fd.get('out'), '::output') or (callee_ty == 'StateOneTransNext' and is_call(fd.get('out'), 'Output::zero')))
            same = len({x[1].rsplit('::', 2)[-2] for k in ('inp', 'addr', 'out') for x in walk(fd[k]) if x[0] == 'call' and 'State' in str(x[1])}) == 1
            seen[callee_ty] = ok and same
        ctx.check(R, all(seen.values()) and set(seen) == {'StateOneTransNext', 'StateOneTrans', 'StateAnyTrans'}, 'transition', 'Node::transition must assemble (input, output, target) from the accessors of the node\'s own form (%s)' % seen, fn=f)
