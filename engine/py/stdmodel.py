"""Trusted summaries of std items (DESIGN.md Appendix B).  Matching is on resolved paths as printed by
rustc's def_path_str; generic arguments are not part of the path."""
import re

# ---- panic sources --------------------------------------------------------------------------
PANIC_FNS = (
    'core::panicking::panic', 'core::panicking::panic_fmt', 'core::panicking::panic_explicit',
    'core::panicking::panic_display', 'core::panicking::panic_str', 'core::panicking::panic_nounwind',
    'core::panicking::assert_failed', 'core::panicking::assert_failed_inner', 'core::panicking::unreachable_display',
    'std::rt::begin_panic', 'std::rt::panic_fmt', 'core::option::expect_failed', 'core::option::unwrap_failed',
    'core::result::unwrap_failed', 'core::slice::index::slice_index_fail', 'core::panicking::panic_bounds_check',
    'std::process::abort', 'std::process::exit', 'core::panicking::panic_const',
)


def is_panic_fn(path):
    if not isinstance(path, str):
        return False
    if path in PANIC_FNS:
        return True
    return path.startswith('core::panicking::') or path.startswith('std::rt::begin_panic') or path.startswith('core::panicking::panic_const::')


UNWRAP_SOME = ('std::option::Option::<T>::unwrap', 'std::option::Option::<T>::expect')
UNWRAP_OK = ('std::result::Result::<T, E>::unwrap', 'std::result::Result::<T, E>::expect')
UNWRAP_ERR = ('std::result::Result::<T, E>::unwrap_err', 'std::result::Result::<T, E>::expect_err')

SLICE_INDEX = 'core::slice::index::<impl std::ops::Index<I> for [T]>::index'
SLICE_INDEX_MUT = 'core::slice::index::<impl std::ops::IndexMut<I> for [T]>::index_mut'
VEC_INDEX = ('<std::vec::Vec<T, A> as std::ops::Index<I>>::index', '<std::vec::Vec<T, A> as std::ops::IndexMut<I>>::index_mut')

# std functions that panic on some inputs and that no rule models precisely: reaching one from a total entry
# point is reported as undecided
SPLIT_AT = ('core::slice::<impl [T]>::split_at', 'core::slice::<impl [T]>::split_at_mut')
PANICKY_STD = (
    'core::slice::<impl [T]>::copy_from_slice',
    'core::slice::<impl [T]>::clone_from_slice', 'core::slice::<impl [T]>::chunks', 'core::slice::<impl [T]>::chunks_exact',
    'core::slice::<impl [T]>::windows', 'core::slice::<impl [T]>::swap', 'core::slice::<impl [T]>::rotate_left',
    'core::slice::<impl [T]>::rotate_right', 'core::slice::<impl [T]>::first_chunk', 'core::slice::<impl [T]>::split_first_chunk',
    'std::vec::Vec::<T, A>::remove', 'std::vec::Vec::<T, A>::swap_remove', 'std::vec::Vec::<T, A>::insert',
    'std::vec::Vec::<T, A>::drain', 'std::vec::Vec::<T, A>::split_off', 'std::vec::Vec::<T, A>::truncate_front',
    'std::cell::RefCell::<T>::borrow', 'std::cell::RefCell::<T>::borrow_mut',
    'core::str::<impl str>::split_at', 'core::num::<impl u64>::pow', 'core::num::<impl usize>::pow',
    'core::num::<impl u64>::div_ceil', 'core::num::<impl usize>::next_power_of_two',
    'std::alloc::handle_alloc_error', 'core::str::traits::<impl std::ops::Index<I> for str>::index',
    'std::string::String::insert', 'std::string::String::remove', 'std::string::String::truncate',
    'core::slice::<impl [T]>::as_chunks', 'core::slice::<impl [T]>::as_array', 'core::array::<impl [T; N]>::each_ref',
    'std::iter::Iterator::step_by', 'core::char::from_digit', 'std::time::Instant::duration_since',
    'core::num::<impl u64>::strict_add', 'core::num::<impl usize>::strict_sub',
)

LEN_FNS = ('core::slice::<impl [T]>::len', 'std::vec::Vec::<T, A>::len', 'core::str::<impl str>::len', 'std::string::String::len')
IS_EMPTY_FNS = ('core::slice::<impl [T]>::is_empty', 'std::vec::Vec::<T, A>::is_empty')

# calls whose result is (by stated assumption) a pure function of their arguments
PURE_FNS = LEN_FNS + IS_EMPTY_FNS + (
    'std::convert::AsRef::as_ref', '<std::vec::Vec<T, A> as std::ops::Deref>::deref', 'std::ops::Deref::deref',
    '<std::vec::Vec<T, A> as std::convert::AsRef<[T]>>::as_ref', 'std::vec::Vec::<T, A>::as_slice',
    'core::num::<impl u64>::from_le_bytes', 'core::num::<impl u32>::from_le_bytes',
)

TRY_INTO = ('std::convert::TryInto::try_into', '<T as std::convert::TryInto<U>>::try_into')

# ---- effects ----------------------------------------------------------------------------------
GROW_METHODS = re.compile(
    r"^(std::vec::Vec::<T, A>::(push|push_within_capacity|extend_from_slice|extend_from_within|insert|append|resize|resize_with|reserve|reserve_exact|try_reserve|splice)"
    r"|<std::vec::Vec<T, A> as std::iter::Extend<.*>>::extend|<std::vec::Vec<T, A> as std::iter::Extend<&'a T>>::extend"
    r"|std::collections::BinaryHeap::<T, A>::(push|append|extend_from_slice)|std::collections::BinaryHeap::<T>::push"
    r"|<std::collections::BinaryHeap<T, A> as std::iter::Extend<T>>::extend"
    r"|std::collections::HashMap::<K, V, S, A>::(insert|entry|try_insert|reserve)|std::collections::HashMap::<K, V, S>::(insert|entry|reserve)"
    r"|std::collections::HashSet::<T, S, A>::(insert|replace|get_or_insert_with|reserve)|std::collections::HashSet::<T, S>::(insert|replace|reserve)"
    r"|std::collections::BTreeMap::<K, V, A>::(insert|entry)|std::collections::BTreeSet::<T, A>::insert"
    r"|std::collections::VecDeque::<T, A>::(push_back|push_front|extend|append|resize|reserve|insert)"
    r"|std::collections::hash_map::VacantEntry::<'a, K, V, A>::insert|std::collections::hash_map::Entry::<'a, K, V, A>::(or_insert|or_insert_with|or_default|or_insert_with_key|insert_entry)"
    r"|std::string::String::(push|push_str|insert|insert_str|reserve|extend_from_within)"
    r"|<std::string::String as std::iter::Extend<.*>>::extend"
    r"|std::iter::Extend::extend)$")


def is_grow(path):
    return isinstance(path, str) and bool(GROW_METHODS.match(path))


SHRINK = re.compile(r"::(clear|truncate|pop|drain|take|swap_remove|remove|pop_front|pop_back)$")

ALLOC_FNS = re.compile(
    r"^(std::vec::Vec::<T>::(new|with_capacity)|std::vec::Vec::<T, A>::(with_capacity_in|new_in)"
    r"|std::vec::from_elem|alloc::vec::from_elem|std::slice::<impl \[T\]>::(to_vec|to_vec_in|into_vec|repeat|concat|join|to_owned)"
    r"|<\[T\] as std::borrow::ToOwned>::to_owned|std::borrow::ToOwned::to_owned|<T as std::borrow::ToOwned>::to_owned"
    r"|std::boxed::Box::<T>::new|alloc::alloc::exchange_malloc|std::boxed::box_new_uninit|std::boxed::Box::<T>::new_uninit"
    r"|std::string::String::(from_utf8|from_utf8_lossy|with_capacity|from_utf16)|<std::string::String as std::convert::From<&str>>::from"
    r"|std::fmt::format|alloc::fmt::format|std::fmt::format::format_inner|<T as std::string::ToString>::to_string|std::string::ToString::to_string"
    r"|std::iter::Iterator::collect|<std::vec::Vec<T> as std::iter::FromIterator<T>>::from_iter|std::iter::FromIterator::from_iter"
    r"|<std::vec::Vec<T, A> as std::clone::Clone>::clone|<std::string::String as std::clone::Clone>::clone"
    r"|std::collections::BinaryHeap::<T>::(new|with_capacity)|std::collections::HashMap::<K, V>::with_capacity|std::collections::HashMap::<K, V, S>::with_capacity_and_hasher"
    r"|std::rc::Rc::<T>::new|std::sync::Arc::<T>::new|std::str::<impl str>::to_owned|std::str::<impl str>::to_string|std::str::<impl str>::to_lowercase"
    r"|<std::vec::Vec<T> as std::convert::From<&\[T\]>>::from|<std::vec::Vec<T> as std::convert::From<&\[T; N\]>>::from|<std::vec::Vec<T> as std::convert::From<\[T; N\]>>::from"
    r"|std::slice::<impl \[T\]>::sort|std::slice::<impl \[T\]>::sort_by|std::slice::<impl \[T\]>::sort_by_key"
    r")$")


def is_alloc(path):
    if not isinstance(path, str):
        return False
    return bool(ALLOC_FNS.match(path)) or is_grow(path)


NONDET = re.compile(
    r"^(std::hash::RandomState::new|std::collections::hash_map::RandomState::new|<std::hash::RandomState as std::default::Default>::default"
    r"|std::hash::BuildHasher::hash_one|<std::hash::RandomState as std::hash::BuildHasher>::build_hasher|<std::hash::RandomState as std::hash::BuildHasher>::hash_one"
    r"|std::time::SystemTime::now|std::time::Instant::now|std::env::.*|std::thread::current|std::process::id|std::thread::Thread::id"
    r"|std::sync::atomic::.*|std::thread::spawn|std::thread::Builder::spawn|std::thread::available_parallelism"
    r"|std::ptr::addr_of|std::ptr::<impl \*const T>::addr|std::ptr::<impl \*mut T>::addr|std::ptr::<impl \*const T>::expose_provenance"
    r"|std::fs::.*|std::net::.*|std::io::stdin|std::random::.*"
    r")$")

HASH_ITER = re.compile(
    r"^(std::collections::HashMap::<K, V, S, A>::(iter|iter_mut|keys|values|values_mut|drain|retain|into_keys|into_values|extract_if)"
    r"|std::collections::HashMap::<K, V, S>::(iter|iter_mut|keys|values|values_mut|drain|retain|into_keys|into_values)"
    r"|std::collections::HashSet::<T, S, A>::(iter|drain|retain)|std::collections::HashSet::<T, S>::(iter|drain|retain|union|intersection|difference|symmetric_difference)"
    r"|<std::collections::HashMap<K, V, S, A> as std::iter::IntoIterator>::into_iter|<&'a std::collections::HashMap<K, V, S, A> as std::iter::IntoIterator>::into_iter"
    r"|<&'a mut std::collections::HashMap<K, V, S, A> as std::iter::IntoIterator>::into_iter"
    r"|<std::collections::HashSet<T, S, A> as std::iter::IntoIterator>::into_iter|<&'a std::collections::HashSet<T, S, A> as std::iter::IntoIterator>::into_iter"
    r")$")


def is_nondet(path):
    return isinstance(path, str) and (bool(NONDET.match(path)) or bool(HASH_ITER.match(path)))


IO_WRITE = 'std::io::Write::write'
IO_WRITE_ALL = 'std::io::Write::write_all'
IO_FLUSH = 'std::io::Write::flush'
IO_WRITE_METHODS = ('std::io::Write::write', 'std::io::Write::write_all', 'std::io::Write::flush', 'std::io::Write::write_vectored',
                    'std::io::Write::write_fmt', 'std::io::Write::write_all_vectored', 'std::io::Write::by_ref')

TRY_BRANCH = ('<std::result::Result<T, E> as std::ops::Try>::branch', '<std::option::Option<T> as std::ops::Try>::branch', 'std::ops::Try::branch')
FROM_RESIDUAL = ('<std::result::Result<T, F> as std::ops::FromResidual<std::result::Result<std::convert::Infallible, E>>>::from_residual',
                 '<std::option::Option<T> as std::ops::FromResidual<std::option::Option<std::convert::Infallible>>>::from_residual',
                 'std::ops::FromResidual::from_residual')

RESULT_SWALLOW = re.compile(r"^std::result::Result::<T, E>::(ok|unwrap_or|unwrap_or_else|unwrap_or_default|is_ok|is_err|err|iter|unwrap_unchecked|map_or|map_or_else|is_ok_and|is_err_and|into_ok|and|or|or_else|unwrap_or_else)$")
RESULT_PASS = re.compile(r"^std::result::Result::<T, E>::(map|map_err|and_then|inspect|inspect_err)$")
