"""Virtual paths: case splits that std combinators hide inside a value.

`Some(x).filter(|&n| n != 0)`, `idx.checked_sub(1).map(|i| T[i])`, `opt.unwrap_or_else(|| fallback)`, `match helper() {..}` and
`if helper().is_none()` all describe the same case analysis; only some of them show up as branches of the function's own CFG.
`vpaths(fn)` lists (conditions, returned value) pairs with the hidden cases made explicit: the value returned on each real path is
split over the std Option/Result combinators (closures inlined, local multi-path helpers entered), and every condition - real or
virtual - is given in the canonical form of stdalg.  Rules about small pure accessors then ask "under which condition is what
returned", whatever the spelling.
"""
import stdalg
from paths import explore
from sym import subst, simplify_proj, fold_bin, map_children

MAX_DEPTH = 3
_IS = lambda e, suf: isinstance(e, tuple) and e[0] == 'call' and isinstance(e[1], str) and e[1].endswith(suf)


def _some(x):
    return ('agg', 'std::option::Option::Some', (('0', x),))


NONE = ('agg', 'std::option::Option::None', ())


def _is_some(v):
    return v[0] == 'agg' and v[1].endswith('Option::Some')


def _is_none(v):
    return v[0] == 'agg' and v[1].endswith('Option::None')


def simp(e):
    """projection / closure-capture / literal-arithmetic reductions"""
    if not isinstance(e, tuple):
        return e
    e = map_children(e, simp)
    if e[0] == 'field' and e[1][0] == 'closure' and e[2].isdigit() and int(e[2]) < len(e[1][2]):
        return e[1][2][int(e[2])]
    if e[0] == 'bin':
        return fold_bin(e)
    return simplify_proj(e) if e[0] == 'field' else e


def fn_cases(crate, g, args, depth):
    """[(conds, value)] over the returning paths of a loop-free local function / closure applied to args (1-based param map)"""
    if g.loops() or depth > MAX_DEPTH:
        return None
    ps = [q for q in explore(g, max_visits=1, limit=64) if q.end == 'return']
    if not ps or len(ps) > 16:
        return None
    out = []
    for q in ps:
        conds = []
        for (k, bid, e, val, how) in q.cdecisions():
            if how == 'const':
                continue
            conds.append((simp(subst(e, args)), val))
        v = simp(subst(q.ret(), args))
        for cs2, v2 in split(crate, v, depth + 1):
            out.append((conds + cs2, v2))
    return out


def closure_cases(crate, clo, call_args, depth):
    if clo[0] != 'closure' or clo[1] not in crate.fns:
        return None
    g = crate.fns[clo[1]]
    m = {1: clo}
    for i, a in enumerate(call_args):
        m[i + 2] = a
    return fn_cases(crate, g, m, depth)


def opt_cases(crate, o, depth, enter):
    """cases of an Option-valued expression: [(conds, Some(x) | None)]; an opaque value splits on its own discriminant"""
    out = []
    for cs, v in split(crate, o, depth + 1, enter):
        if _is_some(v) or _is_none(v):
            out.append((cs, v))
        else:
            out.append((cs + [(('discr', v), 1)], _some(('field', ('variant', v, 'Some'), '0'))))
            out.append((cs + [(('discr', v), 0)], NONE))
    return out


def split(crate, e, depth=0, enter=True):
    """[(conds, value)] : the cases of value e; conds = [(expr, val)]"""
    if not isinstance(e, tuple) or depth > MAX_DEPTH:
        return [([], e)]
    while e[0] == 'cast' and e[1][0] == 'call':
        # keep casts on scalars, look through them for calls producing Options is pointless: stop
        break
    if e[0] != 'call' or not isinstance(e[1], str):
        return [([], e)]
    name, args = e[1], e[2]
    # ---- local helper with several returning paths (e.g. fn common_input(idx) -> Option<u8>) -----------------------------------
    if name in crate.fns and '{closure' not in name:
        if not enter:
            return [([], e)]
        r = fn_cases(crate, crate.fns[name], {i + 1: a for i, a in enumerate(args)}, depth + 1)
        if r is not None and (len(r) > 1 or (r and r[0][1] != e)):
            return r
        return [([], e)]
    out = []
    if _IS(e, 'Option::<T>::filter'):
        for cs, v in opt_cases(crate, args[0], depth, enter):
            if _is_none(v):
                out.append((cs, NONE))
            elif _is_some(v):
                x = v[2][0][1]
                cc = closure_cases(crate, args[1], [x], depth + 1)
                if cc is None:
                    return [([], e)]
                for cs2, r in cc:
                    if r == ('const', 1):
                        out.append((cs + cs2, v))
                    elif r == ('const', 0):
                        out.append((cs + cs2, NONE))
                    else:
                        out.append((cs + cs2 + [(r, 1)], v))
                        out.append((cs + cs2 + [(r, 0)], NONE))
            else:
                return [([], e)]
        return out
    if _IS(e, 'Option::<T>::map') or _IS(e, 'Option::<T>::and_then'):
        for cs, v in opt_cases(crate, args[0], depth, enter):
            if _is_none(v):
                out.append((cs, NONE))
            elif _is_some(v):
                cc = closure_cases(crate, args[1], [v[2][0][1]], depth + 1)
                if cc is None:
                    return [([], e)]
                for cs2, r in cc:
                    out.append((cs + cs2, _some(r) if name.endswith('::map') else r))
            else:
                return [([], e)]
        return out
    if _IS(e, 'Option::<T>::unwrap_or_else') or _IS(e, 'Option::<T>::unwrap_or') or _IS(e, 'Option::<T>::map_or') or _IS(e, 'Option::<T>::map_or_else'):
        for cs, v in opt_cases(crate, args[0], depth, enter):
            if _is_some(v):
                if 'map_or' in name:
                    cc = closure_cases(crate, args[2], [v[2][0][1]], depth + 1)
                    if cc is None:
                        return [([], e)]
                    out.extend((cs + cs2, r) for cs2, r in cc)
                else:
                    out.append((cs, v[2][0][1]))
            elif _is_none(v):
                if name.endswith('unwrap_or') or name.endswith('::map_or'):
                    out.append((cs, args[1]))
                else:
                    cc = closure_cases(crate, args[1], [], depth + 1)
                    if cc is None:
                        return [([], e)]
                    out.extend((cs + cs2, r) for cs2, r in cc)
            else:
                return [([], e)]
        return out
    if _IS(e, '::checked_sub') and len(args) == 2:
        a, b = args
        if b == ('const', 1):
            c = ('bin', 'Eq', a, ('const', 0))       # unsigned: a >= 1 <=> a != 0
            return [([(c, 0)], _some(fold_bin(('bin', 'Sub', a, b)))), ([(c, 1)], NONE)]
        c = ('bin', 'Ge', a, b)
        return [([(c, 1)], _some(fold_bin(('bin', 'Sub', a, b)))), ([(c, 0)], NONE)]
    if _IS(e, 'bool>::then') or _IS(e, 'bool::then') or _IS(e, '::then_some'):
        c = args[0]
        if name.endswith('then_some'):
            return [([(c, 1)], _some(args[1])), ([(c, 0)], NONE)]
        cc = closure_cases(crate, args[1], [], depth + 1)
        if cc is None:
            return [([], e)]
        return [([(c, 1)] + cs2, _some(r)) for cs2, r in cc] + [([(c, 0)], NONE)]
    if _IS(e, 'Option::<T>::is_none') or _IS(e, 'Option::<T>::is_some'):
        want_some = name.endswith('is_some')
        for cs, v in opt_cases(crate, args[0], depth, enter):
            if _is_some(v):
                out.append((cs, ('const', 1 if want_some else 0)))
            elif _is_none(v):
                out.append((cs, ('const', 0 if want_some else 1)))
            else:
                return [([], e)]
        return out
    return [([], e)]


class VPath:
    def __init__(self, base, conds, value):
        self.base = base
        self.end = 'return'
        self.fn = base.fn
        self.blocks = base.blocks
        self.sym = base.sym
        k = len(base.blocks) - 1
        self.decisions = list(base.decisions) + [(k, base.blocks[-1], c, v, 'virtual') for c, v in conds]
        self._ret = value
        self.virtual = conds

    def cdecisions(self):
        out = []
        for (k, bid, e, val, how) in self.decisions:
            e2, v2 = stdalg.canon_decision(e, val)
            out.append((k, bid, e2, v2, how))
        return out

    def ret(self):
        return self._ret

    def calls(self):
        return self.base.calls()

    def stores(self):
        return self.base.stores()


def refine(crate, p, enter=True):
    """split one real returning path: decisions made on the result of a multi-path local helper are replaced by that helper's own
    conditions (match common_input() { None => .. } -> idx == 0), and the returned value is split over the std combinators"""
    conds_sets = [([], None)]
    dec = []
    for (k, bid, e, val, how) in p.cdecisions():
        if e[0] == 'discr' and isinstance(val, int):
            cases = split(crate, e[1], 0, enter)
            if len(cases) > 1 or (cases and cases[0][1] != e[1]):
                new = []
                for cs0, _ in conds_sets:
                    for cs, v in cases:
                        if (_is_some(v) and val == 1) or (_is_none(v) and val == 0):
                            new.append((cs0 + cs, None))
                        elif not (_is_some(v) or _is_none(v)):
                            new.append((cs0 + cs + [(('discr', v), val)], None))
                conds_sets = new
                continue
        dec.append((k, bid, e, val, how))
    out = []
    for cs0, _ in conds_sets:
        for cs, v in split(crate, simp(p.ret()), 0, enter):
            vp = VPath(p, cs0 + cs, v)
            vp.decisions = dec + vp.decisions[len(p.decisions):]
            out.append(vp)
    return out


def vpaths(crate, fn, enter=True, **kw):
    """enter=False: local helper functions stay opaque calls (rules that anchor on them), only std combinators and closures split"""
    out = []
    for p in explore(fn, **dict({'max_visits': 1}, **kw)):
        if p.end != 'return':
            continue
        out.extend(refine(crate, p, enter))
    return out
