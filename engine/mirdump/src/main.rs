#![feature(rustc_private)]
#![allow(unused)]
extern crate rustc_abi;
extern crate rustc_driver;
extern crate rustc_hir;
extern crate rustc_interface;
extern crate rustc_middle;
extern crate rustc_span;

use rustc_driver::Compilation;
use rustc_hir::def::DefKind;
use rustc_hir::def_id::{DefId, LOCAL_CRATE};
use rustc_middle::mir::*;
use rustc_middle::ty::{self, Instance, Ty, TyCtxt, TypingEnv};
use std::fmt::Write as _;

fn esc(s: &str) -> String {
    let mut o = String::with_capacity(s.len() + 2);
    o.push('"');
    for c in s.chars() {
        match c {
            '"' => o.push_str("\\\""),
            '\\' => o.push_str("\\\\"),
            '\n' => o.push_str("\\n"),
            '\r' => o.push_str("\\r"),
            '\t' => o.push_str("\\t"),
            c if (c as u32) < 0x20 => { let _ = write!(o, "\\u{:04x}", c as u32); }
            c => o.push(c),
        }
    }
    o.push('"');
    o
}

struct Cx<'tcx> { tcx: TyCtxt<'tcx> }

impl<'tcx> Cx<'tcx> {
    fn span(&self, sp: rustc_span::Span) -> String {
        let sm = self.tcx.sess.source_map();
        let lo = sm.lookup_char_pos(sp.lo());
        format!("{}:{}", lo.file.name.prefer_local_unconditionally(), lo.line)
    }
    fn place(&self, body: &Body<'tcx>, p: &Place<'tcx>) -> String {
        let mut s = format!("{{\"local\":{},\"proj\":[", p.local.as_usize());
        let mut pty = rustc_middle::mir::PlaceTy::from_ty(body.local_decls[p.local].ty);
        let mut first = true;
        for elem in p.projection.iter() {
            if !first { s.push(','); }
            first = false;
            match elem {
                ProjectionElem::Deref => s.push_str("\"deref\""),
                ProjectionElem::Field(f, _) => {
                    let mut name = format!("{}", f.as_usize());
                    let mut of = String::new();
                    if let ty::Adt(adt, _) = pty.ty.kind() {
                        let vidx = pty.variant_index.unwrap_or(rustc_abi::FIRST_VARIANT);
                        if adt.is_enum() || adt.is_struct() || adt.is_union() {
                            let v = adt.variant(vidx);
                            if f.as_usize() < v.fields.len() { name = v.fields[f].name.to_string(); }
                            of = self.tcx.def_path_str(adt.did());
                        }
                    }
                    let _ = write!(s, "{{\"field\":{},\"name\":{},\"of\":{}}}", f.as_usize(), esc(&name), esc(&of));
                }
                ProjectionElem::Index(l) => { let _ = write!(s, "{{\"index\":{}}}", l.as_usize()); }
                ProjectionElem::ConstantIndex { offset, min_length, from_end } => { let _ = write!(s, "{{\"const_index\":{},\"min_length\":{},\"from_end\":{}}}", offset, min_length, from_end); }
                ProjectionElem::Subslice { from, to, from_end } => { let _ = write!(s, "{{\"subslice\":[{},{},{}]}}", from, to, from_end); }
                ProjectionElem::Downcast(name, idx) => {
                    let n = name.map(|x| x.to_string()).unwrap_or_else(|| format!("{}", idx.as_usize()));
                    let _ = write!(s, "{{\"downcast\":{},\"idx\":{}}}", esc(&n), idx.as_usize());
                }
                _ => s.push_str("\"other\""),
            }
            pty = pty.projection_ty(self.tcx, elem);
        }
        s.push_str("]}");
        s
    }
    fn constant(&self, c: &ConstOperand<'tcx>) -> String {
        let ty = c.const_.ty();
        let tys = format!("{:?}", ty);
        if let ty::FnDef(did, args) = ty.kind() {
            return format!("{{\"const\":{{\"ty\":{},\"fn\":{},\"fn_full\":{}}}}}", esc("fn"), esc(&self.tcx.def_path_str(*did)), esc(&self.tcx.def_path_str_with_args(*did, args)));
        }
        let disp = format!("{}", c.const_);
        let mut scalar = String::from("null");
        if let Some(si) = c.const_.try_to_scalar_int() {
            scalar = esc(&format!("{:#x}", si.to_bits_unchecked()));
        }
        let mut extra = String::new();
        if let Const::Unevaluated(uv, _) = c.const_ {
            if let Some(p) = uv.promoted { let _ = write!(extra, ",\"promoted\":{}", p.as_usize()); }
            else { let _ = write!(extra, ",\"item\":{}", esc(&self.tcx.def_path_str(uv.def))); }
        }
        if let Const::Val(cv, _) = c.const_ {
            if let Some(h) = self.const_bytes(cv) { let _ = write!(extra, ",\"bytes\":\"{}\"", h); }
        }
        format!("{{\"const\":{{\"ty\":{},\"scalar\":{},\"disp\":{}{}}}}}", esc(&tys), scalar, esc(&disp), extra)
    }
    fn const_bytes(&self, cv: ConstValue) -> Option<String> {
        let tcx = self.tcx;
        let hex = |bytes: &[u8]| { let mut h = String::with_capacity(bytes.len()*2); for b in bytes { let _ = write!(h, "{:02x}", b); } h };
        match cv {
            ConstValue::Slice { alloc_id, meta } => {
                if let rustc_middle::mir::interpret::GlobalAlloc::Memory(alloc) = tcx.global_alloc(alloc_id) {
                    let a = alloc.inner();
                    if a.provenance().ptrs().is_empty() {
                        let n = std::cmp::min(meta as usize, a.len());
                        return Some(hex(a.inspect_with_uninit_and_ptr_outside_interpreter(0..n)));
                    }
                }
                None
            }
            ConstValue::Indirect { alloc_id, .. } => {
                if let rustc_middle::mir::interpret::GlobalAlloc::Memory(alloc) = tcx.global_alloc(alloc_id) {
                    let a = alloc.inner();
                    if a.provenance().ptrs().is_empty() {
                        return Some(hex(a.inspect_with_uninit_and_ptr_outside_interpreter(0..a.len())));
                    }
                }
                None
            }
            ConstValue::Scalar(rustc_middle::mir::interpret::Scalar::Ptr(ptr, _)) => {
                let aid = ptr.provenance.alloc_id();
                if let rustc_middle::mir::interpret::GlobalAlloc::Memory(alloc) = tcx.global_alloc(aid) {
                    let a = alloc.inner();
                    if a.provenance().ptrs().is_empty() {
                        return Some(hex(a.inspect_with_uninit_and_ptr_outside_interpreter(0..a.len())));
                    }
                }
                None
            }
            _ => None,
        }
    }
    fn operand(&self, body: &Body<'tcx>, o: &Operand<'tcx>) -> String {
        match o {
            Operand::Copy(p) => format!("{{\"copy\":{}}}", self.place(body, p)),
            Operand::Move(p) => format!("{{\"move\":{}}}", self.place(body, p)),
            Operand::Constant(c) => self.constant(c),
            _ => "{\"other_op\":true}".to_string(),
        }
    }
    fn rvalue(&self, body: &Body<'tcx>, rv: &Rvalue<'tcx>) -> String {
        match rv {
            Rvalue::Use(o, ..) => format!("{{\"use\":{}}}", self.operand(body, o)),
            Rvalue::Ref(_, bk, p) => format!("{{\"ref\":{},\"mut\":{}}}", self.place(body, p), matches!(bk, BorrowKind::Mut { .. })),
            Rvalue::RawPtr(_, p) => format!("{{\"raw_ptr\":{}}}", self.place(body, p)),
            Rvalue::CopyForDeref(p) => format!("{{\"use\":{{\"copy\":{}}}}}", self.place(body, p)),
            Rvalue::BinaryOp(op, ab) => format!("{{\"bin\":{},\"a\":{},\"b\":{}}}", esc(&format!("{:?}", op)), self.operand(body, &ab.0), self.operand(body, &ab.1)),
            Rvalue::UnaryOp(op, a) => format!("{{\"un\":{},\"a\":{}}}", esc(&format!("{:?}", op)), self.operand(body, a)),
            Rvalue::Cast(k, a, ty) => format!("{{\"cast\":{},\"a\":{},\"to\":{}}}", esc(&format!("{:?}", k)), self.operand(body, a), esc(&format!("{:?}", ty))),
            Rvalue::Discriminant(p) => {
                // number of variants of the discriminated enum: lets the analyses turn "not variant k" into the other variant
                let ty = p.ty(&body.local_decls, self.tcx).ty;
                let nv = match ty.kind() { ty::TyKind::Adt(adt, _) if adt.is_enum() => adt.variants().len() as i64, _ => -1 };
                format!("{{\"discr\":{},\"nvariants\":{}}}", self.place(body, p), nv)
            }
            Rvalue::Repeat(o, n) => format!("{{\"repeat\":{},\"n\":{}}}", self.operand(body, o), esc(&format!("{}", n))),
            Rvalue::Aggregate(kind, ops) => {
                let k = match &**kind {
                    AggregateKind::Array(_) => "\"array\"".to_string(),
                    AggregateKind::Tuple => "\"tuple\"".to_string(),
                    AggregateKind::Adt(did, vidx, _, _, _) => {
                        let adt = self.tcx.adt_def(*did);
                        let v = adt.variant(*vidx);
                        let fields: Vec<String> = v.fields.iter().map(|f| esc(&f.name.to_string())).collect();
                        format!("{{\"adt\":{},\"variant\":{},\"fields\":[{}]}}", esc(&self.tcx.def_path_str(*did)), esc(&v.name.to_string()), fields.join(","))
                    }
                    AggregateKind::Closure(did, _) => format!("{{\"closure\":{}}}", esc(&self.tcx.def_path_str(*did))),
                    _ => "\"other\"".to_string(),
                };
                let os: Vec<String> = ops.iter().map(|o| self.operand(body, o)).collect();
                format!("{{\"agg\":{},\"ops\":[{}]}}", k, os.join(","))
            }
            other => format!("{{\"other\":{}}}", esc(&format!("{:?}", other))),
        }
    }
    fn terminator(&self, owner: DefId, body: &Body<'tcx>, t: &Terminator<'tcx>) -> String {
        let sp = esc(&self.span(t.source_info.span));
        let exp = t.source_info.span.from_expansion();
        match &t.kind {
            TerminatorKind::Goto { target } => format!("{{\"k\":\"goto\",\"target\":{}}}", target.as_usize()),
            TerminatorKind::SwitchInt { discr, targets } => {
                let ts: Vec<String> = targets.iter().map(|(v, b)| format!("[{},{}]", v, b.as_usize())).collect();
                format!("{{\"k\":\"switch\",\"discr\":{},\"targets\":[{}],\"otherwise\":{},\"span\":{}}}", self.operand(body, discr), ts.join(","), targets.otherwise().as_usize(), sp)
            }
            TerminatorKind::Return => "{\"k\":\"return\"}".to_string(),
            TerminatorKind::Unreachable => "{\"k\":\"unreachable\"}".to_string(),
            TerminatorKind::UnwindResume => "{\"k\":\"resume\"}".to_string(),
            TerminatorKind::Drop { place, target, unwind, .. } => {
                let pty = place.ty(&body.local_decls, self.tcx).ty;
                format!("{{\"k\":\"drop\",\"place\":{},\"ty\":{},\"target\":{},\"unwind\":{}}}", self.place(body, place), esc(&format!("{:?}", pty)), target.as_usize(), unw(unwind))
            }
            TerminatorKind::Call { func, args, destination, target, unwind, .. } => {
                let mut callee = String::from("null");
                if let Operand::Constant(c) = func {
                    if let ty::FnDef(did, gargs) = c.const_.ty().kind() {
                        let path = self.tcx.def_path_str(*did);
                        let full = self.tcx.def_path_str_with_args(*did, gargs);
                        let is_trait = self.tcx.trait_of_assoc(*did).is_some();
                        let mut resolved = String::from("null");
                        let env = TypingEnv::post_analysis(self.tcx, owner);
                        if let Ok(Some(inst)) = Instance::try_resolve(self.tcx, env, *did, gargs) {
                            let rd = inst.def_id();
                            if rd != *did { resolved = esc(&self.tcx.def_path_str(rd)); }
                        }
                        let krate = self.tcx.crate_name(did.krate).to_string();
                        callee = format!("{{\"path\":{},\"full\":{},\"crate\":{},\"is_trait_method\":{},\"resolved\":{}}}", esc(&path), esc(&full), esc(&krate), is_trait, resolved);
                    }
                }
                let fop = if callee == "null" { self.operand(body, func) } else { "null".to_string() };
                let a: Vec<String> = args.iter().map(|x| self.operand(body, &x.node)).collect();
                format!("{{\"k\":\"call\",\"callee\":{},\"fn_operand\":{},\"args\":[{}],\"dest\":{},\"target\":{},\"unwind\":{},\"span\":{},\"from_expansion\":{}}}",
                    callee, fop, a.join(","), self.place(body, destination), target.map(|b| b.as_usize().to_string()).unwrap_or("null".into()), unw(unwind), sp, exp)
            }
            TerminatorKind::Assert { cond, expected, msg, target, unwind } => {
                let kind = match &**msg {
                    AssertKind::BoundsCheck { len, index } => format!("{{\"bounds\":{{\"len\":{},\"index\":{}}}}}", self.operand(body, len), self.operand(body, index)),
                    AssertKind::Overflow(op, a, b) => format!("{{\"overflow\":{},\"a\":{},\"b\":{}}}", esc(&format!("{:?}", op)), self.operand(body, a), self.operand(body, b)),
                    other => format!("{{\"other\":{}}}", esc(&format!("{:?}", other))),
                };
                format!("{{\"k\":\"assert\",\"cond\":{},\"expected\":{},\"kind\":{},\"target\":{},\"unwind\":{},\"span\":{}}}", self.operand(body, cond), expected, kind, target.as_usize(), unw(unwind), sp)
            }
            other => format!("{{\"k\":\"other\",\"dbg\":{}}}", esc(&format!("{:?}", other))),
        }
    }
    fn body_json(&self, did: DefId, body: &Body<'tcx>) -> String {
        let mut s = String::new();
        let mut names: Vec<Option<String>> = vec![None; body.local_decls.len()];
        for vdi in &body.var_debug_info {
            if let VarDebugInfoContents::Place(p) = &vdi.value {
                if p.projection.is_empty() { names[p.local.as_usize()] = Some(vdi.name.to_string()); }
            }
        }
        s.push_str("\"locals\":[");
        for (i, (l, d)) in body.local_decls.iter_enumerated().enumerate() {
            if i > 0 { s.push(','); }
            let _ = write!(s, "{{\"id\":{},\"ty\":{},\"name\":{}}}", l.as_usize(), esc(&format!("{:?}", d.ty)), names[l.as_usize()].as_ref().map(|n| esc(n)).unwrap_or("null".into()));
        }
        s.push_str("],\"blocks\":[");
        for (i, (bb, data)) in body.basic_blocks.iter_enumerated().enumerate() {
            if i > 0 { s.push(','); }
            let _ = write!(s, "{{\"id\":{},\"cleanup\":{},\"stmts\":[", bb.as_usize(), data.is_cleanup);
            let mut first = true;
            for st in &data.statements {
                let line = { let sm = self.tcx.sess.source_map(); sm.lookup_char_pos(st.source_info.span.lo()).line };
                let exp = st.source_info.span.from_expansion();
                let js = match &st.kind {
                    StatementKind::Assign(b) => Some(format!("{{\"k\":\"assign\",\"place\":{},\"rv\":{},\"line\":{},\"exp\":{}}}", self.place(body, &b.0), self.rvalue(body, &b.1), line, exp)),
                    StatementKind::SetDiscriminant { place, variant_index } => Some(format!("{{\"k\":\"set_discr\",\"place\":{},\"variant\":{},\"line\":{}}}", self.place(body, place), variant_index.as_usize(), line)),
                    _ => None,
                };
                if let Some(js) = js { if !first { s.push(','); } first = false; s.push_str(&js); }
            }
            s.push_str("],\"term\":");
            match &data.terminator { Some(t) => s.push_str(&self.terminator(did, body, t)), None => s.push_str("null") }
            s.push('}');
        }
        s.push_str("]");
        s
    }
    fn function(&self, did: DefId) -> String {
        let tcx = self.tcx;
        let body = tcx.optimized_mir(did);
        let path = tcx.def_path_str(did);
        let mut s = String::new();
        let kind = tcx.def_kind(did);
        let _ = write!(s, "{{\"path\":{},\"def_kind\":{},\"span\":{},\"from_expansion\":{},\"arg_count\":{}", esc(&path), esc(&format!("{:?}", kind)), esc(&self.span(body.span)), body.span.from_expansion(), body.arg_count);
        if matches!(kind, DefKind::Fn | DefKind::AssocFn) {
            let vis = tcx.visibility(did);
            let v = if vis.is_public() { "pub" } else { "restricted" };
            let _ = write!(s, ",\"vis\":\"{}\"", v);
            let sig = tcx.fn_sig(did).instantiate_identity().skip_norm_wip();
            let _ = write!(s, ",\"unsafe_fn\":{}", !sig.safety().is_safe());
            let preds = tcx.predicates_of(did).instantiate_identity(tcx);
            let ps: Vec<String> = preds.predicates.iter().map(|p| esc(&format!("{:?}", p))).collect();
            let _ = write!(s, ",\"preds\":[{}]", ps.join(","));
        }
        if let Some(parent) = tcx.opt_parent(did) {
            let _ = write!(s, ",\"parent\":{}", esc(&tcx.def_path_str(parent)));
        }
        // impl info
        if let Some(impl_did) = tcx.impl_of_assoc(did) {
            let self_ty = tcx.type_of(impl_did).instantiate_identity().skip_norm_wip();
            let tr = tcx.impl_opt_trait_ref(impl_did).map(|t| format!("{:?}", t.instantiate_identity().skip_norm_wip()));
            let trp = tcx.impl_opt_trait_ref(impl_did).map(|t| tcx.def_path_str(t.skip_binder().def_id));
            let _ = write!(s, ",\"impl\":{{\"self_ty\":{},\"trait\":{},\"trait_path\":{}}}", esc(&format!("{:?}", self_ty)), tr.map(|t| esc(&t)).unwrap_or("null".into()), trp.map(|t| esc(&t)).unwrap_or("null".into()));
        }
        s.push(',');
        s.push_str(&self.body_json(did, body));
        // promoted
        s.push_str(",\"promoted\":[");
        if matches!(kind, DefKind::Fn | DefKind::AssocFn | DefKind::Closure) {
            let proms = tcx.promoted_mir(did);
            for (i, (pi, pb)) in proms.iter_enumerated().enumerate() {
                if i > 0 { s.push(','); }
                let _ = write!(s, "{{\"index\":{},{}}}", pi.as_usize(), self.body_json(did, pb));
            }
        }
        s.push_str("]}");
        s
    }
}
fn unw(u: &UnwindAction) -> String {
    match u { UnwindAction::Cleanup(b) => b.as_usize().to_string(), _ => "null".to_string() }
}


struct UnsafeV<'tcx> { tcx: TyCtxt<'tcx>, out: Vec<String> }
impl<'tcx> rustc_hir::intravisit::Visitor<'tcx> for UnsafeV<'tcx> {
    type NestedFilter = rustc_middle::hir::nested_filter::All;
    fn maybe_tcx(&mut self) -> Self::MaybeTyCtxt { self.tcx }
    fn visit_block(&mut self, b: &'tcx rustc_hir::Block<'tcx>) {
        if let rustc_hir::BlockCheckMode::UnsafeBlock(src) = b.rules {
            let sm = self.tcx.sess.source_map();
            let lo = sm.lookup_char_pos(b.span.lo());
            let owner = self.tcx.hir_enclosing_body_owner(b.hir_id);
            self.out.push(format!("{{\"kind\":\"block\",\"in_fn\":{},\"user\":{},\"span\":{},\"from_expansion\":{}}}",
                esc(&self.tcx.def_path_str(owner.to_def_id())),
                matches!(src, rustc_hir::UnsafeSource::UserProvided),
                esc(&format!("{}:{}", lo.file.name.prefer_local_unconditionally(), lo.line)), b.span.from_expansion()));
        }
        rustc_hir::intravisit::walk_block(self, b);
    }
}
struct Cb;
impl rustc_driver::Callbacks for Cb {
    fn after_analysis<'tcx>(&mut self, _c: &rustc_interface::interface::Compiler, tcx: TyCtxt<'tcx>) -> Compilation {
        let out_dir = match std::env::var("MIRDUMP_OUT") { Ok(d) => d, Err(_) => return Compilation::Continue };
        let cx = Cx { tcx };
        let krate = tcx.crate_name(LOCAL_CRATE).to_string();
        let mut out = String::new();
        let _ = write!(out, "{{\"crate\":{},\"fns\":[", esc(&krate));
        let mut n = 0;
        for ldid in tcx.hir_body_owners() {
            let did = ldid.to_def_id();
            if !matches!(tcx.def_kind(did), DefKind::Fn | DefKind::AssocFn | DefKind::Closure) { continue; }
            if n > 0 { out.push(','); }
            n += 1;
            out.push_str(&cx.function(did));
        }
        out.push_str("],\"unsafe\":[");
        let mut uv = UnsafeV { tcx, out: vec![] };
        tcx.hir_walk_toplevel_module(&mut uv);
        // unsafe fns / impls
        for id in tcx.hir_free_items() {
            let item = tcx.hir_item(id);
            match &item.kind {
                rustc_hir::ItemKind::Fn { sig, .. } => {
                    if sig.header.is_unsafe() { uv.out.push(format!("{{\"kind\":\"fn\",\"path\":{}}}", esc(&tcx.def_path_str(id.owner_id.to_def_id())))); }
                }
                rustc_hir::ItemKind::Impl(imp) => {
                    if let Some(tr) = &imp.of_trait { if matches!(tr.safety, rustc_hir::Safety::Unsafe) && !item.span.from_expansion() {
                        uv.out.push(format!("{{\"kind\":\"impl\",\"path\":{}}}", esc(&tcx.def_path_str(id.owner_id.to_def_id())))); } }
                }
                _ => {}
            }
        }
        out.push_str(&uv.out.join(","));
        out.push_str("],\"consts\":[");
        let mut first = true;
        let mut const_dids: Vec<rustc_hir::def_id::DefId> = tcx.hir_free_items().map(|id| id.owner_id.to_def_id()).collect();
        // associated constants of inherent / trait impls (`Self::SHIFT`): evaluated like free constants when the impl is not generic
        const_dids.extend(tcx.hir_crate_items(()).impl_items().map(|id| id.owner_id.to_def_id()).filter(|d| matches!(tcx.def_kind(*d), DefKind::AssocConst{..})));
        for did in const_dids {
            if !matches!(tcx.def_kind(did), DefKind::Const{..} | DefKind::Static{..} | DefKind::AssocConst{..}) { continue; }
            let ty = tcx.type_of(did).instantiate_identity().skip_norm_wip();
            let mut val = String::from("null");
            let is_const = matches!(tcx.def_kind(did), DefKind::Const{..}) || (matches!(tcx.def_kind(did), DefKind::AssocConst{..}) && tcx.generics_of(did).count() == 0);
            if !is_const { /* statics: value not needed; const_eval_poly would ICE */ }
            else if let Ok(v) = tcx.const_eval_poly(did) {
                match v {
                    ConstValue::Scalar(sc) => { if let Ok(si) = sc.try_to_scalar_int() { val = esc(&format!("{:#x}", si.to_bits_unchecked())); } }
                    ConstValue::Indirect { alloc_id, .. } => {
                        let alloc = tcx.global_alloc(alloc_id).unwrap_memory();
                        let a = alloc.inner();
                        if a.provenance().ptrs().is_empty() {
                            let bytes = a.inspect_with_uninit_and_ptr_outside_interpreter(0..a.len());
                            let mut h = String::with_capacity(bytes.len()*2);
                            for b in bytes { let _ = write!(h, "{:02x}", b); }
                            val = format!("{{\"bytes\":\"{}\"}}", h);
                        }
                    }
                    _ => {}
                }
            }
            if !first { out.push(','); } first = false;
            let _ = write!(out, "{{\"path\":{},\"ty\":{},\"value\":{}}}", esc(&tcx.def_path_str(did)), esc(&format!("{:?}", ty)), val);
        }
        out.push_str("],\"adts\":[");
        let mut first = true;
        for id in tcx.hir_free_items() {
            let did = id.owner_id.to_def_id();
            if !matches!(tcx.def_kind(did), DefKind::Struct | DefKind::Enum | DefKind::Union) { continue; }
            let adt = tcx.adt_def(did);
            if !first { out.push(','); } first = false;
            let _ = write!(out, "{{\"path\":{},\"kind\":{},\"variants\":[", esc(&tcx.def_path_str(did)), esc(&format!("{:?}", tcx.def_kind(did))));
            for (vi, v) in adt.variants().iter().enumerate() {
                if vi > 0 { out.push(','); }
                let _ = write!(out, "{{\"name\":{},\"fields\":[", esc(&v.name.to_string()));
                for (fi, f) in v.fields.iter().enumerate() {
                    if fi > 0 { out.push(','); }
                    let fty = tcx.type_of(f.did).instantiate_identity().skip_norm_wip();
                    let _ = write!(out, "{{\"name\":{},\"ty\":{}}}", esc(&f.name.to_string()), esc(&format!("{:?}", fty)));
                }
                out.push_str("]}");
            }
            out.push_str("]}");
        }
        out.push_str("],\"impls\":[");
        let mut first = true;
        for id in tcx.hir_free_items() {
            let did = id.owner_id.to_def_id();
            if !matches!(tcx.def_kind(did), DefKind::Impl{..}) { continue; }
            let item = tcx.hir_item(id);
            let self_ty = tcx.type_of(did).instantiate_identity().skip_norm_wip();
            let tr = tcx.impl_opt_trait_ref(did).map(|t| format!("{:?}", t.instantiate_identity().skip_norm_wip()));
            let trp = tcx.impl_opt_trait_ref(did).map(|t| tcx.def_path_str(t.skip_binder().def_id));
            let items: Vec<String> = tcx.associated_item_def_ids(did).iter().map(|d| esc(&tcx.def_path_str(*d))).collect();
            let preds = tcx.predicates_of(did).instantiate_identity(tcx);
            let ps: Vec<String> = preds.predicates.iter().map(|p| esc(&format!("{:?}", p))).collect();
            if !first { out.push(','); } first = false;
            let _ = write!(out, "{{\"self_ty\":{},\"trait\":{},\"trait_path\":{},\"from_expansion\":{},\"span\":{},\"items\":[{}],\"preds\":[{}]}}",
                esc(&format!("{:?}", self_ty)), tr.map(|t| esc(&t)).unwrap_or("null".into()), trp.map(|t| esc(&t)).unwrap_or("null".into()),
                item.span.from_expansion(), esc(&cx.span(item.span)), items.join(","), ps.join(","));
        }
        out.push_str("],\"statics\":[");
        let mut first = true;
        for id in tcx.hir_free_items() {
            let did = id.owner_id.to_def_id();
            if let DefKind::Static { mutability, .. } = tcx.def_kind(did) {
                let ty = tcx.type_of(did).instantiate_identity().skip_norm_wip();
                let env = TypingEnv::post_analysis(tcx, did);
                let freeze = ty.is_freeze(tcx, env);
                let tl = tcx.is_thread_local_static(did);
                if !first { out.push(','); } first = false;
                let _ = write!(out, "{{\"path\":{},\"ty\":{},\"mutable\":{},\"interior_mut\":{},\"thread_local\":{},\"from_expansion\":{}}}",
                    esc(&tcx.def_path_str(did)), esc(&format!("{:?}", ty)), matches!(mutability, rustc_hir::Mutability::Mut), !freeze, tl, tcx.hir_item(id).span.from_expansion());
            }
        }
        out.push_str("]}");
        let types: Vec<String> = tcx.crate_types().iter().map(|t| format!("{:?}", t)).collect();
        let fname = format!("{}/{}-{}-{}.json", out_dir, krate, types.join("_"), std::process::id());
        std::fs::write(&fname, out).unwrap();
        eprintln!("MIRDUMP crate={} fns={} -> {}", krate, n, fname);
        Compilation::Continue
    }
}
fn main() {
    let args: Vec<String> = std::env::args().collect();
    let mut a = vec!["rustc".to_string()];
    a.extend(args.into_iter().skip(2));
    rustc_driver::run_compiler(&a, &mut Cb);
}
